"""BOUNDED stand-in (never counted as proved) for the C20 fragment: (1) the assumed semantics of the header/body
boundary search used by the contract of Envelope.parse -- hb_end(data) = end of the leftmost line break (LF, or CRLF)
that is followed through white space only by another LF, ending right after the FIRST such LF -- compared with the
real compiled _HEADER_BOUNDARY; (2) on the real Envelope: for inputs whose header block is a well-formed field, the
body returned by parse()+flatten() is byte-identical to what followed the first boundary.
Bound: all byte strings over {h, :, SP, CR, LF, x} up to length 7 (thorough: 8).  Prints one JSON line."""
import itertools, json, os, sys
import slimta.envelope as envmod
from slimta.envelope import Envelope

MAXLEN = 8 if os.environ.get('PYVC_TIER') == 'thorough' else 7
ALPHA = [b'h', b':', b' ', b'\r', b'\n', b'x']
WS = b' \t\n\r\x0b\x0c'


def ref_hb_end(data):
    n = len(data)
    for s in range(n):                      # leftmost start: at a CR LF or at a LF
        if data[s:s + 1] == b'\n':
            k = s + 1
        elif data[s:s + 2] == b'\r\n':
            k = s + 2
        else:
            continue
        j = k
        while j < n and data[j:j + 1] in [bytes([c]) for c in WS]:
            if data[j:j + 1] == b'\n':
                return j + 1                # lazy: the first LF reachable through white space
            j += 1
    return -1


cases = 0
failures = []
for n in range(0, MAXLEN + 1):
    for tup in itertools.product(ALPHA, repeat=n):
        data = b''.join(tup)
        cases += 1
        m = envmod._HEADER_BOUNDARY.search(data)
        got = m.end(0) if m else -1
        want = ref_hb_end(data)
        if got != want:
            failures.append(dict(what='_HEADER_BOUNDARY.search', input=repr(data), expected=want, got=got))
        # body byte-exactness behind one well-formed header field
        msg = b'h: x\r\n' + data
        e = ref_hb_end(msg)
        if e >= 0 and msg[:e].count(b'\n') == 2 and msg[:e].endswith(b'\r\n\r\n'):
            env = Envelope()
            try:
                env.parse(msg)
                body = env.flatten()[1]
            except Exception as exc:
                body = 'raised %r' % (exc,)
            if body != msg[e:]:
                failures.append(dict(what='Envelope.parse+flatten body', input=repr(msg), expected=repr(msg[e:]), got=repr(body)))
print(json.dumps(dict(cases=cases, n_failures=len(failures), failures=failures[:5],
                      bound='all byte strings over {h : SP CR LF x} of length <= %d' % MAXLEN)))
