"""BOUNDED stand-in (never counted as proved): the semantic contracts that the proofs ASSUME of the module-level
regular expressions are compared with the pattern objects compiled from the literals found in today's source,
exhaustively over all byte strings up to a length bound over a small alphabet.  Prints one JSON line."""
import ast, itertools, json, os, re, sys

REPO = os.environ.get('PYVC_REPO', '/repo')
TIER = os.environ.get('PYVC_TIER', 'quick')
MAXLEN = 6 if TIER == 'quick' else 7


def pattern(relpath, name):
    tree = ast.parse(open(os.path.join(REPO, relpath)).read())
    for n in tree.body:
        if isinstance(n, ast.Assign) and len(n.targets) == 1 and getattr(n.targets[0], 'id', None) == name:
            call = n.value
            args = [ast.literal_eval(a) for a in call.args]
            return re.compile(*args)
    raise KeyError(name)


def strip_one_cr(b):
    return b[:-1] if b.endswith(b'\r') else b

WS = b' \t\n\r\x0b\x0c'

# --- reference semantics (the assumed contracts, DESIGN.md Appendix C)
def ref_line(s):            # io.line_pattern.match(s): first line, its end, without the line break
    nl = s.find(b'\n')
    if nl < 0:
        return None
    return (nl + 1, strip_one_cr(s[:nl]))

def ref_fulllines(s):       # datareader.fullline_pattern.finditer(s): maximal \n-terminated segments
    out, pos = [], 0
    while True:
        nl = s.find(b'\n', pos)
        if nl < 0:
            return out
        out.append((pos, nl + 1))
        pos = nl + 1

def ref_eod(line):          # datareader.eod_pattern.match(line) on a line ending in its only \n
    return line[:1] == b'.' and all(c in WS for c in line[1:-1])

def ref_reply_line(s, p):  # io.reply_line_pattern.match(s, p)
    nl = s.find(b'\n', p)
    if nl < p + 4:
        return None
    if not (s[p:p+3].isdigit() and all(48 <= c <= 57 for c in s[p:p+3]) and s[p+3:p+4] in (b' ', b'\t', b'-')):
        return None
    g4 = strip_one_cr(s[p+4:nl])
    return (nl + 1, s[p:p+3], s[p+3:p+4], g4, s[p:p+3] + s[p+3:p+4] + g4)

def ref_line_at(s, p):      # io.line_pattern.match(s, p)
    nl = s.find(b'\n', p)
    if nl < 0:
        return None
    return (nl + 1, strip_one_cr(s[p:nl]))

cases = 0
failures = []
reply_line_pattern = pattern('slimta/smtp/io.py', 'reply_line_pattern')
line_pattern = pattern('slimta/smtp/io.py', 'line_pattern')
ALPHA2 = [b'2', b'5', b'-', b' ', b'\r', b'\n', b'a']
for n in range(0, MAXLEN + 1):
    for tup in itertools.product(ALPHA2, repeat=n):
        s = b''.join(tup)
        for p in range(0, min(n, 2) + 1):
            cases += 1
            m = reply_line_pattern.match(s, p)
            got = (m.end(0), m.group(2), m.group(3), m.group(4), m.group(1)) if m else None
            if got != ref_reply_line(s, p):
                failures.append(dict(pattern='io.reply_line_pattern', input=repr(s), pos=p, expected=repr(ref_reply_line(s, p)), got=repr(got)))

ALPHA = [b'.', b'\r', b'\n', b'a', b' ']
line_pattern = pattern('slimta/smtp/io.py', 'line_pattern')
fullline_pattern = pattern('slimta/smtp/datareader.py', 'fullline_pattern')
eod_pattern = pattern('slimta/smtp/datareader.py', 'eod_pattern')
for n in range(0, MAXLEN + 1):
    for tup in itertools.product(ALPHA, repeat=n):
        s = b''.join(tup)
        cases += 1
        for p in (1, 2):
            if p <= n:
                m = line_pattern.match(s, p)
                got = (m.end(0), m.group(1)) if m else None
                if got != ref_line_at(s, p):
                    failures.append(dict(pattern='io.line_pattern', input=repr(s), pos=p, expected=repr(ref_line_at(s, p)), got=repr(got)))
        m = line_pattern.match(s)
        got = (m.end(0), m.group(1)) if m else None
        if got != ref_line(s):
            failures.append(dict(pattern='io.line_pattern', input=repr(s), expected=repr(ref_line(s)), got=repr(got)))
        got = [(m.start(0), m.end(0)) for m in fullline_pattern.finditer(s)]
        if got != ref_fulllines(s):
            failures.append(dict(pattern='datareader.fullline_pattern', input=repr(s), expected=repr(ref_fulllines(s)), got=repr(got)))
        if s.endswith(b'\n') and s.count(b'\n') == 1:
            got = bool(eod_pattern.match(s))
            if got != ref_eod(s):
                failures.append(dict(pattern='datareader.eod_pattern', input=repr(s), expected=ref_eod(s), got=got))
print(json.dumps(dict(cases=cases, n_failures=len(failures), failures=failures[:5],
                      bound='all byte strings of length <= %d over {. CR LF a SP} (line/fullline/eod) and over {2 5 - SP CR LF a} at positions 0..2 (reply_line)' % MAXLEN)))
