"""BOUNDED stand-in (never counted as proved): the C05 round trip that the string solvers cannot decide.
For every message over the alphabet {".", CR, LF, "a"} up to a length bound, every split of the message into two
sender parts at a line boundary, a trailing pipelined command and several segmentations of the wire stream into recv() results:
DataSender's output fed to DataReader yields exactly the message (plus a final CRLF when it did not end with one),
the reader stops right after the end-of-data line and every later byte is left in io.recv_buffer.
Bound: quick: length <= 6; thorough (PYVC_TIER=thorough): length <= 8.  Prints one JSON line."""
import itertools, json, os, sys
from slimta.smtp.datasender import DataSender
from slimta.smtp.datareader import DataReader

MAXLEN = 8 if os.environ.get('PYVC_TIER') == 'thorough' else 6
ALPHA = [b'.', b'\r', b'\n', b'a']


class FakeIO(object):
    def __init__(self, chunks, buffered=b''):
        self.chunks = list(chunks)
        self.recv_buffer = buffered

    def raw_recv(self):
        if not self.chunks:
            return b''
        return self.chunks.pop(0)


def segmentations(wire):
    n = len(wire)
    yield [wire]                                    # one read
    yield [wire[i:i + 1] for i in range(n)]         # byte by byte
    yield [wire[i:i + 2] for i in range(0, n, 2)]   # pairs
    yield [wire[:1]] + [wire[i:i + 3] for i in range(1, n, 3)]
    for cut in range(1, n):                         # every single cut
        yield [wire[:cut], wire[cut:]]


cases = 0
failures = []
TRAIL = b'QUIT\r\n'
for n in range(0, MAXLEN + 1):
    for tup in itertools.product(ALPHA, repeat=n):
        msg = b''.join(tup)
        want = msg if (msg == b'' or msg.endswith(b'\r\n')) else msg + b'\r\n'
        # sender parts are split at line boundaries only (C05), i.e. at the ends and after a LF
        cuts = [c for c in range(0, n + 1) if c == 0 or c == n or msg[c - 1:c] == b'\n']
        splits = [(msg,)] + [(msg[:c], msg[c:]) for c in cuts]
        for parts in splits:
            wire = b''.join(DataSender(*parts)) + TRAIL
            segs = segmentations(wire) if n <= 4 else [[wire], [wire[i:i + 1] for i in range(len(wire))]]
            for chunks in segs:
                for prebuffer in (0, 1):
                    cases += 1
                    ch = [c for c in chunks if c != b'']
                    buffered = b''
                    if prebuffer and ch:
                        buffered, ch = ch[0], ch[1:]
                    io = FakeIO(ch, buffered)
                    try:
                        got = DataReader(io).recv()
                        rest = io.recv_buffer + b''.join(io.chunks)
                    except Exception as e:
                        got, rest = 'raised %r' % (e,), None
                    if got != want or rest != TRAIL:
                        failures.append(dict(function='DataSender -> DataReader', message=repr(msg), parts=repr(parts),
                                             chunks=repr(chunks), prebuffered=prebuffer, expected=repr(want),
                                             got=repr(got), left_over=repr(rest)))
            if len(failures) > 50:
                break
print(json.dumps(dict(cases=cases, failures=failures[:5], n_failures=len(failures),
                      bound='messages over {., CR, LF, a} of length <= %d, all 2-part splits at line boundaries, trailing pipelined '
                            'command, 4 fixed segmentation patterns + every single cut (<=4), with and without a '
                            'pre-buffered first segment' % MAXLEN)))
