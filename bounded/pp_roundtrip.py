"""BOUNDED stand-in (never counted as proved) for the part of C18 the contracts abstract: "returns exactly the encoded
source and destination addresses" (field extraction by split in parse_pp_line, the v2 bit layout in __parse_pp_data /
__parse_pp_addresses), end to end through the three real handle() methods over a scripted socket whose recv_into
returns fewer bytes than requested according to a segmentation pattern.

For every generated WELL-FORMED header (v1: TCP4 / TCP6 / UNKNOWN; v2: PROXY or LOCAL x INET / INET6 / UNIX / UNSPEC x
STREAM / DGRAM, with 0..9 trailing TLV bytes; addresses and ports at and around the field boundaries) followed by a
payload: the wrapped handler receives exactly the encoded source address (auto-detection and the version-specific
mix-in), exactly the header bytes are consumed, the payload is unread; LOCAL is dropped.
For every single-byte corruption (a few replacement values per position) and every truncation of a sample of those
headers: no exception escapes, at most 107 (v1) / 16 + declared length (v2) bytes are consumed, and a header that is
malformed for a reason the reference decoder below is sure about gets the "invalid" source address.
Bound: the value lists below, segmentation patterns SEGS, corruption values CORR.  Prints one JSON line."""
import json, os, socket, struct, sys, random, re
from slimta.util import proxyproto as pp
from slimta.util.proxyproto import ProxyProtocol, ProxyProtocolV1, ProxyProtocolV2

THOROUGH = os.environ.get('PYVC_TIER') == 'thorough'
PAYLOAD = b'EHLO there\r\nPROXY x\r\n\r\n\x00\r\nQUIT\n'
SEGS = [[200], [1], [2], [3, 1], [7, 2, 1], [5]] + ([[4, 1, 1, 9], [6, 3]] if THOROUGH else [])
CORR = [0x00, 0x20, 0x0d, 0x0a, 0xff, 0x30, 0x3a]
failures = []
cases = 0


class Sock(object):
    """recv_into(view, n) hands out at most n bytes, at most the next segment size, 0 at EOF."""

    def __init__(self, data, seg):
        self.data, self.pos, self.seg, self.i = data, 0, seg, 0

    def recv_into(self, view, nbytes=0):
        want = min(nbytes or len(view), len(view))
        k = min(want, self.seg[self.i % len(self.seg)], len(self.data) - self.pos)
        self.i += 1
        view[0:k] = self.data[self.pos:self.pos + k]
        self.pos += k
        return k

    def fileno(self):
        return -1

    def getpeername(self):
        return ('peer', 0)


class Base(object):
    def handle(self, sock, addr):
        self.got = addr


def make(cls):
    return type('T' + cls.__name__, (cls, Base), {})()


def run(cls, data, seg):
    """-> (outcome, consumed); outcome = ('addr', a) | ('dropped',) | ('exc', repr)"""
    obj = make(cls)
    obj.got = Ellipsis
    s = Sock(data, seg)
    try:
        obj.handle(s, ('peer', 0))
    except BaseException as e:                       # noqa: the property says NO other exception escapes
        return ('exc', '%s: %s' % (type(e).__name__, e)), s.pos
    if obj.got is Ellipsis:
        return ('dropped',), s.pos
    return ('addr', obj.got), s.pos


def fail(what, **kw):
    if len(failures) < 50:
        kw['what'] = what
        failures.append({k: (repr(v) if isinstance(v, (bytes, tuple)) else v) for k, v in kw.items()})
    else:
        failures.append(None)


# ------------------------------------------------------------------ well-formed headers
def canon(fam, ip):
    return socket.inet_ntop(fam, socket.inet_pton(fam, ip))


V4 = ['0.0.0.0', '1.2.3.4', '255.255.255.255', '127.0.0.1', '10.0.0.255', '192.168.100.200']
V6 = ['::', '::1', 'ffff:ffff:ffff:ffff:ffff:ffff:ffff:ffff', '2001:db8::1', 'fe80::1:2:3:4', '1:2:3:4:5:6:7:8',
      '::ffff:1.2.3.4']
PORTS = [0, 1, 9, 10, 25, 99, 100, 1023, 9999, 10000, 65534, 65535]
valid = []          # (version, header bytes, expected outcome)
rnd = random.Random(18)
for fam, tok, ips in ((socket.AF_INET, b'TCP4', V4), (socket.AF_INET6, b'TCP6', V6)):
    for si, s in enumerate(ips):
        for di, d in enumerate(ips):
            if not THOROUGH and (si + di) % 3 and si != di:
                continue
            for sp, dp in ((PORTS[(si * 5 + di) % len(PORTS)], PORTS[(si + di * 7) % len(PORTS)]), (65535, 0), (0, 65535)):
                line = b'PROXY ' + tok + b' ' + s.encode() + b' ' + d.encode() + b' ' + str(sp).encode() + b' ' + str(dp).encode() + b'\r\n'
                valid.append((1, line, ('addr', (canon(fam, s), sp))))
for p in PORTS:
    valid.append((1, b'PROXY TCP4 1.2.3.4 5.6.7.8 %d %d\r\n' % (p, PORTS[-1 - PORTS.index(p)]), ('addr', ('1.2.3.4', p))))
for line in (b'PROXY UNKNOWN\r\n', b'PROXY UNKNOWN ffff:f...f:ffff ffff:f...f:ffff 65535 65535\r\n',
             b'PROXY UNKNOWN 1.2.3.4 5.6.7.8 1 2\r\n'):
    valid.append((1, line, ('addr', pp.unknown_pp_source_address)))
SIG = b'\r\n\r\n\x00\r\nQUIT\n'
for cmd in (0x21, 0x20):
    for tlv in (0, 1, 9):
        extra = bytes(rnd.randrange(256) for _ in range(tlv))
        for proto in (1, 2):
            for s in V4:
                d = V4[(V4.index(s) + 2) % len(V4)]
                sp, dp = PORTS[V4.index(s) * 2], PORTS[-1 - V4.index(s)]
                body = socket.inet_pton(socket.AF_INET, s) + socket.inet_pton(socket.AF_INET, d) + struct.pack('!HH', sp, dp) + extra
                valid.append((2, SIG + bytes([cmd, 0x10 | proto]) + struct.pack('!H', len(body)) + body,
                              ('addr', (canon(socket.AF_INET, s), sp)) if cmd == 0x21 else ('dropped',)))
            for s in V6:
                d = V6[(V6.index(s) + 3) % len(V6)]
                sp, dp = PORTS[V6.index(s)], PORTS[-1 - V6.index(s)]
                body = socket.inet_pton(socket.AF_INET6, s) + socket.inet_pton(socket.AF_INET6, d) + struct.pack('!HH', sp, dp) + extra
                valid.append((2, SIG + bytes([cmd, 0x20 | proto]) + struct.pack('!H', len(body)) + body,
                              ('addr', (canon(socket.AF_INET6, s), sp)) if cmd == 0x21 else ('dropped',)))
            for s, d in ((b'/tmp/src.sock', b'/run/dst'), (b'a' * 108, b'b' * 108), (b'', b'x')):
                body = s.ljust(108, b'\x00') + d.ljust(108, b'\x00') + extra
                valid.append((2, SIG + bytes([cmd, 0x30 | proto]) + struct.pack('!H', len(body)) + body,
                              ('addr', s) if cmd == 0x21 else ('dropped',)))
        # UNSPEC: the address block (any length) is skipped
        for blen in (0, 3, 12):
            body = bytes(rnd.randrange(256) for _ in range(blen)) + extra
            valid.append((2, SIG + bytes([cmd, 0x00]) + struct.pack('!H', len(body)) + body,
                          ('addr', pp.unknown_pp_source_address) if cmd == 0x21 else ('dropped',)))

for ver, hdr, want in valid:
    for cls in (ProxyProtocol, ProxyProtocolV1 if ver == 1 else ProxyProtocolV2):
        for seg in SEGS:
            cases += 1
            got, consumed = run(cls, hdr + PAYLOAD, seg)
            if got != want:
                fail('well-formed header: wrong outcome', entry=cls.__name__, header=hdr, segmentation=seg, expected=want, got=got)
            elif consumed != len(hdr):
                fail('well-formed header: bytes consumed != header length', entry=cls.__name__, header=hdr,
                     segmentation=seg, expected=len(hdr), got=consumed)


# ------------------------------------------------------------------ malformed: corruptions and truncations
def surely_malformed(ver, data):
    """True only for reasons beyond doubt (the reference is deliberately not a second full parser)."""
    if ver == 1:
        end = data.find(b'\r\n')
        if end < 0 or end + 2 > 107:
            return True
        line = data[:end + 2]
        if not line.startswith(b'PROXY '):
            return True
        parts = line[6:-2].split(b' ')
        if parts[0] == b'UNKNOWN':
            return False
        if parts[0] not in (b'TCP4', b'TCP6') or len(parts) != 5:
            return True
        for p in parts[3:]:
            if not re.fullmatch(rb'[0-9]+', p) or int(p) > 65535:
                return True
        return False
    if len(data) < 16 or data[:12] != SIG or data[12] & 0xf0 != 0x20:
        return True
    return False


def bound(ver, data):
    if ver == 1:
        return 107
    if len(data) >= 16:
        return 16 + struct.unpack('!H', data[14:16])[0]
    return 16


sample = [v for i, v in enumerate(valid) if i % (7 if THOROUGH else 23) == 0]
for ver, hdr, want in sample:
    cls_ver = ProxyProtocolV1 if ver == 1 else ProxyProtocolV2
    variants = []
    for i in range(len(hdr)):
        for c in CORR + [hdr[i] ^ 1]:
            if c != hdr[i]:
                variants.append((hdr[:i] + bytes([c]) + hdr[i + 1:] + PAYLOAD, False))
    for i in range(len(hdr)):
        variants.append((hdr[:i], True))                      # EOF inside the header
    for data, truncated in variants:
        for cls in (ProxyProtocol, cls_ver):
            for seg in ([200], [1]):
                cases += 1
                got, consumed = run(cls, data, seg)
                # which parser looks at it: auto-detection goes by the first 8 bytes
                v = ver
                if cls is ProxyProtocol:
                    v = 1 if data[:6] == b'PROXY ' else (2 if data[:8] == SIG[:8] else 0)
                if got[0] == 'exc':
                    fail('exception escaped', entry=cls.__name__, input=data, segmentation=seg, got=got)
                    continue
                if v == 0:
                    if got != ('addr', pp.invalid_pp_source_address) or consumed > 8:
                        fail('unknown signature', entry=cls.__name__, input=data, got=got, consumed=consumed)
                    continue
                if consumed > bound(v, data):
                    fail('over-read', entry=cls.__name__, input=data, segmentation=seg, bound=bound(v, data), got=consumed)
                if (truncated or surely_malformed(v, data)) and got != ('addr', pp.invalid_pp_source_address):
                    fail('malformed header not mapped to the invalid address', entry=cls.__name__, input=data,
                         segmentation=seg, got=got)

print(json.dumps(dict(cases=cases, n_failures=len(failures), failures=[f for f in failures if f][:5],
                      bound='%d well-formed headers x 2 entry points x %d segmentations; %d sampled headers x all '
                            'single-byte corruptions (%d values) and truncations x 2 entry points x 2 segmentations'
                            % (len(valid), len(SEGS), len(sample), len(CORR) + 1))))
