"""BOUNDED stand-in (never counted as proved) for the composition the C17 contracts do not reach: a reply WRITTEN by
the library (real Reply + IO.send_reply) is PARSED BACK by the library (real Reply.recv + IO.recv_reply) to the same
code and text, under segmentation, for 1..3 concatenated replies, each consuming exactly its own bytes (the successor
stays in IO.recv_buffer / on the socket); the enhanced-status class equals the reply-code class.  (The two halves are
under contract separately: wire shape of send_reply, the parser recv_reply over the ghost byte stream; composing them
needs string reasoning about regex matching that neither solver decides.)
Text is compared after the normalisation of line breaks to CRLF.
Bound: codes CODES, texts TEXTS (Unicode, embedded CR / LF / CRLF, ESC-looking prefixes, empty inner lines), enhanced
status given / defaulted / disabled, all sequences of 1..2 replies (thorough: up to 3 over a sample), segmentations
SEGS.  Prints one JSON line."""
import itertools, json, os, re, sys
from slimta.smtp.io import IO
from slimta.smtp.reply import Reply
from slimta.smtp import BadReply, ConnectionLost

THOROUGH = os.environ.get('PYVC_TIER') == 'thorough'
CODES = ['200', '220', '250', '251', '299', '354', '399', '421', '450', '499', '500', '550', '554', '599']
TEXTS = ['Ok', '', 'x', 'two words', 'line1\r\nline2', 'line1\nline2', 'a\r\n\r\nb', 'a\n\nb\n', 'trailing\r\n',
         '2.1.5 looks like esc', '5.7.1 Denied', '4.0.0', '2.0.0 a\r\n2.0.0 b', '9.9.9 not an esc class',
         '2.1 short', 'unicodé ✓ \U0001f600', '250-looks like a continuation', '250 looks like a reply',
         'tab\there', 'cr\ronly', 'dash-', '-dash', 'a\r\n b indented continuation', 'x' * 600,
         '1.2.3 one', '2.1000.5 long', '5.5.5555 long'] + (['a\r\nb\r\nc\r\nd', 'é', 'x\u00a0nbsp inside'] if THOROUGH else [])
ESCS = [None, False, 'code-class']         # default derivation, disabled, explicit <class>.1.5
SEGS = [[4096], [1], [2], [3, 5], [7]] + ([[4, 1, 1, 9], [6, 3]] if THOROUGH else [])
failures = []
cases = 0


class OutSock(object):
    def __init__(self):
        self.sent = b''

    def sendall(self, data):
        self.sent += data

    def fileno(self):
        return -1


class InSock(object):
    def __init__(self, data, seg):
        self.data, self.pos, self.seg, self.i = data, 0, seg, 0

    def recv(self, n):
        k = min(n, self.seg[self.i % len(self.seg)], len(self.data) - self.pos)
        self.i += 1
        out = self.data[self.pos:self.pos + k]
        self.pos += k
        return out

    def fileno(self):
        return -1

    def getpeername(self):
        return ('peer', 0)


def fail(what, **kw):
    if len(failures) < 50:
        kw['what'] = what
        failures.append({k: (repr(v) if isinstance(v, (bytes, str, tuple)) else v) for k, v in kw.items()})
    else:
        failures.append(None)


def norm(text):
    return '\r\n'.join(re.split('\r?\n', text))


def build(code, text, esc):
    r = Reply(code, text)
    if esc is False:
        r.enhanced_status_code = False
    elif esc == 'code-class':
        if code[0] in '245':
            r.enhanced_status_code = code[0] + '.1.5'
    return r


def wire(reply):
    s = OutSock()
    io = IO(s)
    reply.send(io, flush=True)
    return s.sent


replies = []
for code in CODES:
    for text in TEXTS:
        for esc in ESCS:
            try:
                r = build(code, text, esc)
                w = wire(r)
            except Exception as e:                      # the writer must cope with every reply of the quantifier
                fail('send raised', code=code, text=text, esc=esc, got='%s: %s' % (type(e).__name__, e))
                continue
            replies.append((r, w))
            # enhanced-status class always equals the reply-code class
            e = r.enhanced_status_code
            if e is not None and (e[0] != code[0] or code[0] not in '245'):
                fail('enhanced status class differs from code class', code=code, text=text, esc=e)


def check_seq(seq, seg):
    global cases
    cases += 1
    data = b''.join(w for (_, w) in seq)
    sock = InSock(data, seg)
    io = IO(sock)
    consumed_expected = 0
    for (sent, w) in seq:
        got = Reply()
        if sent.enhanced_status_code is None and sent.code[0] in '245':
            # written with enhanced status codes switched off (as the library does for banner / EHLO replies): the
            # reading side is in the same mode, otherwise Reply.message supplies a default <class>.0.0 by design
            got.enhanced_status_code = False
        try:
            got.recv(io)
        except (BadReply, ConnectionLost, Exception) as e:
            fail('recv raised', wire=data, segmentation=seg, got='%s: %s' % (type(e).__name__, e))
            return
        consumed_expected += len(w)
        want_msg = sent.message
        if got.code != sent.code or got.message != (norm(want_msg) if want_msg is not None else want_msg):
            fail('parsed back differently', wire=w, segmentation=seg, expected=(sent.code, norm(want_msg or '')),
                 got=(got.code, got.message))
            return
        # exactly this reply consumed: what is buffered plus what is still on the socket is the rest of the stream
        rest = io.recv_buffer + sock.data[sock.pos:]
        if rest != data[consumed_expected:]:
            fail('consumed more or less than the reply', wire=data, segmentation=seg, expected_rest=data[consumed_expected:], got_rest=rest)
            return
        e = got.enhanced_status_code
        if e is not None and e[0] != got.code[0]:
            fail('enhanced status class differs from code class after parsing', wire=w, esc=e)


for (r, w) in replies:
    for seg in SEGS:
        check_seq([(r, w)], seg)
sample = replies[::(5 if THOROUGH else 11)]
for a in sample:
    for b in sample:
        for seg in ([4096], [1], [3, 5]):
            check_seq([a, b], seg)
if THOROUGH:
    tri = replies[::41]
    for a, b, c in itertools.product(tri, repeat=3):
        for seg in ([4096], [1]):
            check_seq([a, b, c], seg)

# ------------------------------------------------------------------ malformed input: terminates with a bad-reply error
ALPHA = [b'2', b'5', b'-', b' ', b'\t', b'x', b'\r', b'\n']
MAXLEN = 6 if THOROUGH else 5
LINE = re.compile(rb'(\d\d\d)([ \t-])(.*?)\r?\n', re.S)


def reference(data):
    """('reply', code, n_consumed) | 'bad' | 'eof' for a stream that ends after data"""
    pos, code = 0, None
    while True:
        nl = data.find(b'\n', pos)
        if nl < 0:
            return 'eof'
        line = data[pos:nl + 1]
        m = re.fullmatch(rb'(\d\d\d)([ \t-])([^\n]*?)\r?\n', line)
        if not m or (code is not None and m.group(1) != code):
            return 'bad'
        code = m.group(1)
        pos = nl + 1
        if m.group(2) != b'-':
            return ('reply', code.decode(), pos)


for n in range(0, MAXLEN + 1):
    for tup in itertools.product(ALPHA, repeat=n):
        data = b''.join(tup)
        for seg in ([4096], [1]):
            cases += 1
            sock = InSock(data, seg)
            io = IO(sock)
            got = Reply()
            try:
                got.recv(io)
                out = ('reply', got.code, len(data) - len(io.recv_buffer) - (len(data) - sock.pos))
            except BadReply:
                out = 'bad'
            except ConnectionLost:
                out = 'eof'
            except Exception as e:
                out = 'exc %s: %s' % (type(e).__name__, e)
            want = reference(data)
            if out != want:
                fail('malformed/short input', input=data, segmentation=seg, expected=want, got=out)

print(json.dumps(dict(cases=cases, n_failures=len(failures), failures=[f for f in failures if f][:5],
                      bound='%d codes x %d texts x 3 enhanced-status modes, %d segmentations; pairs over a sample of %d; '
                            'malformed: all strings over {2 5 - SP TAB x CR LF} up to length %d'
                            % (len(CODES), len(TEXTS), len(SEGS), len(sample), MAXLEN))))
