"""BOUNDED stand-in (never counted as proved) for the part of C06 the contracts leave undecided (address quoting /
encoding, parameter parsing, extension strings, byte identity of header block and body): a message handed to the REAL
SMTP relay (StaticSmtpRelay -> SmtpRelayClient -> smtp.Client) and received by the REAL SMTP edge (SmtpEdge ->
SmtpSession -> smtp.Server) over a loopback socket arrives with the same sender, the same recipients in the same
order, and a byte-identical header block and body (modulo the final CRLF of C05); the result the relay reports is the
reply the edge gave; and the client sees exactly the extensions the server advertised (Extensions.build_string
parsed back by Extensions.parse_string).
Bound: the address lists, bodies and edge configurations below (cross product sampled deterministically).
Prints one JSON line."""
import json, os, sys, itertools, warnings
warnings.simplefilter('ignore')
import logging as _l
_l.disable(_l.CRITICAL)
import gevent
from gevent import monkey
from slimta.edge.smtp import SmtpEdge, SmtpValidators
from slimta.relay.smtp.static import StaticSmtpRelay
from slimta.relay import PermanentRelayError, TransientRelayError, RelayError
from slimta.envelope import Envelope
from slimta.smtp.extensions import Extensions
from slimta.smtp.reply import Reply

THOROUGH = os.environ.get('PYVC_TIER') == 'thorough'
failures = []
cases = 0


def fail(what, **kw):
    if len(failures) < 50:
        kw['what'] = what
        failures.append({k: (repr(v) if not isinstance(v, (int, float, type(None))) else v) for k, v in kw.items()})
    else:
        failures.append(None)


class CaptureQueue(object):
    def __init__(self):
        self.got = []

    def enqueue(self, envelope):
        self.got.append(envelope)
        return [(envelope, 'ID%d' % len(self.got))]


SENDERS = ['sender@example.com', '', 'a.b+tag@sub.example.org', '"quoted local"@example.com', '"a@b"@example.com',
           '"with>angle"@example.com', '"esc\\"quote"@example.com', 'UPPER@EXAMPLE.COM', "o'neil@example.com",
           'x@[127.0.0.1]', 'user=eq@example.com', 'plus+sign@example.com', 'size=9@example.com']
UTF8 = ['ü@example.com', 'user@exämple.com', '用户@例子.com']
RCPTS = ['rcpt@example.com', '"quoted rcpt"@example.com', 'r.two@example.net', '"a b"@c.d', 'dup@example.com',
         'dup@example.com', '"x>y"@example.com', 'postmaster', 'r+tag@example.com', 'body=8bitmime@example.com']
HEADERS = [b'From: s@example.com\r\nTo: r@example.com\r\nSubject: test\r\n\r\n',
           b'Subject: folded\r\n header value\r\nX-Empty:\r\nX-Dup: 1\r\nX-Dup: 2\r\n\r\n',
           b'X-Long: ' + b'v' * 60 + b'\r\n\r\n']
BODIES = [b'hello\r\n', b'', b'.\r\n', b'..\r\n.leading dot\r\nline\r\n', b'no final newline', b'\r\n\r\nblank first\r\n',
          b'bare\nlf\nlines\n', b'a\r\n.\r\nb\r\n', b'lone\rcr\r\n', b'x' * 3000 + b'\r\n', b'trailing dot.\r\n.',
          b'MAIL FROM:<injected@example.com>\r\n']
BODIES8 = [b'caf\xc3\xa9\r\n', b'\xff\xfe raw 8-bit\r\n', b'nul\x00byte\r\n']

edges = {}


def get_edge(key):
    if key not in edges:
        q = CaptureQueue()
        edge = SmtpEdge(('127.0.0.1', 0), q, command_timeout=10.0, data_timeout=10.0, hostname='edge.example.com')
        edge.start()
        gevent.sleep(0.05)                  # let the listener greenlet bind and listen
        edges[key] = (edge, q)
    return edges[key]


def one(sender, rcpts, header, body, pool_reuse_relay=None):
    """-> relay used (for connection reuse)"""
    global cases
    cases += 1
    edge, q = get_edge('default')
    port = edge.server.server_port
    relay = pool_reuse_relay or StaticSmtpRelay('127.0.0.1', port, connect_timeout=10.0, command_timeout=10.0,
                                                data_timeout=10.0, idle_timeout=1.0, ehlo_as='client.example.com')
    env = Envelope(sender, list(rcpts))
    env.parse(header + body)
    before = len(q.got)
    try:
        with gevent.Timeout(20.0):
            result = relay.attempt(env, 0)
        outcome = ('ok', result)
    except RelayError as e:
        outcome = ('relay-error', type(e).__name__, str(e))
    except gevent.Timeout:
        fail('attempt() did not finish', sender=sender, rcpts=rcpts, body=body)
        return None
    except Exception as e:
        fail('attempt() raised', sender=sender, rcpts=rcpts, body=body, got='%s: %s' % (type(e).__name__, e))
        return None
    got = q.got[before:]
    if outcome[0] != 'ok':
        # a refusal is a legitimate answer only if nothing was queued
        if got:
            fail('relay reports failure but the edge queued the message', sender=sender, rcpts=rcpts, outcome=outcome)
        else:
            fail('valid message refused', sender=sender, rcpts=rcpts, header=header, body=body, outcome=outcome)
        return relay
    if len(got) != 1:
        fail('relay reports success but the edge queued %d messages' % len(got), sender=sender, rcpts=rcpts)
        return relay
    rx = got[0]
    if rx.sender != sender:
        fail('sender changed', sent=sender, received=rx.sender)
    if list(rx.recipients) != list(rcpts):
        fail('recipients changed', sent=rcpts, received=rx.recipients)
    h, b = rx.flatten()
    sent_h, sent_b = env.flatten()
    want_b = sent_b if (sent_b.endswith(b'\r\n') or sent_b == b'') else sent_b + b'\r\n'
    if h != sent_h:
        fail('header block changed', sent=sent_h, received=h)
    if b != want_b:
        fail('body changed', sent=sent_b, received=b)
    return relay


# every sender with a fixed recipient list, every recipient shape, every body
for s in SENDERS:
    one(s, ['rcpt@example.com'], HEADERS[0], BODIES[0])
for n in (1, 2, 3, len(RCPTS)):
    one('sender@example.com', RCPTS[:n], HEADERS[0], BODIES[0])
for r in RCPTS:
    one('sender@example.com', [r], HEADERS[0], BODIES[0])
for h in HEADERS:
    for b in BODIES:
        one('sender@example.com', ['rcpt@example.com', 'r.two@example.net'], h, b)
for b in BODIES8:
    one('sender@example.com', ['rcpt@example.com'], HEADERS[0], b)
for a in UTF8:
    one(a, ['rcpt@example.com'], HEADERS[0], BODIES[0])
    one('sender@example.com', [a], HEADERS[0], BODIES[0])
# connection reuse: several messages through one relay object (one pooled connection, RSET in between)
relay = None
for i, (s, b) in enumerate(zip(SENDERS[:6], BODIES[:6])):
    relay = one(s, RCPTS[i:i + 2], HEADERS[i % len(HEADERS)], b, pool_reuse_relay=relay) or relay
if THOROUGH:
    for s, r, b in itertools.product(SENDERS, RCPTS[:5], BODIES[:6]):
        one(s, [r, 'second@example.com'], HEADERS[1], b)

# ------------------------------------------------------------------ extension strings: build_string parsed back
EXTS = [[], ['PIPELINING'], ['8BITMIME', 'PIPELINING', 'SMTPUTF8'], [('SIZE', '10240')], [('AUTH', 'PLAIN LOGIN')],
        ['STARTTLS', ('SIZE', '0'), 'ENHANCEDSTATUSCODES', ('X-CUSTOM', 'a b c')]]
for exts in EXTS:
    cases += 1
    server = Extensions()
    for e in exts:
        if isinstance(e, tuple):
            server.add(e[0], e[1])
        else:
            server.add(e)
    text = server.build_string('edge.example.com Hello')
    client = Extensions()
    first = client.parse_string(text)
    want = dict((e[0], e[1]) if isinstance(e, tuple) else (e, None) for e in exts)
    got = dict((k, client.getparam(k)) for k in want)
    missing = [k for k in want if k not in client]
    extra = [k for k in getattr(client, 'extensions', {}) if k not in want]
    if first != 'edge.example.com Hello' or missing or extra or any(got[k] != want[k] for k in want):
        fail('extensions not seen as advertised', advertised=exts, wire=text, first_line=first, missing=missing,
             extra=extra, params=got)

for (edge, q) in edges.values():
    edge.kill()
print(json.dumps(dict(cases=cases, n_failures=len([f for f in failures]), failures=[f for f in failures if f][:8],
                      bound='%d senders, %d recipient shapes, %d header blocks x %d bodies, %d 8-bit bodies, %d UTF-8 '
                            'addresses, connection reuse, %d extension sets' % (len(SENDERS), len(RCPTS), len(HEADERS),
                                                                               len(BODIES), len(BODIES8), len(UTF8), len(EXTS)))))
