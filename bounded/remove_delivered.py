"""BOUNDED stand-in (never counted as proved): full position-wise specification of
QueueStorage._remove_delivered_rcpts and of DictStorage.set_recipients_delivered followed by get():
the recipients left are exactly those at the unmarked positions, in order.
Bound: recipient lists of length 0..6 (with duplicate addresses), every subset of positions, passed as a set,
as an ascending list, as a descending list and (<= 4 positions) in every order.  Prints one JSON line."""
import itertools, json, sys
from slimta.queue import QueueStorage
from slimta.queue.dict import DictStorage
from slimta.envelope import Envelope

cases = 0
failures = []
names = ['a@x', 'b@y', 'a@x', 'c@z', 'd@w', 'b@y']
for n in range(0, 7):
    rcpts = names[:n]
    for k in range(0, n + 1):
        for idx in itertools.combinations(range(n), k):
            want = [r for p, r in enumerate(rcpts) if p not in idx]
            forms = [set(idx), sorted(idx), sorted(idx, reverse=True)]
            if k <= 4:
                forms += [list(p) for p in itertools.permutations(idx)]
            for form in forms:
                cases += 1
                env = Envelope('s@x', list(rcpts))
                try:
                    QueueStorage()._remove_delivered_rcpts(env, form)
                    got = env.recipients
                except Exception as e:
                    got = 'raised %r' % (e,)
                if got != want:
                    failures.append(dict(function='QueueStorage._remove_delivered_rcpts', recipients=rcpts,
                                         indexes=repr(form), expected=want, got=got))
                cases += 1
                st = DictStorage()
                env = Envelope('s@x', list(rcpts))
                id = st.write(env, 1.0)
                try:
                    st.set_recipients_delivered(id, form)
                    got = st.get(id)[0].recipients
                except Exception as e:
                    got = 'raised %r' % (e,)
                if got != want:
                    failures.append(dict(function='DictStorage.set_recipients_delivered+get', recipients=rcpts,
                                         indexes=repr(form), expected=want, got=got))
print(json.dumps(dict(cases=cases, failures=failures[:5], n_failures=len(failures),
                      bound='lists of length 0..6, every subset of positions, set / ascending / descending / every order (<=4)')))
