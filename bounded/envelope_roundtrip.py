"""BOUNDED stand-in (never counted as proved) for the parts of C20 that are standard-library behaviour behind
Envelope (email / copy / pickle) and therefore out of the contracts' reach: on the real Envelope, for generated messages
with a well-formed header block,
  * parse() + flatten(): the body bytes after the first blank line come back unchanged, the header fields come back in
    the same order with the same names and values (line ends normalised to CRLF);
  * the same for Envelope.copy() (and the copy shares no mutable state: changing its recipients / headers leaves the
    original alone) and for pickle.loads(pickle.dumps(envelope)) as the disk / redis / cloud stores do;
  * re-parsing the flattened output is a fixed point;
  * encode_7bit(): pure-ASCII result that decodes to the same text with a base64 / quoted-printable encoder, and
    UnicodeDecodeError (message refused, nothing 8-bit passed on) without one;
  * arbitrary byte strings: parse / flatten / copy / pickle never raise.
Bound: header blocks from FIELDS (folded lines, 8-bit values, duplicate names, empty values), CRLF or LF line ends,
bodies BODIES; random byte strings from a seeded generator.  Prints one JSON line."""
import itertools, json, os, pickle, random, re, sys
from email.encoders import encode_base64, encode_quopri
from email.parser import BytesParser
from slimta.envelope import Envelope

THOROUGH = os.environ.get('PYVC_TIER') == 'thorough'
failures = []
cases = 0


def fail(what, **kw):
    if len(failures) < 50:
        kw['what'] = what
        failures.append({k: repr(v) for k, v in kw.items()})
    else:
        failures.append(None)


FIELDS = [(b'From', b'sender@example.com'), (b'To', b'rcpt@example.com'), (b'Subject', b'plain subject'),
          (b'Subject', b'second subject (duplicate name)'), (b'X-Folded', b'first part\r\n second part\r\n\tthird part'),
          (b'X-Empty', b''), (b'X-8bit', b'caf\xc3\xa9 \xe2\x9c\x93'), (b'x-lower-case-name', b'v'),
          (b'X-Colons', b'a: b: c'), (b'X-Long', b'w' * 68), (b'Received', b'from a by b; Mon, 1 Jan 2024 00:00:00 +0000'),
          (b'Received', b'from c by d; Mon, 1 Jan 2024 00:00:01 +0000'), (b'MIME-Version', b'1.0'),
          (b'X-Tab', b'a\tb'), (b'Message-Id', b'<abc.123@example.com>')]
BODIES = [b'', b'hello\r\n', b'no newline at end', b'\r\n\r\nleading blank lines\r\n', b'.\r\n..\r\n.dot lines\r\n',
          b'lone\rcr and nul\x00byte\r\n', b'bare\nlf\n', b'From: looks like a header\r\n\r\nmore\r\n',
          b'caf\xc3\xa9 8-bit text\r\n', b'\xff\xfe\xfd not utf-8\r\n', b'x' * 2000 + b'\r\n']


def header_sets():
    yield [FIELDS[0]]
    yield FIELDS[:3]
    yield [FIELDS[2], FIELDS[3]]
    yield [FIELDS[4]]
    yield [FIELDS[5], FIELDS[0]]
    yield [FIELDS[6], FIELDS[0]]
    yield FIELDS
    yield list(reversed(FIELDS))
    yield [FIELDS[10], FIELDS[11], FIELDS[0], FIELDS[1], FIELDS[2], FIELDS[14]]
    rnd = random.Random(20)
    for _ in range(40 if THOROUGH else 12):
        yield rnd.sample(FIELDS, rnd.randrange(1, len(FIELDS)))


def block(fields, eol):
    out = b''
    for n, v in fields:
        out += n + b':' + (b' ' + v if v else b'') + b'\r\n'
    return out.replace(b'\r\n', eol)


def fields_of(env):
    """(name, value) bytes of every header field in order, as flatten() writes them: split independently of the
    email package at the byte level, values unfolded (CRLF + white space -> that white space)"""
    h = env.flatten()[0]
    out = []
    for line in h.split(b'\r\n'):
        if line == b'':
            continue
        if line[:1] in (b' ', b'\t') and out:
            out[-1] = (out[-1][0], out[-1][1] + line)
        else:
            n, _, v = line.partition(b':')
            out.append((n, v))
    return h, out


def unfold(v):
    return re.sub(rb'\r?\n([ \t])', rb'\1', v)


def expected_fields(fields):
    return [(n, unfold(v)) for n, v in fields]


def same_fields(got, want):
    if len(got) != len(want):
        return False
    for (gn, gv), (wn, wv) in zip(got, want):
        if gn != wn or gv.strip() != wv.strip():
            return False
    return True


def check_env(env, fields, body, what):
    try:
        h, got = fields_of(env)
        b = env.flatten()[1]
    except Exception as e:
        fail(what + ': flatten raised', got='%s: %s' % (type(e).__name__, e), fields=fields)
        return False
    if b != body:
        fail(what + ': body changed', expected=body, got=b, header=h)
        return False
    if not same_fields(got, expected_fields(fields)):
        fail(what + ': header fields changed', expected=expected_fields(fields), got=got, header=h)
        return False
    if b'\n' in h.replace(b'\r\n', b''):
        fail(what + ': header block not CRLF-normalised', header=h)
        return False
    return True


for fields in header_sets():
    for eol in (b'\r\n', b'\n'):
        for body in BODIES:
            cases += 1
            data = block(fields, eol) + eol + body
            env = Envelope('s@example.com', ['r1@example.com', 'r2@example.com'])
            try:
                env.parse(data)
            except Exception as e:
                fail('parse raised', input=data, got='%s: %s' % (type(e).__name__, e))
                continue
            if not check_env(env, fields, body, 'parse+flatten'):
                continue
            # deep copy: same content, no shared mutable state
            cp = env.copy()
            if check_env(cp, fields, body, 'copy'):
                cp.recipients.append('x@example.com')
                cp.headers['X-Added'] = 'y'
                cp.prepend_header('Received', 'added to the copy')
                if env.recipients != ['r1@example.com', 'r2@example.com'] or 'X-Added' in env.headers:
                    fail('copy shares state with the original', recipients=env.recipients)
                check_env(env, fields, body, 'original after changing the copy')
            # pickling, as the disk / redis / cloud stores do
            try:
                pk = pickle.loads(pickle.dumps(env, pickle.HIGHEST_PROTOCOL))
            except Exception as e:
                fail('pickle raised', input=data, got='%s: %s' % (type(e).__name__, e))
                pk = None
            if pk is not None:
                if pk.sender != env.sender or pk.recipients != env.recipients:
                    fail('pickle changed sender/recipients')
                check_env(pk, fields, body, 'pickle round trip')
            # re-parsing the flattened output is a fixed point
            h1, b1 = env.flatten()
            again = Envelope()
            again.parse(h1 + b1)
            h2, b2 = again.flatten()
            if (h2, b2) != (h1, b1):
                fail('re-parse is not a fixed point', first=(h1, b1[:80]), second=(h2, b2[:80]))

# ------------------------------------------------------------------ 7-bit conversion (single-part UTF-8 text, CRLF)
TEXTS = ['café\r\n', 'ünïcödé line one\r\nline two ✓\r\n', 'plain ascii\r\n', 'mixed ascii and €\r\n' * 3]
for text in TEXTS:
    for enc_name, enc in (('base64', encode_base64), ('quoted-printable', encode_quopri), (None, None)):
        cases += 1
        data = (b'From: s@example.com\r\nMIME-Version: 1.0\r\nContent-Type: text/plain; charset="utf-8"\r\n'
                b'Content-Transfer-Encoding: 8bit\r\n\r\n' + text.encode('utf-8'))
        env = Envelope('s@example.com', ['r@example.com'])
        env.parse(data)
        is_ascii = all(ord(c) < 128 for c in text)
        try:
            env.encode_7bit(enc)
        except UnicodeDecodeError:
            if enc is not None or is_ascii:
                fail('encode_7bit refused although an encoder was given / the body is ASCII', text=text, encoder=enc_name)
            continue
        except Exception as e:
            fail('encode_7bit raised', text=text, encoder=enc_name, got='%s: %s' % (type(e).__name__, e))
            continue
        if enc is None and not is_ascii:
            fail('encode_7bit passed 8-bit data on without an encoder', text=text)
            continue
        h, b = env.flatten()
        try:
            (h + b).decode('ascii')
        except UnicodeDecodeError:
            fail('encode_7bit result is not pure ASCII', text=text, encoder=enc_name, got=(h + b)[:200])
            continue
        msg = BytesParser().parsebytes(h + b)
        back = msg.get_payload(decode=True).decode(msg.get_content_charset() or 'utf-8')
        if back.replace('\r\n', '\n').rstrip('\n') != text.replace('\r\n', '\n').rstrip('\n'):
            fail('7-bit conversion does not decode to the same text', text=text, encoder=enc_name, got=back)

# ------------------------------------------------------------------ arbitrary byte strings: never raise
rnd = random.Random(2020)
ALPHA = [b'a', b':', b' ', b'\t', b'\r', b'\n', b'\x00', b'\xff', b'\xc3\xa9', b'.', b'-', b'=']
for i in range(3000 if THOROUGH else 800):
    cases += 1
    data = b''.join(rnd.choice(ALPHA) for _ in range(rnd.randrange(0, 40)))
    if i % 10 == 0:
        data = b'X: ' + b'y' * rnd.randrange(900, 1200) + b'\r\n' + data          # over-long line
    env = Envelope('s@example.com', ['r@example.com'])
    try:
        env.parse(data)
        env.flatten()
        env.copy().flatten()
        pickle.loads(pickle.dumps(env, pickle.HIGHEST_PROTOCOL)).flatten()
    except Exception as e:
        fail('arbitrary bytes: raised', input=data, got='%s: %s' % (type(e).__name__, e))

print(json.dumps(dict(cases=cases, n_failures=len(failures), failures=[f for f in failures if f][:6],
                      bound='%d header sets x 2 line ends x %d bodies (parse/flatten, copy, pickle, re-parse); %d texts x 3 '
                            'encoders for encode_7bit; %d random byte strings' % (len(list(header_sets())), len(BODIES), len(TEXTS),
                                                                                  3000 if THOROUGH else 800))))
