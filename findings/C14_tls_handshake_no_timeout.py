"""Native witness: the server-side TLS handshake after STARTTLS runs under no Timeout scope: a peer that sends
STARTTLS and then stays silent holds the session far beyond command_timeout.
exit 1 = defect reproduces on $PYVC_REPO (session still blocked at 15x the timeout), exit 0 = it does not."""
import sys
from gevent import ssl
import gevent
from gevent import socket
from slimta.smtp.server import Server

class H(object):
    pass

a, b = socket.socketpair()
ctx = ssl.SSLContext(ssl.PROTOCOL_TLS_SERVER)
srv = Server(a, H(), context=ctx, command_timeout=0.2)
state = {}
def run():
    try:
        srv.handle()
        state['end'] = 'returned'
    except BaseException as e:
        state['end'] = repr(e)
g = gevent.spawn(run)
def client():
    f = b
    f.recv(1024)                      # banner
    f.sendall(b'EHLO x\r\n'); f.recv(4096)
    f.sendall(b'STARTTLS\r\n'); f.recv(4096)   # 220 Go ahead, then: silence
gevent.spawn(client)
g.join(timeout=3.0)                   # 15 x command_timeout
print('session state after 3.0s with command_timeout=0.2:', state.get('end', 'STILL BLOCKED'))
sys.stdout.flush()
import os
os._exit(1 if "end" not in state else 0)
