"""Native witness: RedisStorage.load() filters the notification list out of KEYS <prefix>* with `key != self.queue_key`,
but redis-py (decode_responses=False, as RedisStorage builds its client) returns key names as BYTES, so the
comparison with the str queue key is always unequal: the list key is taken for a message, HGET on it fails with
WRONGTYPE, and load() -- i.e. Queue start-up -- dies whenever a written message has not been popped by wait() yet.
(The ids load() does yield are bytes, not the str ids write() returned.)
The real RedisStorage runs over an in-memory stand-in for the redis-py client (no redis server in the sandbox) that
answers as redis-py does: values and key names as bytes, None for a missing field, ResponseError for a hash command
on a list key, no key for an empty list.  exit 1 = defect reproduces on $PYVC_REPO, exit 0 = it does not."""
import sys
import fnmatch
from redis import ResponseError
from slimta.redisstorage import RedisStorage
from slimta.envelope import Envelope


def b(x):
    if isinstance(x, bytes):
        return x
    if isinstance(x, float):
        return repr(x).encode('ascii')
    return str(x).encode('ascii')


class FakeRedis(object):
    def __init__(self):
        self.db = {}                      # bytes key -> dict (hash) or list

    def _hash(self, key, create=False):
        v = self.db.get(b(key))
        if v is None:
            v = {}
            if create:
                self.db[b(key)] = v
        if not isinstance(v, dict):
            raise ResponseError('WRONGTYPE Operation against a key holding the wrong kind of value')
        return v

    def hsetnx(self, key, field, value):
        h = self._hash(key, True)
        if b(field) in h:
            return 0
        h[b(field)] = b(value)
        return 1

    def hset(self, key, field, value):
        self._hash(key, True)[b(field)] = b(value)

    def hmset(self, key, mapping):
        for f, v in mapping.items():
            self.hset(key, f, v)

    def hget(self, key, field):
        return self._hash(key).get(b(field))

    def hmget(self, key, *fields):
        h = self._hash(key)
        return [h.get(b(f)) for f in fields]

    def hincrby(self, key, field, amount):
        h = self._hash(key, True)
        h[b(field)] = b(int(h.get(b(field), b'0')) + amount)
        return int(h[b(field)])

    def rpush(self, key, value):
        self.db.setdefault(b(key), []).append(b(value))

    def keys(self, pattern):
        return [k for k in self.db if fnmatch.fnmatchcase(k.decode('ascii'), pattern)]

    def delete(self, key):
        self.db.pop(b(key), None)

    def pipeline(self):
        return self

    def execute(self):
        pass


storage = RedisStorage(prefix='test:')
storage.redis = FakeRedis()
env = Envelope('s@x', ['r@y'])
env.parse(b'Subject: t\r\n\r\nbody\r\n')
id = storage.write(env, 1234.0)
try:
    listed = list(storage.load())
except ResponseError as e:
    print('load() raised %s: %s' % (type(e).__name__, e))
    sys.exit(1)
print('written id %r; load() lists %r' % (id, listed))
sys.exit(0 if listed == [(1234.0, id)] else 1)
