"""Native witness: when the message exceeds the SIZE limit DataReader.recv_piece raises MessageTooBig at once --
it does not consume the stream up to the end-of-data line.  The server then answers 552 and goes back to reading
COMMANDS while the client is still sending the body: the rest of the message (here a line that looks like a command)
is parsed as commands.  Shown on the real Server over a socket pair.
exit 1 = defect reproduces on $PYVC_REPO, exit 0 = it does not."""
import sys
import gevent
from gevent import socket
from slimta.smtp.server import Server

seen = []


class Handlers(object):
    def EHLO(self, reply, ehlo_as):
        pass

    def MAIL(self, reply, address, params):
        seen.append(('MAIL', address))

    def RCPT(self, reply, address, params):
        seen.append(('RCPT', address))

    def RSET(self, reply):
        seen.append(('RSET',))

    def HAVE_DATA(self, reply, data, err):
        seen.append(('HAVE_DATA', type(err).__name__ if err else None))
        if err:
            reply.code = '552'
            reply.message = '5.3.4 Message exceeded size limit'


a, b = socket.socketpair()
srv = Server(a, Handlers())
srv.extensions.add('SIZE', 20)
g = gevent.spawn(srv.handle)
body = (b'x' * 40 + b'\r\n' +                      # pushes the message over the limit
        b'MAIL FROM:<injected@evil.example>\r\n' +   # still message CONTENT
        b'.\r\n')
b.sendall(b'EHLO c\r\nMAIL FROM:<s@x>\r\nRCPT TO:<r@y>\r\nDATA\r\n')
gevent.sleep(0.1)
b.sendall(body[:42])                               # the over-long first line: the size limit is exceeded here
gevent.sleep(0.1)
b.sendall(body[42:] + b'QUIT\r\n')               # the rest of the CONTENT arrives in a later segment
gevent.sleep(0.3)
g.kill()
print('callbacks:', seen)
injected = ('MAIL', 'injected@evil.example') in seen
sys.exit(1 if injected else 0)
