"""Native witness: every command handler of smtp.Server ends the session when the application's callback turned the
reply into a 221/421 (_check_close_code) -- except the end of DATA: _get_message_data sends the reply the HAVE_DATA
callback produced and goes on reading commands, so a "421 shutting down" answer to a message leaves the session open.
exit 1 = defect reproduces on $PYVC_REPO, exit 0 = it does not."""
import sys
import gevent
from gevent import socket
from slimta.smtp.server import Server

seen = []


class Handlers(object):
    def HAVE_DATA(self, reply, data, err):
        reply.code = '421'
        reply.message = '4.3.2 Service shutting down'

    def NOOP(self, reply):
        seen.append('NOOP')


a, b = socket.socketpair()
srv = Server(a, Handlers())
g = gevent.spawn(srv.handle)
b.sendall(b'EHLO c\r\nMAIL FROM:<s@x>\r\nRCPT TO:<r@y>\r\nDATA\r\n')
gevent.sleep(0.1)
b.sendall(b'Subject: t\r\n\r\nbody\r\n.\r\n')
gevent.sleep(0.1)
b.sendall(b'NOOP\r\n')
gevent.sleep(0.2)
data = b''
b.settimeout(0.2)
try:
    while True:
        chunk = b.recv(4096)
        if not chunk:
            break
        data += chunk
except Exception:
    pass
g.kill()
lines = [l for l in data.split(b'\r\n') if l]
print('replies after DATA:', lines[-3:])
print('commands handled after the 421:', seen)
sys.exit(1 if seen else 0)
