"""Native witness: the raise_error() implementations of the pipe relays receive the BYTES that
Popen.communicate() returns.  MaildropRelay does bytes.startswith(str) -> TypeError; DovecotLdaRelay hands
bytes to Reply() -> TypeError; PipeRelay decodes strictly -> UnicodeDecodeError on non-UTF-8 output.  The
attempt then ends with an exception that is not a relay error.
exit 1 = defect reproduces on $PYVC_REPO, exit 0 = it does not."""
import sys, os
from slimta.relay.pipe import PipeRelay, MaildropRelay, DovecotLdaRelay
from slimta.relay import RelayError
bad = []
for cls, out in ((MaildropRelay, b'maildrop: no such user\n'), (DovecotLdaRelay, b'lda: no such user\n'),
                 (PipeRelay, b'caf\xe9 closed\n')):
    r = cls() if cls is not PipeRelay else cls(['x'])
    try:
        r.raise_error(1, out, b'')
        bad.append('%s: returned' % cls.__name__)
    except RelayError as e:
        print('%s: %r' % (cls.__name__, e))
    except Exception as e:
        bad.append('%s: %r' % (cls.__name__, e))
print('non-relay errors:', bad)
sys.stdout.flush()
os._exit(1 if bad else 0)
