"""Native witness: with PIPELINING, SmtpRelayClient._send_message_data() reads the end-of-data reply in
client._flush_pipeline() AFTER the `with Timeout(self.data_timeout)` block has ended: a server that accepts
everything and then never answers the end of data holds the delivery attempt without bound.
exit 1 = defect reproduces on $PYVC_REPO (no result at 10x the timeout), exit 0 = it does not."""
import sys, os, time
import gevent
from gevent import socket
from gevent.event import AsyncResult
from slimta.envelope import Envelope
from slimta.relay import TransientRelayError
from slimta.relay.smtp.client import SmtpRelayClient
from slimta.util.deque import BlockingDeque

TIMEOUT = 0.3
client_sock, server_sock = socket.socketpair()

def serve():
    buf = b''
    def readline():
        nonlocal buf
        while b'\r\n' not in buf:
            piece = server_sock.recv(4096)
            if not piece:
                return None
            buf += piece
        line, buf = buf.split(b'\r\n', 1)
        return line
    server_sock.sendall(b'220 hi\r\n')
    readline()
    server_sock.sendall(b'250-hello\r\n250 PIPELINING\r\n')
    in_data = False
    while True:
        line = readline()
        if line is None:
            return
        if in_data:
            if line == b'.':
                gevent.sleep(60)          # never answer the end of data
        elif line == b'DATA':
            in_data = True
            server_sock.sendall(b'354 go\r\n')
        else:
            server_sock.sendall(b'250 2.0.0 ok\r\n')

gevent.spawn(serve)
queue = BlockingDeque()
client = SmtpRelayClient(('addr', 0), queue, socket_creator=lambda addr: client_sock, ehlo_as='there',
                         connect_timeout=TIMEOUT, command_timeout=TIMEOUT, data_timeout=TIMEOUT)
env = Envelope('sender@example.com', ['rcpt@example.com'])
env.parse(b'From: sender@example.com\r\n\r\ntest test\r\n')
result = AsyncResult()
queue.append((result, env))
client.start()
start = time.time()
outcome = 'NO RESULT (attempt still blocked)'
try:
    result.get(timeout=TIMEOUT * 10)
    outcome = 'unexpected success'
except TransientRelayError as exc:
    outcome = 'transient failure %s' % exc.reply.code
except gevent.Timeout:
    pass
print('after %.2fs with data_timeout=%.1f: %s' % (time.time() - start, TIMEOUT, outcome))
sys.stdout.flush()
os._exit(1 if outcome.startswith('NO RESULT') else 0)
