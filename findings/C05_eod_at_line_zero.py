"""Native witness: DataReader treats EOD == 0 (an EMPTY message: the end-of-data line is the first line) as
"end of data not seen yet" (`if not self.EOD`).  Pipelined bytes behind the end-of-data line are then
swallowed into the content / dot-stripped, and the result depends on how the stream was segmented.
exit 1 = defect reproduces on $PYVC_REPO, exit 0 = it does not."""
import sys, os
from unittest.mock import MagicMock
from slimta.smtp.datareader import DataReader

def run(segments):
    io = MagicMock()
    io.recv_buffer = b''
    segs = list(segments)
    io.raw_recv = lambda: segs.pop(0)
    dr = DataReader(io)
    return dr.recv(), io.recv_buffer

stream = b'.\r\n.foo\r\n'         # empty message, then a pipelined line that starts with a dot
one = run([stream])
split = run([b'.\r\n', b'.foo\r\n'][:1])
print('one segment      -> content %r, left for the command parser %r' % one)
print('EOD line alone   -> content %r, left for the command parser %r' % split)
bad = one != (b'', b'.foo\r\n')
sys.stdout.flush()
os._exit(1 if bad else 0)
