"""Native witness: after STARTTLS the server keeps an open mail transaction (have_mailfrom/have_rcptto),
so RCPT/DATA are accepted on the encrypted channel without a new EHLO/MAIL.
exit 1 = defect reproduces on $PYVC_REPO, exit 0 = it does not."""
import sys
from unittest.mock import MagicMock
from slimta.smtp.server import Server
sock = MagicMock()
s = Server(sock, MagicMock(spec=[]), context=MagicMock())
s.io = MagicMock()
s.io.encrypt_socket_server.return_value = True
s.bannered = True
s.ehlo_as = 'client'
s.have_mailfrom = True
s.have_rcptto = True
s._command_STARTTLS(None)
print('after STARTTLS: ehlo_as=%r have_mailfrom=%r have_rcptto=%r' % (s.ehlo_as, s.have_mailfrom, s.have_rcptto))
sys.exit(1 if (s.have_mailfrom or s.have_rcptto) else 0)
