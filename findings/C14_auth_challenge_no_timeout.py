"""Native witness: the server reads the client's answer to an AUTH challenge (AuthSession._server_challenge ->
io.recv_line) under no Timeout scope: a client that sends `AUTH LOGIN` and then stays silent holds the
session far beyond command_timeout.
exit 1 = defect reproduces on $PYVC_REPO (session still blocked at 15x the timeout), exit 0 = it does not."""
import sys, os
import gevent
from gevent import socket
from slimta.smtp.server import Server

class H(object):
    pass

a, b = socket.socketpair()
srv = Server(a, H(), auth=True, command_timeout=0.2)
state = {}
def run():
    try:
        srv.handle()
        state['end'] = 'returned'
    except BaseException as e:
        state['end'] = repr(e)
g = gevent.spawn(run)
def client():
    b.recv(1024)
    b.sendall(b'EHLO x\r\n'); b.recv(4096)
    b.sendall(b'AUTH LOGIN\r\n'); b.recv(4096)      # 334 challenge, then: silence
gevent.spawn(client)
g.join(timeout=3.0)
print('session state after 3.0s with command_timeout=0.2:', state.get('end', 'STILL BLOCKED'))
sys.stdout.flush()
os._exit(1 if 'end' not in state else 0)
