"""Native witness: both edges choose the final reply from results[0] only.  When the queue policies split a
message into two envelopes and the SECOND storage write fails, the client is told 250 / HTTP 2xx although not
every recipient's envelope was stored.
exit 1 = defect reproduces on $PYVC_REPO, exit 0 = it does not."""
import sys, os
from unittest.mock import MagicMock
from slimta.edge.smtp import SmtpSession
from slimta.edge.wsgi import WsgiEdge, WsgiResponse
from slimta.envelope import Envelope
from slimta.queue import QueueError
from slimta.smtp.reply import Reply

e1, e2 = Envelope('s@x', ['a@x']), Envelope('s@x', ['b@y'])
results = [(e1, 'id-of-first-envelope'), (e2, QueueError())]
bad = []

sess = SmtpSession(('127.0.0.1', 0), None, lambda env: results)
sess.envelope = Envelope('s@x', ['a@x', 'b@y'])
reply = Reply('250', '2.6.0 Message accepted for delivery')
sess.HAVE_DATA(reply, b'Subject: x\r\n\r\nbody\r\n', None)
print('SMTP edge final reply:', reply.code, reply.message)
if reply.code.startswith('2'):
    bad.append('smtp')

q = MagicMock()
q.enqueue.return_value = results
edge = WsgiEdge(q)
try:
    edge._enqueue_envelope(Envelope('s@x', ['a@x', 'b@y']))
except WsgiResponse as r:
    print('WSGI edge status:', r.status)
    if r.status.startswith('2'):
        bad.append('wsgi')
sys.stdout.flush()
os._exit(1 if bad else 0)
