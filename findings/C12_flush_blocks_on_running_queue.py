"""Native witness: Queue._run holds queued_lock while it sleeps in _wait_ready (wake.wait), and re-acquires
it straight after releasing, so flush() on a *started* queue blocks on queued_lock.acquire() and does not
return; the waiting message is not attempted.
exit 1 = defect reproduces on $PYVC_REPO, exit 0 = it does not."""
import sys
import gevent
from gevent import Timeout
from slimta.queue import Queue
from slimta.queue.dict import DictStorage
from slimta.relay import Relay, TransientRelayError
from slimta.envelope import Envelope

attempts = []


class R(Relay):
    def attempt(self, envelope, n):
        attempts.append(n)
        raise TransientRelayError('try later')


q = Queue(DictStorage(), R(), backoff=lambda env, n: 3600.0)
q.start()
env = Envelope('s@x', ['r@y'])
env.parse(b'Subject: t\r\n\r\nbody\r\n')
q.enqueue(env)
gevent.sleep(0.2)                     # first attempt fails, message waits one hour
assert attempts == [0], attempts
returned = True
try:
    with Timeout(2.0):
        q.flush()
except Timeout:
    returned = False
gevent.sleep(0.3)
print('flush returned=%s attempts=%r' % (returned, attempts))
q.kill()
sys.exit(0 if (returned and len(attempts) == 2) else 1)
