"""Native witness: CloudStorage.increment_attempts reads meta['attempts'], but the object store the repository ships
(aws.SimpleStorageService) writes a new message with an EMPTY attempts slot and leaves an empty slot out of the meta
dict (CloudStorage.get copes: meta.get('attempts', 0)).  The first increment_attempts() of every message therefore
raises KeyError('attempts') instead of returning 1 -- "an attempt count that starts at 0 and grows by one per
increment" fails; in the queue the delivery attempt's greenlet dies in _retry_later and the message is never retried.
The real CloudStorage and the real SimpleStorageService run over an in-memory stand-in for the boto bucket (boto is not
installed).  exit 1 = defect reproduces on $PYVC_REPO, exit 0 = it does not."""
import sys
import types

# boto is absent: stand-ins for the two names aws.py imports
for name in ('boto', 'boto.s3', 'boto.s3.key', 'boto.sqs', 'boto.sqs.message'):
    sys.modules[name] = types.ModuleType(name)


class Key(object):
    def __init__(self, bucket):
        self.bucket, self.key, self.meta, self.data = bucket, None, {}, None

    def set_metadata(self, k, v):
        self.meta[k] = v

    def get_metadata(self, k):
        return self.meta.get(k)

    def set_contents_from_string(self, s):
        self.data = s
        self.bucket.keys[self.key] = self

    def get_contents_as_string(self):
        return self.data

    def delete(self):
        del self.bucket.keys[self.key]


class Bucket(object):
    def __init__(self):
        self.keys = {}

    def get_key(self, id):
        return self.keys.get(id)


sys.modules['boto.s3.key'].Key = Key
sys.modules['boto.sqs.message'].Message = object

from slimta.cloudstorage import CloudStorage
from slimta.cloudstorage.aws import SimpleStorageService
from slimta.envelope import Envelope

storage = CloudStorage(SimpleStorageService(Bucket()))
env = Envelope('s@x', ['r@y'])
env.parse(b'Subject: t\r\n\r\nbody\r\n')
id = storage.write(env, 1234.0)
print('attempts after write:', storage.get(id)[1])
try:
    n = storage.increment_attempts(id)
except KeyError as e:
    print('first increment_attempts raised KeyError(%s)' % e)
    sys.exit(1)
print('first increment_attempts returned', n, '; get reports', storage.get(id)[1])
sys.exit(0 if n == 1 and storage.get(id)[1] == 1 else 1)
