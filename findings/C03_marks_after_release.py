"""Native witness (C03): Queue._handle_partial_relay() persists the settled recipients (store.set_recipients_delivered)
only AFTER _retry_later() has released the message (removed it from active_ids and re-scheduled it).  With a
storage operation that yields and a retry that is due at once (backoff 0), the scheduler starts the next attempt
in between and that attempt again contains a recipient the relay had already reported delivered.
exit 1 = defect reproduces on $PYVC_REPO, exit 0 = it does not."""
import sys, os
import gevent
from slimta.queue import Queue
from slimta.queue.dict import DictStorage
from slimta.relay import Relay, TransientRelayError
from slimta.envelope import Envelope

class SlowStore(DictStorage):
    def set_recipients_delivered(self, id, idx):
        gevent.sleep(0.05)                       # a storage backend whose operation yields (disk, redis, cloud)
        return DictStorage.set_recipients_delivered(self, id, idx)

attempts = []
class R(Relay):
    def attempt(self, envelope, n):
        attempts.append(list(envelope.recipients))
        if len(attempts) >= 3:
            return {r: None for r in envelope.recipients}
        return {r: (None if r == 'done@x' else TransientRelayError('try later')) for r in envelope.recipients}

q = Queue(SlowStore(), R(), backoff=lambda env, n: 0)
q.start()
env = Envelope('s@x', ['done@x', 'later@y'])
env.parse(b'Subject: x\r\n\r\nbody\r\n')
q.enqueue(env)
gevent.sleep(0.5)
print('recipient lists of successive attempts:', attempts)
again = any('done@x' in a for a in attempts[1:])
sys.stdout.flush()
os._exit(1 if again else 0)
