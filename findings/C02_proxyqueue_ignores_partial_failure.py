"""Native witness: ProxyQueue.enqueue() treats ANY value returned by the relay as success.  A relay that
returns a per-recipient mapping containing a failure still yields a queue id, so the SMTP/HTTP edge answers
2xx for a recipient the next hop rejected.
exit 1 = defect reproduces on $PYVC_REPO, exit 0 = it does not."""
import sys, os
from slimta.queue.proxy import ProxyQueue
from slimta.relay import Relay, PermanentRelayError, RelayError
from slimta.envelope import Envelope

class R(Relay):
    def attempt(self, envelope, attempts):
        return {'a@x': None, 'b@y': PermanentRelayError('5.1.1 no such user')}

res = ProxyQueue(R()).enqueue(Envelope('s@x', ['a@x', 'b@y']))
print('ProxyQueue.enqueue ->', res)
bad = not isinstance(res[0][1], RelayError)
sys.stdout.flush()
os._exit(1 if bad else 0)
