"""Native witness: Queue._handle_partial_relay passes a *set* of settled positions to
QueueStorage.set_recipients_delivered; the disk / cloud / redis backends computed `current + rcpt_indexes` with
a list on the left -> TypeError, nothing is marked, and the next attempt delivers to the settled recipients again.
exit 1 = defect reproduces on $PYVC_REPO, exit 0 = it does not."""
import os
import sys
import shutil
import tempfile
from slimta.diskstorage import DiskStorage
from slimta.envelope import Envelope

d = tempfile.mkdtemp()
try:
    for x in ('e', 'm', 't'):
        os.mkdir(os.path.join(d, x))
    s = DiskStorage(os.path.join(d, 'e'), os.path.join(d, 'm'), os.path.join(d, 't'))
    id = s.write(Envelope('s@x', ['a@x', 'b@x', 'c@x']), 1.0)
    try:
        s.set_recipients_delivered(id, {0})          # what the Queue passes: a set
    except TypeError as e:
        print('TypeError:', e)
        sys.exit(1)
    got = s.get(id)[0].recipients
    print('after marking {0}:', got)
    sys.exit(0 if got == ['b@x', 'c@x'] else 1)
finally:
    shutil.rmtree(d, ignore_errors=True)
