"""Native witness: Queue.flush() empties the timetable but leaves queued_ids stale, so a
flushed message that then fails transiently is refused by _add_queued and forgotten.
exit 1 = defect reproduces on $PYVC_REPO, exit 0 = it does not."""
import sys
from slimta.queue import Queue
from slimta.queue.dict import DictStorage
q = Queue(DictStorage(), relay=object())
q._pool_spawn = lambda *a, **k: None          # do not actually dequeue
q._add_queued((10.0, 'id1'))
q.flush()
stale = 'id1' in q.queued_ids and not q.queued
q._add_queued((20.0, 'id1'))                  # what _retry_later does after a transient failure
forgotten = not any(i == 'id1' for _, i in q.queued)
print('queued=%r queued_ids=%r stale=%s forgotten=%s' % (q.queued, q.queued_ids, stale, forgotten))
sys.exit(1 if (stale or forgotten) else 0)
