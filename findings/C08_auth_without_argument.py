"""Native witness: a bare `AUTH` line (no mechanism) makes AuthSession._parse_arg(None) raise TypeError, which
Server._command_AUTH does not catch: the session is ended with 421 instead of an error reply.
exit 1 = defect reproduces on $PYVC_REPO, exit 0 = it does not."""
import sys, os
from unittest.mock import MagicMock
from slimta.smtp.auth import AuthSession, ServerAuthError
from pysasl import SASLAuth
sess = AuthSession(SASLAuth.defaults(), MagicMock())
try:
    sess.server_attempt(None)
    out = 'returned'
except ServerAuthError as e:
    out = 'ServerAuthError %s' % e.reply.code
except ValueError as e:
    out = 'ValueError'
except Exception as e:
    out = 'ESCAPES: %r' % (e,)
print('AUTH with no argument ->', out)
sys.stdout.flush()
os._exit(1 if out.startswith('ESCAPES') else 0)
