"""Native witness: the PROXY v1 port fields go straight into int(), which also accepts '8_0', '+25', ' 25' and
non-ASCII digits: the malformed header  PROXY TCP4 1.2.3.4 5.6.7.8 8_0 +25  is parsed as ports 80 and 25 instead of
being rejected (-> "invalid" source address).
exit 1 = defect reproduces on $PYVC_REPO, exit 0 = it does not."""
import sys
from slimta.util.proxyproto import ProxyProtocolV1

try:
    res = ProxyProtocolV1.parse_pp_line(b'PROXY TCP4 1.2.3.4 5.6.7.8 8_0 +25\r\n')
    print('accepted:', res)
    sys.exit(1)
except AssertionError as e:
    print('rejected:', e)
    sys.exit(0)
