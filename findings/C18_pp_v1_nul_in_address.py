"""Native witness: a PROXY v1 header whose address field contains a NUL byte makes socket.inet_pton raise
ValueError('embedded null character'), which __get_pp_ip did not turn into AssertionError: the exception
escapes ProxyProtocolV1.handle() instead of the connection proceeding with the "invalid" source address.
exit 1 = defect reproduces on $PYVC_REPO, exit 0 = it does not."""
import sys, os
from slimta.util.proxyproto import ProxyProtocolV1
try:
    ProxyProtocolV1.parse_pp_line(b'PROXY TCP4 1.2.3.4\x00 5.6.7.8 1000 25\r\n')
    out = 'returned'
except AssertionError as e:
    out = 'AssertionError(%s)' % e
except Exception as e:
    out = 'ESCAPES: %r' % (e,)
print('parse_pp_line with NUL in the source address ->', out)
sys.stdout.flush()
os._exit(1 if out.startswith('ESCAPES') else 0)
