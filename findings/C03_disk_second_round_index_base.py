"""Native witness: the positions the Queue passes to set_recipients_delivered are positions in the envelope that
get() returned (settled recipients already removed), the disk backend stores them as if they were positions in the
stored envelope.  Round 1 settles a@x (position 0 of [a,b,c]); round 2 settles c@x (position 1 of [b,c]); the
stored marks become [0, 1], so the next get() returns [c@x]: b@x is never attempted again (lost) and c@x is
delivered a second time.
exit 1 = defect reproduces on $PYVC_REPO, exit 0 = it does not."""
import os
import sys
import shutil
import tempfile
from slimta.diskstorage import DiskStorage
from slimta.envelope import Envelope

d = tempfile.mkdtemp()
try:
    for x in ('e', 'm', 't'):
        os.mkdir(os.path.join(d, x))
    s = DiskStorage(os.path.join(d, 'e'), os.path.join(d, 'm'), os.path.join(d, 't'))
    id = s.write(Envelope('s@x', ['a@x', 'b@x', 'c@x']), 1.0)
    s.set_recipients_delivered(id, [0])               # round 1: a@x settled
    r1 = s.get(id)[0].recipients
    assert r1 == ['b@x', 'c@x'], r1
    s.set_recipients_delivered(id, [r1.index('c@x')])  # round 2: c@x settled
    r2 = s.get(id)[0].recipients
    print('outstanding after two rounds:', r2, '(expected [\'b@x\'])')
    sys.exit(0 if r2 == ['b@x'] else 1)
finally:
    shutil.rmtree(d, ignore_errors=True)
