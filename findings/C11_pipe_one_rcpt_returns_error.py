"""Native witness: PipeRelay (per_recipient False) RETURNS the RelayError built for a failing delivery program
instead of raising it; Queue._attempt then treats the attempt as a success and removes the message.
exit 1 = defect reproduces on $PYVC_REPO, exit 0 = it does not."""
import sys
from slimta.relay.pipe import PipeRelay
from slimta.relay import RelayError
from slimta.envelope import Envelope
env = Envelope('sender@example.com', ['rcpt@example.com'])
env.parse(b'From: sender@example.com\r\n\r\ntest\r\n')
relay = PipeRelay(['/bin/sh', '-c', 'echo "5.1.1 no such user"; exit 67'])
relay.per_recipient = False
try:
    res = relay.attempt(env, 0)
    print('attempt() returned %r' % (res,))
    bad = isinstance(res, RelayError)
except RelayError as e:
    print('attempt() raised %r' % (e,))
    bad = False
sys.stdout.flush()
import os
os._exit(1 if bad else 0)
