"""Native witness: slimta.smtp.server.find_outside_quotes does not know backslash escapes inside a quoted string, so
for the valid quoted local part  "a\"b>c"@x.com  the escaped quote ends the quoted region, the `>` inside the local
part is taken for the end of the path and MAIL FROM:<"a\"b>c"@x.com> is accepted with the sender truncated to  "a\"b .
exit 1 = defect reproduces on $PYVC_REPO, exit 0 = it does not."""
import sys
from slimta.smtp.server import find_outside_quotes

arg = b'<"a\\"b>c"@x.com> SIZE=10'
end = find_outside_quotes(arg, b'>', 1)
addr = arg[1:end]
print('path end found at', end, '-> address', addr)
sys.exit(0 if addr == b'"a\\"b>c"@x.com' else 1)
