"""Native witness: with tls_immediately the relay client performs the TLS handshake (client.encrypt) under no
Timeout scope: a server that accepts the TCP connection and then stays silent holds the attempt without bound.
exit 1 = defect reproduces on $PYVC_REPO (no result at 10x the timeout), exit 0 = it does not."""
import sys, os, time
import gevent
from gevent import socket, ssl
from gevent.event import AsyncResult
from slimta.envelope import Envelope
from slimta.relay import TransientRelayError, RelayError
from slimta.relay.smtp.client import SmtpRelayClient
from slimta.util.deque import BlockingDeque

TIMEOUT = 0.3
client_sock, server_sock = socket.socketpair()     # the server side never says anything
queue = BlockingDeque()
ctx = ssl.SSLContext(ssl.PROTOCOL_TLS_CLIENT)
ctx.check_hostname = False
ctx.verify_mode = ssl.CERT_NONE
client = SmtpRelayClient(('addr', 0), queue, socket_creator=lambda addr: client_sock, ehlo_as='there',
                         context=ctx, tls_immediately=True,
                         connect_timeout=TIMEOUT, command_timeout=TIMEOUT, data_timeout=TIMEOUT)
env = Envelope('sender@example.com', ['rcpt@example.com'])
env.parse(b'From: sender@example.com\r\n\r\ntest test\r\n')
result = AsyncResult()
queue.append((result, env))
client.start()
start = time.time()
outcome = 'NO RESULT (attempt still blocked)'
try:
    result.get(timeout=TIMEOUT * 10)
    outcome = 'unexpected success'
except RelayError as exc:
    outcome = 'relay error %s' % exc.reply.code
except gevent.Timeout:
    pass
print('after %.2fs with command_timeout=%.1f: %s' % (time.time() - start, TIMEOUT, outcome))
sys.stdout.flush()
os._exit(1 if outcome.startswith('NO RESULT') else 0)
