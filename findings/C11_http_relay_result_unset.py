"""Native witness: HttpRelayClient._handle_request lets a connection error (or the relay timeout) escape without
answering the delivery request; HttpRelayClient._run swallows gevent.Timeout / dies on the socket error, the
AsyncResult is never set and HttpRelay.attempt() blocks for ever instead of ending with a result or a relay error.
exit 1 = defect reproduces on $PYVC_REPO, exit 0 = it does not."""
import sys
import socket
import gevent
from slimta.relay.http import HttpRelay
from slimta.relay import RelayError
from slimta.envelope import Envelope

s = socket.socket()
s.bind(('127.0.0.1', 0))
port = s.getsockname()[1]
s.close()                                   # nobody listens on this port: connection refused

relay = HttpRelay('http://127.0.0.1:%d/deliver' % port, timeout=2.0)
env = Envelope('s@x', ['r@y'])
env.parse(b'Subject: t\r\n\r\nbody\r\n')
outcome = None
try:
    with gevent.Timeout(5.0):
        try:
            relay.attempt(env, 0)
            outcome = 'returned'
        except RelayError as e:
            outcome = 'relay error: %r' % (e,)
except gevent.Timeout:
    outcome = None
print('outcome of attempt() after a refused connection:', outcome or 'NONE within 5 s (request never answered)')
sys.exit(1 if outcome is None else 0)
