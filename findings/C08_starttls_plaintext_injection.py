"""Native witness: bytes received in clear text BEFORE the TLS handshake stay in IO.recv_buffer and are parsed as
commands (server) / replies (client) AFTER it (STARTTLS plaintext command injection).
exit 1 = defect reproduces on $PYVC_REPO, exit 0 = it does not."""
import sys, os
from unittest.mock import MagicMock
from slimta.smtp.io import IO
bad = []
for side in ('server', 'client'):
    sock = MagicMock()
    sock.fileno.return_value = -1
    io = IO(sock, ('host', 25))
    io.recv_buffer = b'MAIL FROM:<injected@example.com>\r\n'     # pipelined behind STARTTLS, still in clear
    ctx = MagicMock()
    ok = io.encrypt_socket_server(ctx) if side == 'server' else io.encrypt_socket_client(ctx)
    print(side, 'handshake ok=%r, buffer afterwards=%r' % (ok, io.recv_buffer))
    if ok and io.recv_buffer:
        bad.append(side)
sys.stdout.flush()
os._exit(1 if bad else 0)
