#!/bin/sh
# Nothing to build: check that the interpreters and solvers the checks need are present.
set -e
cd "$(dirname "$0")"
python3-vt -c "import z3; print('z3', z3.get_version_string())"
/usr/bin/cvc5 --version | head -1
/venv/bin/python -c "import gevent; print('gevent', gevent.__version__)"
mkdir -p evidence replays
echo setup-ok
