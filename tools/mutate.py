"""usage: python3-vt tools/mutate.py [--n N] [--seed S] [--workers W] [--props C01,C02,...] [--out FILE]

Mutation campaign over the functions under contract (a systematic complement to the hand-written seeded changes of
DESIGN section 9): small AST mutations (comparison / boolean operator swaps, small-constant tweaks, True<->False,
deletion of call statements, `not` insertion on if-tests) are applied one at a time to a scratch copy of the
repository (outside /repo and /verif, removed afterwards); a mutant is kept only if the repository's own test suite
gives the same outcome as on the unchanged tree; the quick check of every property the function is attached to is then
run on the mutant (PYVC_REPO, evidence redirected).  Output: one JSON line per kept mutant with the verdict per
property (exit 1 = VIOLATION, 2 = UNDECIDED, 0 = survived).  Survivors are either equivalent mutants or weak contracts
-- they are the list to read."""
import ast, copy, json, os, random, re, shutil, subprocess, sys, tempfile, multiprocessing, argparse
HERE = os.path.dirname(os.path.dirname(os.path.abspath(__file__)))
sys.path.insert(0, HERE)
sys.setrecursionlimit(10000)
REPO = os.environ.get('PYVC_REPO', '/repo')
TEST_CMD = ['/venv/bin/python', '-m', 'pytest', '-q', '-p', 'no:cacheprovider', '--timeout=900',
            '--continue-on-collection-errors', '-x', '--no-header', '-rfE']

CMP_SWAP = {ast.Lt: ast.LtE, ast.LtE: ast.Lt, ast.Gt: ast.GtE, ast.GtE: ast.Gt, ast.Eq: ast.NotEq, ast.NotEq: ast.Eq,
            ast.Is: ast.IsNot, ast.IsNot: ast.Is, ast.In: ast.NotIn, ast.NotIn: ast.In}


def sites(fn):
    """(description, mutator(node_copy_root) ) for every mutation site of the function node"""
    out = []
    nodes = list(ast.walk(fn))
    for idx, n in enumerate(nodes):
        if isinstance(n, ast.Compare) and len(n.ops) == 1 and type(n.ops[0]) in CMP_SWAP:
            out.append((idx, 'cmp %s->%s' % (type(n.ops[0]).__name__, CMP_SWAP[type(n.ops[0])].__name__)))
        elif isinstance(n, ast.BoolOp):
            out.append((idx, 'boolop swap'))
        elif isinstance(n, ast.Constant) and isinstance(n.value, bool):
            out.append((idx, 'bool flip'))
        elif isinstance(n, ast.Constant) and isinstance(n.value, int) and not isinstance(n.value, bool) and -2 <= n.value <= 16:
            out.append((idx, 'int +1'))
        elif isinstance(n, ast.Expr) and isinstance(n.value, ast.Call):
            f = n.value.func
            if isinstance(f, ast.Attribute) and isinstance(f.value, ast.Name) and f.value.id in ('log', 'logging'):
                continue            # deleting a log call is an equivalent mutant for every property
            out.append((idx, 'delete call statement'))
        elif isinstance(n, (ast.If, ast.While)) and not isinstance(n.test, ast.Constant):
            out.append((idx, 'negate test'))
        elif isinstance(n, ast.BinOp) and isinstance(n.op, (ast.Add, ast.Sub)) and not isinstance(n.left, ast.Constant):
            out.append((idx, 'add<->sub'))
    return out


def apply(fn, idx, what):
    fn = copy.deepcopy(fn)
    n = list(ast.walk(fn))[idx]
    if what.startswith('cmp'):
        n.ops = [CMP_SWAP[type(n.ops[0])]()]
    elif what == 'boolop swap':
        n.op = ast.Or() if isinstance(n.op, ast.And) else ast.And()
    elif what == 'bool flip':
        n.value = not n.value
    elif what == 'int +1':
        n.value = n.value + 1
    elif what == 'delete call statement':
        n.value = ast.Constant(value=None)
    elif what == 'negate test':
        n.test = ast.UnaryOp(op=ast.Not(), operand=n.test)
    elif what == 'add<->sub':
        n.op = ast.Sub() if isinstance(n.op, ast.Add) else ast.Add()
    return fn


def mutant_source(relpath, qual, idx, what):
    from pyvc import frontend
    fs = frontend.find_function(relpath, qual)
    src = open(os.path.join(REPO, relpath)).read().split('\n')
    node = fs.node
    first = min([node.lineno] + [d.lineno for d in node.decorator_list])
    new = ast.unparse(apply(node, idx, what)).split('\n')
    indent = ' ' * node.col_offset
    new = [indent + l if l.strip() else l for l in new]
    return '\n'.join(src[:first - 1] + new + src[node.end_lineno:])


def baseline_tests():
    p = subprocess.run([c for c in TEST_CMD if c != '-x'], cwd=REPO, capture_output=True, text=True)
    return sorted(l for l in p.stdout.split('\n') if l.startswith(('FAILED', 'ERROR')))


def run_one(job):
    i, key, relpath, qual, idx, what, props, base = job
    w = tempfile.mkdtemp(prefix='pyvc_mut.', dir='/tmp')
    rec = dict(n=i, function=key, file=relpath, mutation=what, site=idx)
    try:
        subprocess.run(['rsync', '-a', '--exclude', '.git', '--exclude', '__pycache__', REPO + '/', w + '/'], check=True)
        try:
            text = mutant_source(relpath, qual, idx, what)
            compile(text, relpath, 'exec')
        except Exception as e:
            rec['skipped'] = 'does not compile: %s' % e
            return rec
        with open(os.path.join(w, relpath), 'w') as f:
            f.write(text)
        p = subprocess.run([c for c in TEST_CMD if c != '-x'], cwd=w, capture_output=True, text=True, timeout=900)
        got = sorted(l for l in p.stdout.split('\n') if l.startswith(('FAILED', 'ERROR')))
        if got != base:
            rec['skipped'] = 'caught by the test suite'
            return rec
        rec['verdicts'] = {}
        env = dict(os.environ, PYVC_REPO=w, PYVC_EVIDENCE_DIR=os.path.join(w, '.ev'), PYTHONHASHSEED='0')
        for pid in props:
            q = subprocess.run([os.path.join(HERE, 'check'), pid], cwd=HERE, env=env, capture_output=True, text=True, timeout=1800)
            first = [l for l in q.stdout.split('\n') if l.strip().startswith(('obligation', 'UNDECIDED'))][:1]
            rec['verdicts'][pid] = dict(exit=q.returncode, first=(first[0].strip()[:200] if first else ''))
        rec['detected'] = any(v['exit'] == 1 for v in rec['verdicts'].values())
        rec['survived'] = all(v['exit'] == 0 for v in rec['verdicts'].values())
        from pyvc import frontend
        rec['original'] = ast.unparse(list(ast.walk(frontend.find_function(relpath, qual).node))[idx])[:200]
    except Exception as e:
        rec['error'] = str(e)[:300]
    finally:
        shutil.rmtree(w, ignore_errors=True)
    return rec


def main():
    ap = argparse.ArgumentParser()
    ap.add_argument('--n', type=int, default=60)
    ap.add_argument('--seed', type=int, default=1)
    ap.add_argument('--workers', type=int, default=3)
    ap.add_argument('--props', default='')
    ap.add_argument('--out', default=os.path.join(HERE, 'seeded', 'MUTANTS.jsonl'))
    a = ap.parse_args()
    from pyvc import driver, registry as R, frontend
    driver.load_contracts()
    want = set(a.props.split(',')) if a.props else None
    cands = []
    for key, c in sorted(R.CONTRACTS.items()):
        if c.kind != 'repo' or not c.verify or not c.module or not c.props:
            continue
        props = [p for p in c.props if want is None or p in want]
        if not props:
            continue
        fs = frontend.find_function(c.module, c.qual)
        if fs is None:
            continue
        for idx, what in sites(fs.node):
            cands.append((key, c.module, c.qual, idx, what, props[:2]))
    rnd = random.Random(a.seed)
    rnd.shuffle(cands)
    # at most two mutants per function
    seen, picked = {}, []
    for cnd in cands:
        if seen.get(cnd[0], 0) >= 2:
            continue
        seen[cnd[0]] = seen.get(cnd[0], 0) + 1
        picked.append(cnd)
        if len(picked) >= a.n:
            break
    base = baseline_tests()
    jobs = [(i,) + cnd + (base,) for i, cnd in enumerate(picked)]
    print('%d mutation sites in %d functions; running %d' % (len(cands), len(seen), len(jobs)))
    with open(a.out, 'w') as out, multiprocessing.get_context('fork').Pool(a.workers) as pool:
        for rec in pool.imap_unordered(run_one, jobs, chunksize=1):
            out.write(json.dumps(rec) + '\n')
            out.flush()
            tag = rec.get('skipped') or rec.get('error') or ('DETECTED' if rec.get('detected') else 'SURVIVED' if rec.get('survived') else 'UNDECIDED')
            print('%3d %-45s %-22s %s' % (rec['n'], rec['function'], rec['mutation'], tag))
            sys.stdout.flush()
    os._exit(0)


if __name__ == '__main__':
    main()
