#!/bin/sh
# Runs the quick check of every claimed property; prints one line each and the overall worst exit code.
cd "$(dirname "$0")/.."
worst=0
for p in $(python3 -c "import json;print(' '.join(c['property_id'] for c in json.load(open('MANIFEST.json'))['checks']))"); do
  o=$(./check $p --tier ${1:-quick} 2>/dev/null); rc=$?
  echo "$o" | grep "KNOWN-FINDING\|VIOLATION\|UNDECIDED\|ERROR" | cut -c1-160
  echo "$o" | tail -1 | sed "s/$/ exit=$rc/"
  [ $rc -gt $worst ] && worst=$rc
done
echo "worst exit: $worst"
