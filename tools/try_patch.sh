#!/bin/sh
# usage: tools/try_patch.sh <patch.diff> <property id> [tier]
# Applies the patch to a scratch copy of /repo (outside /repo and /verif), runs the property's
# check against it (PYVC_REPO), prints the result and removes the scratch copy.
set -u
PATCH="$1"; PID="$2"; TIER="${3:-quick}"
S=$(mktemp -d /tmp/pyvc_scratch.XXXXXX)
rsync -a --exclude .git --exclude '__pycache__' /repo/ "$S/"
if ! (cd "$S" && patch -p1 -s < "$PATCH"); then echo "PATCH FAILED"; rm -rf "$S"; exit 9; fi
cd "$(dirname "$0")/.."
PYVC_REPO="$S" PYVC_EVIDENCE_DIR="$S/.evidence" ./check "$PID" --tier "$TIER"
rc=$?
rm -rf "$S"
echo "exit=$rc"
exit $rc
