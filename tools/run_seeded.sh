#!/bin/sh
# Runs every kept seeded change against the checks of the claimed properties that could see it and writes a table.
cd "$(dirname "$0")/.."
OUT=${SEEDED_OUT:-seeded/RESULTS.md}
echo "| change | breaks | checks run | outcome |" > $OUT.tmp
echo "|---|---|---|---|" >> $OUT.tmp
claimed=$(python3 -c "import json;print(' '.join(c['property_id'] for c in json.load(open('MANIFEST.json'))['checks']))")
for d in ${SEEDED_DIRS:-seeded/C*_*}; do
  m=$(basename $d); p=${m%_*}
  # the property itself (if claimed) plus the properties whose functions the patch touches
  cands="$p"
  case $m in
    C06_A) cands="C10";; C06_B) cands="C11";; C08_A|C08_B) cands="C08 C07";; C01_B) cands="C11 C01";;
    C09_A) cands="C09 C05";; C05_A) cands="C05 C09";; C15_B) cands="C15 C03";; C03_A|C03_B) cands="C03 C01";;
    C13_A|C13_B) cands="C13 C01";; C02_A) cands="C02";; C12_A|C12_B) cands="C12 C03";; C16_A) cands="C16 C02";;
    C01_D) cands="C01 C11";; C03_C) cands="C03 C01";; C03_D) cands="C03 C15";; C15_C) cands="C15 C03";; C15_E|C15_F) cands="C15 C03";; C14_C) cands="C14 C11";; C11_F) cands="C11";; C03_E) cands="C03 C01";; C02_C) cands="C02";; C09_C) cands="C09 C05";; C07_C) cands="C07";; C19_D) cands="C19 C11";; C11_C) cands="C11 C19";;
  esac
  res=""; ran=""
  for c in $cands; do
    case " $claimed " in *" $c "*) ;; *) continue;; esac
    ran="$ran $c"
    o=$(timeout 1500 tools/try_patch.sh $(pwd)/$d/patch.diff $c 2>&1)
    rc=$(echo "$o" | grep -o 'exit=[0-9]*' | tail -1)
    ob=$(echo "$o" | grep -m1 "obligation\|bounded_" | sed 's/^ *//' | cut -c1-150)
    case "$rc" in
      exit=1) rp=""; echo "$o" | grep "^VIOLATION" | grep -qv "no-failing-input-found" && rp=" [failing input replayed]"
              res="$res **$c: VIOLATION**$rp ($ob)";;
      exit=0) res="$res $c: not detected";;
      exit=2) res="$res $c: undecided ($(echo "$o" | grep -m1 UNDECIDED | cut -c1-140))";;
      *) res="$res $c: $rc $(echo "$o" | grep -m1 'PATCH FAILED\|ERROR' | cut -c1-100)";;
    esac
  done
  [ -z "$ran" ] && res="property not claimed (no check)"
  echo "| $m | $p |$ran |$res |" >> $OUT.tmp
done
mv $OUT.tmp $OUT
echo done
