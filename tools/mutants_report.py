"""usage: python3 tools/mutants_report.py seeded/MUTANTS.jsonl > seeded/MUTANTS.md"""
import json, sys
recs = [json.loads(l) for l in open(sys.argv[1]) if l.strip()]
kept = [r for r in recs if 'verdicts' in r]
caught = [r for r in recs if r.get('skipped') == 'caught by the test suite']
other = [r for r in recs if r not in kept and r not in caught]
det = [r for r in kept if r.get('detected')]
sur = [r for r in kept if r.get('survived')]
und = [r for r in kept if not r.get('detected') and not r.get('survived')]
print('# Mutation campaign (tools/mutate.py)\n')
print('%d mutants generated in functions under contract; %d changed the outcome of the repository\'s own test suite and were '
      'dropped, %d did not compile / failed otherwise; of the %d that pass the test suite: **%d reported as VIOLATION**, '
      '%d UNDECIDED (exit 2), %d survived (exit 0).\n' % (len(recs), len(caught), len(other), len(kept), len(det), len(und), len(sur)))
print('Survivors are read one by one below: an equivalent mutant (no property is affected) or a weak contract.\n')
print('| function | mutation | original code at the site | verdicts |')
print('|---|---|---|---|')
for r in sorted(kept, key=lambda r: (not r.get('survived'), r['function'])):
    v = '; '.join('%s: %s' % (p, {0: 'survived', 1: 'VIOLATION', 2: 'undecided'}.get(x['exit'], 'exit %s' % x['exit'])) for p, x in r['verdicts'].items())
    print('| %s | %s | `%s` | %s |' % (r['function'], r['mutation'], (r.get('original') or '').replace('|', '\\|').replace('\n', ' ')[:110], v))
