#!/usr/bin/env python3
"""tools/manifest_add.py <PID> <text> <note> <design_ref> : add/replace a claimed check in MANIFEST.json"""
import json, sys
pid, text, note, ref = sys.argv[1:5]
cat = sys.argv[5] if len(sys.argv) > 5 else 'proof'
m = json.load(open('/verif/MANIFEST.json'))
e = {"property_id": pid, "quick_cmd": "./check %s --tier quick" % pid, "thorough_cmd": "./check %s --tier thorough" % pid,
     "evidence_file": "evidence/%s.json" % pid, "replay_cmd_template": "./check replay {path}", "engine": "pyvc",
     "level_claimed": {"category": cat, "text": text, "design_ref": ref}, "level_note": note,
     "technique": "contract-based deductive verification: sidecar contracts on the real functions, own VC generator over the Python AST, obligations discharged by z3/cvc5"}
m['checks'] = [c for c in m['checks'] if c['property_id'] != pid] + [e]
m['checks'].sort(key=lambda c: c['property_id'])
m['not_applicable'] = [x for x in m['not_applicable'] if x['property_id'] != pid]
m['engines'][0]['serves_properties'] = sorted(c['property_id'] for c in m['checks'])
json.dump(m, open('/verif/MANIFEST.json', 'w'), indent=1)
print('claimed:', m['engines'][0]['serves_properties'])
