import sys, os
sys.path.insert(0, '/verif')
sys.setrecursionlimit(10000)
import z3
from pyvc import driver, verify, registry as R
driver.load_contracts()
key, label = sys.argv[1], sys.argv[2]
res = verify.verify_function(key, keep_terms=True, discharge=False)
print(res.status, res.reason[-800:])
for ob in res.raw or []:
    if ob.label == label:
        print('=== path', ob.path, 'line', ob.lineno, 'npc', len(ob.pc))
        print('GOAL', ob.goal)
        if '-pc' in sys.argv:
            for p in ob.pc: print('  PC', p)
        for mbqi in (True, False):
            s = z3.Solver(); s.set('timeout', 10000)
            if not mbqi: s.set('smt.mbqi', False); s.set('auto_config', False)
            for p in ob.pc: s.add(p)
            s.add(z3.Not(ob.goal))
            print('  mbqi', mbqi, s.check())
sys.stdout.flush(); os._exit(0)
