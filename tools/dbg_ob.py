import sys, os, time
sys.path.insert(0, '/verif')
sys.setrecursionlimit(10000)
import z3
from pyvc import driver, verify, registry as R, smt
driver.load_contracts()
key, label = sys.argv[1], sys.argv[2]
res = verify.verify_function(key, keep_terms=True, discharge=False)
print(res.status, res.reason[-800:])
for ob in res.raw or []:
    if ob.label == label or ob.label.split('@')[0] == label:
        print('=== path', ob.path, 'line', ob.lineno, 'npc', len(ob.pc))
        print('GOAL', ob.goal)
        if '-pc' in sys.argv:
            for p in ob.pc: print('  PC', p)
        if '-d' in sys.argv:
            t = time.time(); smt.discharge(ob, 'quick'); print('  discharge:', ob.status, ob.backend, round(time.time() - t, 1)); continue
        for sub in smt.relevant_subsets(ob.pc, ob.goal):
            s = z3.Solver(); s.set('timeout', 10000)
            for i in sub: s.add(ob.pc[i])
            s.add(z3.Not(ob.goal)); t = time.time()
            print('  subset', len(sub), s.check(), round(time.time() - t, 1))
        for mbqi in (True, False):
            s = z3.Solver(); s.set('timeout', 10000)
            if not mbqi: s.set('smt.mbqi', False); s.set('auto_config', False)
            for p in ob.pc: s.add(p)
            s.add(z3.Not(ob.goal)); t = time.time()
            print('  mbqi', mbqi, s.check(), round(time.time() - t, 1))
sys.stdout.flush(); os._exit(0)
