#!/bin/sh
# usage: tools/confirm_seeded.sh <PID> <A|B> <srcdir>
# Confirms a candidate breaking change in a scratch git worktree of /repo's PINNED commit+fixes (HEAD):
#   demo passes on the unchanged tree, the patch applies, the test-suite still passes 449, demo fails.
# On success installs /verif/seeded/<PID>_<X>/{patch.diff,demo.py,meta.json,notes.md}.
PID="$1"; X="$2"; SRC="$3"
WT=$(mktemp -d /tmp/wt_confirm.XXXXXX); rmdir "$WT"
git -C /repo worktree add -q --detach "$WT" HEAD || exit 9
cd "$WT"
cp "$SRC/demo_$X.py" demo.py
BASE=$(timeout 600 /venv/bin/python -W ignore demo.py >/dev/null 2>&1; echo $?)
if ! git apply "$SRC/change$X.diff"; then echo "$PID $X: patch does not apply"; cd /; git -C /repo worktree remove --force "$WT"; exit 1; fi
TESTS=$(timeout 900 /venv/bin/python -m pytest -q -p no:cacheprovider --continue-on-collection-errors 2>&1 | tail -1)
MUT=$(timeout 600 /venv/bin/python -W ignore demo.py >/dev/null 2>&1; echo $?)
git checkout -q -- slimta
cd /
git -C /repo worktree remove --force "$WT"
echo "$PID $X: demo_on_unchanged=$BASE tests_with_change='$TESTS' demo_with_change=$MUT"
case "$TESTS" in *"449 passed"*) ;; *) echo "  REJECT (tests)"; exit 1;; esac
if [ "$BASE" != 0 ] || [ "$MUT" = 0 ]; then echo "  REJECT (demo)"; exit 1; fi
D=/verif/seeded/${PID}_$X; mkdir -p "$D"
cp "$SRC/change$X.diff" "$D/patch.diff"; cp "$SRC/demo_$X.py" "$D/demo.py"; cp "$SRC/notes.md" "$D/notes.md"
python3 - "$PID" "$X" "$TESTS" "$BASE" "$MUT" "$D" <<'PY'
import json,sys
pid,x,tests,base,mut,d=sys.argv[1:]
json.dump({"property":pid,"variant":x,"source":"independent sub-agent given only the property text and a scratch worktree",
 "needs_to_manifest":"see notes.md (section for change %s)"%x,
 "confirmed":{"worktree":"scratch git worktree of /repo HEAD under /tmp (removed afterwards)",
   "demo_exit_on_unchanged_tree":int(base),"test_suite_tail_with_change":tests,"demo_exit_with_change":int(mut),
   "commands":["git apply patch.diff","/venv/bin/python -m pytest -q -p no:cacheprovider --continue-on-collection-errors","/venv/bin/python demo.py"]}},
 open(d+"/meta.json","w"),indent=1)
PY
echo "  KEPT -> $D"
