"""usage: python3-vt tools/prof.py <FunctionKey> [...]  -- per-obligation times, slowest first"""
import sys, os, time
sys.path.insert(0, '/verif')
sys.setrecursionlimit(10000)
from pyvc import driver
driver.load_contracts()
t0 = time.time()
out = driver.run_functions(sys.argv[1:], 'quick')
print('wall', round(time.time() - t0, 1))
rows = []
for f in out:
    if f['status'] != 'ok': print('FUNCTION', f['key'], f['status'], (f['reason'] or '')[-300:])
    for ob in f['obligations']:
        rows.append((ob.get('time', 0) or 0, f['key'], ob['name'] if 'name' in ob else ob.get('label'), ob['status'], ob.get('backend')))
rows.sort(reverse=True)
print('total solver', round(sum(r[0] for r in rows), 1), 'n', len(rows))
for r in rows[:40]:
    print('%.1f %s %s %s %s' % r)
import collections
agg = collections.Counter()
for r in rows:
    agg[(r[1], (r[2] or '').split('@')[0])] += r[0]
print('--- by label')
for k, v in agg.most_common(25):
    print(round(v, 1), k)
sys.stdout.flush(); os._exit(0)
