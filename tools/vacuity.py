"""usage: python3-vt tools/vacuity.py [FunctionKey ...]      (no key: every repository function under contract)
Path-level vacuity audit, see pyvc/audit.py."""
import sys, os, multiprocessing
sys.path.insert(0, os.path.join(os.path.dirname(os.path.abspath(__file__)), '..')); sys.setrecursionlimit(10000)
from pyvc import driver, audit, registry as R
driver.load_contracts()


def run(key):
    try:
        closed, n, unk = audit.audit(key)
    except Exception as e:
        return ['%s: exploration failed %s' % (key, e)]
    allow = audit.load_allow()
    out = ['VACUOUS%s %s %s line %s: closed by %s' % (' (allowed)' if audit.allowed(allow, k, l, h) else '', k, l, ln, h)
           for (k, l, ln, h) in closed]
    out.append('%s: %d paths audited, %d closed, %d undetermined (solver unknown)' % (key, n, len(closed), unk))
    return out


if __name__ == '__main__':
    keys = sys.argv[1:] or [k for k, c in R.CONTRACTS.items() if c.kind == 'repo' and c.verify]
    ctx = multiprocessing.get_context('fork')
    with ctx.Pool(14) as pool:
        for lines in pool.imap_unordered(run, keys, chunksize=1):
            print('\n'.join(lines)); sys.stdout.flush()
    os._exit(0)
