"""usage: python3-vt tools/vacuity.py [FunctionKey ...]      (no key: every repository function under contract)
Path-level vacuity audit.  Along one path the path condition only grows, so a path is audited through its LAST
obligation with a goal that is not literally False: if that path condition is satisfiable nothing on the path was
proved vacuously.  If it is unsatisfiable the first obligation with an unsat path condition is located and
printed with the hypothesis that closes the path -- legitimate when the path is really dead (a callee that never
returns normally, a branch excluded by an earlier fact), a bug of the engine or of a contract otherwise."""
import sys, os, multiprocessing
sys.path.insert(0, '/verif'); sys.setrecursionlimit(10000)
import z3
from pyvc import driver, verify, registry as R
driver.load_contracts()


def feas(pc, to=6000):
    s = z3.Solver(); s.set('timeout', to)
    for p in pc: s.add(p)
    return s.check()


def audit(key):
    out = []
    try:
        res = verify.verify_function(key, keep_terms=True, discharge=False)
    except Exception as e:
        return ['%s: exploration failed %s' % (key, e)]
    bypath = {}
    for ob in res.raw or []:
        if z3.is_false(ob.goal) or ob.status == 'trivial':
            continue
        bypath.setdefault(ob.path, []).append(ob)
    nvac = nunk = 0
    for path, obs in bypath.items():
        r = feas(obs[-1].pc)
        if r == z3.sat:
            continue
        if r == z3.unknown:
            nunk += 1
            continue
        lo, hi = 0, len(obs) - 1
        while lo < hi:
            mid = (lo + hi) // 2
            if feas(obs[mid].pc) == z3.unsat: hi = mid
            else: lo = mid + 1
        ob = obs[lo]
        a, b = 0, len(ob.pc)
        while a < b:
            mid = (a + b) // 2
            if feas(ob.pc[:mid + 1]) == z3.unsat: b = mid
            else: a = mid + 1
        nvac += 1
        out.append('VACUOUS %s %s line %s path %s: pc[%d] closes it: %s'
                   % (key, ob.label, ob.lineno, path, a, str(ob.pc[a])[:300].replace('\n', ' ')))
    out.append('%s: %d paths audited, %d closed, %d undetermined (solver unknown)' % (key, len(bypath), nvac, nunk))
    return out


if __name__ == '__main__':
    keys = sys.argv[1:] or [k for k, c in R.CONTRACTS.items() if c.kind == 'repo' and c.verify]
    ctx = multiprocessing.get_context('fork')
    with ctx.Pool(14) as pool:
        for lines in pool.imap_unordered(audit, keys, chunksize=1):
            print('\n'.join(lines)); sys.stdout.flush()
    os._exit(0)
