"""Runs every native witness of known_findings.json against the current tree ($1, default /repo) and, when a
worktree of the pinned tree is available ($2), against that: fixed entries must reproduce (exit 1) on the pinned tree
and not on the current one, open entries must reproduce on both."""
import json, os, subprocess, sys
HERE = os.path.dirname(os.path.dirname(os.path.abspath(__file__)))
cur = sys.argv[1] if len(sys.argv) > 1 else '/repo'
pinned = sys.argv[2] if len(sys.argv) > 2 else None
bad = 0
seen = set()
for k in json.load(open(os.path.join(HERE, 'known_findings.json'))):
    r = k.get('replay')
    if not r or r in seen:
        continue
    seen.add(r)
    res = []
    for tree in ([pinned] if pinned else []) + [cur]:
        env = dict(os.environ, PYTHONPATH=tree + os.pathsep + HERE, PYVC_REPO=tree)
        try:
            p = subprocess.run(['/venv/bin/python', '-W', 'ignore', os.path.join(HERE, r)], capture_output=True, text=True,
                               timeout=120, env=env, cwd=tree)
            res.append(p.returncode)
        except Exception:
            res.append('ERR')
    exp = ([1] if pinned else []) + [0 if k['status'] == 'fixed' else 1]
    ok = res == exp
    bad += 0 if ok else 1
    print('%s %-6s %-58s %s' % ('OK ' if ok else 'BAD', k['status'], r, res))
sys.exit(1 if bad else 0)
