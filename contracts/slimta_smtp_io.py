"""Contracts for slimta/smtp/io.py: C17 (reply parser over a ghost byte stream, exact consumption, malformed
input), C09 (line buffering for commands)."""
import z3
from pyvc.registry import klass, extern, contract, predicate, assume_note, global_object, bounded
from pyvc import types as T
from pyvc.core import Val, SeqV, Undecided
from pyvc import exec as E, builtins as B, calls

M = 'slimta/smtp/io.py'

# G1: everything the peer will ever send is the ghost `stream`; stream[consumed:fetched] is what has been
# received but not yet parsed (== recv_buffer)
klass('IO', module=M, ghost={'stream': 'Bytes', 'consumed': 'Int', 'fetched': 'Int'})
predicate('INV_IO(io)', 'io != None and 0 <= io.consumed and io.consumed <= io.fetched and io.fetched <= len(io.stream) '
                        'and io.recv_buffer == substr(io.stream, io.consumed, io.fetched - io.consumed)')

extern('IO.buffered_recv', params={'self': 'IO'}, yields=True,
       requires=['in_timeout_scope()'],
       modifies=['self.recv_buffer', 'self.fetched'],
       ensures=['self.fetched > old(self.fetched)', 'self.fetched <= len(self.stream)',
                'self.recv_buffer == old(self.recv_buffer) + substr(self.stream, old(self.fetched), self.fetched - old(self.fetched))'],
       raises={'ConnectionLost': ['self.fetched == old(self.fetched)', 'self.recv_buffer == old(self.recv_buffer)'],
               'Timeout': ['self.fetched == old(self.fetched)', 'self.recv_buffer == old(self.recv_buffer)'],
               'OSError': ['self.fetched == old(self.fetched)', 'self.recv_buffer == old(self.recv_buffer)']},
       notes='IO.buffered_recv (raw_recv + append): receives an ARBITRARY non-empty next piece of the stream (G1), '
             'ConnectionLost at the end of the stream')

# ---- regex contracts (assumed; compared with the real compiled patterns by bounded/regex_contracts.py)
klass('ReplyLinePattern')
klass('LinePattern')
klass('RMatch', fields={'g1': 'Bytes', 'g2': 'Bytes', 'g3': 'Bytes', 'g4': 'Bytes', 'e0': 'Int'})
global_object('reply_line_pattern', 'ReplyLinePattern')
global_object('line_pattern', 'LinePattern')
predicate('strip_one_cr(b)', 'ite(str_suffix(b, b"\\r"), substr(b, 0, len(b) - 1), b)')
predicate('is_digit(c)', 'c == b"0" or c == b"1" or c == b"2" or c == b"3" or c == b"4" or c == b"5" or c == b"6" '
                         'or c == b"7" or c == b"8" or c == b"9"')
predicate('reply_line_at(s, p)',
          'str_index(s, b"\\n", p) >= p + 4 and is_digit(substr(s, p, 1)) and is_digit(substr(s, p + 1, 1)) '
          'and is_digit(substr(s, p + 2, 1)) and (substr(s, p + 3, 1) == b" " or substr(s, p + 3, 1) == b"\\t" '
          'or substr(s, p + 3, 1) == b"-")')
extern('ReplyLinePattern.match', params={'self': 'ReplyLinePattern', 's': 'Bytes', 'pos': 'Int'},
       defaults={'pos': '0'}, returns='Opt[RMatch]',
       requires=['0 <= pos and pos <= len(s)'],
       ensures=['(result != None) == reply_line_at(s, pos)',
                'implies(result != None, fresh(result) and result.e0 == str_index(s, b"\\n", pos) + 1 '
                '   and result.g2 == substr(s, pos, 3) and result.g3 == substr(s, pos + 3, 1) '
                '   and result.g4 == strip_one_cr(substr(s, pos + 4, str_index(s, b"\\n", pos) - pos - 4)) '
                '   and result.g1 == result.g2 + result.g3 + result.g4)'],
       notes='reply_line_pattern ((\\d\\d\\d)([ \\t-])(.*?))\\r?\\n  .match(s, pos): semantic contract, validated bounded')
extern('LinePattern.match', params={'self': 'LinePattern', 's': 'Bytes', 'pos': 'Int'},
       defaults={'pos': '0'}, returns='Opt[RMatch]',
       requires=['0 <= pos and pos <= len(s)'],
       ensures=['(result != None) == (str_index(s, b"\\n", pos) >= 0)',
                'implies(result != None, fresh(result) and result.e0 == str_index(s, b"\\n", pos) + 1 '
                '   and result.g1 == strip_one_cr(substr(s, pos, str_index(s, b"\\n", pos) - pos)))'],
       notes='line_pattern (.*?)\\r?\\n  .match(s, pos): semantic contract, validated bounded')


def _rmatch_group(st, args, kw):
    m, n = args
    c = z3.simplify(n.z)
    if not z3.is_int_value(c):
        raise Undecided('match.group(symbolic)')
    return st.read_field(m.z, 'RMatch', 'g%d' % c.as_long())


def _rmatch_end(st, args, kw):
    m = args[0]
    return st.read_field(m.z, 'RMatch', 'e0')


extern('RMatch.group', model=_rmatch_group)
extern('RMatch.end', model=_rmatch_end)
klass('BadReply', ['SmtpError'])
extern('BadReply.__init__', params={'self': 'BadReply', 'data': 'Bytes'})

contract('IO.recv_reply', module=M, props=['C17', 'C10'],
         params={'self': 'IO'}, returns='Tuple[Str, Str]',
         requires=['INV_IO(self)', 'in_timeout_scope()'],
         ghost_entry=['_gcodes = [b""][0:0]', '_gseps = [b""][0:0]'],
         ghost_after={
             'message_lines.append(match.group(4))': ['_gcodes.append(match.group(2))', '_gseps.append(match.group(3))'],
             'self.recv_buffer = input[match.end(0):]': ['self.consumed = self.fetched - len(self.recv_buffer)']},
         ensures=[
             # buffer bookkeeping: exactly the parsed lines are consumed, a pipelined successor stays in the buffer
             'INV_IO(self)', 'self.consumed > old(self.consumed)'],
         checks=[
             # one reply: every line carries the same three-digit code; all lines but the last are continuation
             # lines ("-"), the last one is not; the returned code is that code
             'len(_gcodes) >= 1 and len(_gcodes) == len(_gseps)',
             'forall(_gcodes, lambda c: c == _gcodes[0])',
             'forall(range(0, len(_gseps) - 1), lambda j: _gseps[j] == b"-")',
             '_gseps[len(_gseps) - 1] != b"-"',
             'result[0] == py_decode(_gcodes[0])'],
         raises={'BadReply': ['INV_IO(self)'], 'ConnectionLost': ['INV_IO(self)'], 'Timeout': ['INV_IO(self)'],
                 'OSError': ['INV_IO(self)'], 'AssertionError': []},
         locals={'message_lines': 'List[Bytes]', 'body': 'Opt[Bytes]', 'code': 'Opt[Bytes]', 'start_i': 'Opt[Int]'},
         modifies=['self.recv_buffer', 'self.fetched', 'self.consumed', 'fresh'],
         loops={0: dict(modifies=['self.recv_buffer', 'self.fetched', 'self.consumed', 'fresh'],
                        inv=['INV_IO(self)', 'implies(incomplete, input == self.recv_buffer)', 'self.consumed >= old(self.consumed)',
                             'message_lines != None and fresh(message_lines) and is_list(message_lines)',
                             '_gcodes != None and _gseps != None and fresh(_gcodes) and fresh(_gseps) and is_list(_gcodes) and is_list(_gseps) and _gcodes is not _gseps '
                             'and _gcodes is not message_lines and _gseps is not message_lines',
                             'len(_gcodes) == len(message_lines) and len(_gseps) == len(message_lines)',
                             'implies(code is None, len(message_lines) == 0)',
                             'implies(code is not None, len(message_lines) >= 1 and forall(_gcodes, lambda c: c == cast(code, Bytes)) '
                             '        and len(cast(code, Bytes)) == 3)',
                             'implies(incomplete, forall(_gseps, lambda x: x == b"-"))',
                             'implies(not incomplete, len(_gseps) >= 1 and _gseps[len(_gseps) - 1] != b"-" '
                             '        and forall(range(0, len(_gseps) - 1), lambda j: _gseps[j] == b"-") '
                             '        and self.consumed > old(self.consumed) and body is not None)',
                             'implies(len(message_lines) >= 1, self.consumed > old(self.consumed))']),
                1: dict(modifies=['self.recv_buffer', 'self.consumed', 'fresh'],
                        inv=['self != None and 0 <= self.consumed and self.consumed <= self.fetched and self.fetched <= len(self.stream)',
                             'self.consumed >= old(self.consumed)',
                             # the scan position start_i in `input` corresponds to `consumed` in the stream
                             'substr(self.stream, self.fetched - len(input), len(input)) == input and len(input) <= self.fetched',
                             'implies(start_i is not None, 0 <= cast(start_i, Int) and cast(start_i, Int) <= len(input) '
                             '        and self.consumed == self.fetched - len(input) + cast(start_i, Int) '
                             '        and self.recv_buffer == substr(input, cast(start_i, Int), len(input) - cast(start_i, Int)))',
                             'implies(start_i is None, INV_IO(self))',
                             'message_lines != None and fresh(message_lines) and is_list(message_lines)',
                             '_gcodes != None and _gseps != None and fresh(_gcodes) and fresh(_gseps) and is_list(_gcodes) and is_list(_gseps) and _gcodes is not _gseps '
                             'and _gcodes is not message_lines and _gseps is not message_lines',
                             'len(_gcodes) == len(message_lines) and len(_gseps) == len(message_lines)',
                             'implies(code is None, len(message_lines) == 0)',
                             'implies(code is not None, len(message_lines) >= 1 and forall(_gcodes, lambda c: c == cast(code, Bytes)) '
                             '        and len(cast(code, Bytes)) == 3)',
                             'implies(incomplete, forall(_gseps, lambda x: x == b"-"))',
                             'implies(not incomplete, start_i is None and len(_gseps) >= 1 and _gseps[len(_gseps) - 1] != b"-" '
                             '        and forall(range(0, len(_gseps) - 1), lambda j: _gseps[j] == b"-"))',
                             'implies(len(message_lines) >= 1, self.consumed > old(self.consumed))'],
                        modifies_extra=['contents(message_lines)', 'contents(_gcodes)', 'contents(_gseps)'])})

bounded(['C17', 'C09', 'C05', 'C10'], 'bounded/regex_contracts.py',
        'assumed semantic contracts of io.reply_line_pattern / line_pattern (at positions), datareader.fullline_pattern '
        'and eod_pattern compared with the real compiled patterns (all strings <= 6 over small alphabets)')

# ---------------------------------------------------------------------------- IO.recv_line (C09: command path)
# Whatever the segmentation (buffered_recv delivers an arbitrary next piece), recv_line returns the next LF-terminated
# line of the not-yet-consumed stream without its terminator, consumes exactly that line, and leaves every later byte
# (a pipelined successor) in recv_buffer: the result is a function of the stream, not of how it was cut.
contract('IO.recv_line#stream', qual='IO.recv_line', module=M, props=['C09', 'C17'],
         params={'self': 'IO'}, returns='Bytes',
         requires=['INV_IO(self)', 'in_timeout_scope()'],
         ghost_after={'self.recv_buffer = input[match.end(0):]': ['self.consumed = self.fetched - len(self.recv_buffer)']},
         ensures=['INV_IO(self)',
                  # the line starts where consumption stood and ends at the FIRST LF after that point
                  'str_index(self.stream, b"\\n", old(self.consumed)) >= old(self.consumed)',
                  'self.consumed == str_index(self.stream, b"\\n", old(self.consumed)) + 1',
                  'result == strip_one_cr(substr(self.stream, old(self.consumed), self.consumed - 1 - old(self.consumed)))'],
         raises={'ConnectionLost': ['INV_IO(self)', 'self.consumed == old(self.consumed)'],
                 'Timeout': ['INV_IO(self)', 'self.consumed == old(self.consumed)'],
                 'OSError': ['INV_IO(self)', 'self.consumed == old(self.consumed)']},
         modifies=['self.recv_buffer', 'self.fetched', 'self.consumed', 'fresh'],
         loops={0: dict(modifies=['self.recv_buffer', 'self.fetched', 'fresh'],
                        inv=['INV_IO(self)', 'self.consumed == old(self.consumed)',
                             # nothing that was scanned and rejected contained a LF
                             'self.fetched >= old(self.fetched)'])})

# ---------------------------------------------------------------------------- IO.send_reply (C17: write side)
# What is put on the wire for a reply: one line per line of the message, every line prefixed with the SAME three-
# character code, "-" after the code on every line but the last, " " on the last -- the shape recv_reply accepts as
# ONE reply with that code (its contract above).  The full text round trip is not claimed (utf-8 / line-break
# normalisation and Reply.message's enhanced-status-code splicing are string reasoning beyond both solvers).
klass('BytesIO', ghost={'buf': 'Bytes'})
extern('BytesIO.__init__', params={'self': 'BytesIO'}, modifies=['self.buf'], ensures=['self.buf == b""'])
extern('BytesIO.write', params={'self': 'BytesIO', 'b': 'Bytes'}, returns='Int', modifies=['self.buf'],
       ensures=['self.buf == old(self.buf) + b'])
extern('BytesIO.getvalue', params={'self': 'BytesIO'}, returns='Bytes', pure=True, reads=['self.buf'],
       ensures=['result == self.buf'])
extern('IO.buffered_send', params={'self': 'IO', 'data': 'Bytes'}, returns='None',
       notes='IO.buffered_send: appends to the send buffer (a BytesIO)')
klass('WMatch', fields={'g1': 'Bytes', 'e0': 'Int'})
extern('LinePattern.finditer', params={'self': 'LinePattern', 's': 'Bytes'}, returns='List[WMatch]',
       ensures=['result != None', 'fresh(result)', 'is_list(result)', 'forall(result, lambda m: m != None and allocated(m))',
                # a string that ends with LF is tiled by its lines: at least one match
                'implies(str_suffix(s, b"\\n"), len(result) >= 1)'],
       notes="re.compile(br'(.*?)\\\\r?\\\\n').finditer(s): the successive LF-terminated lines of s, group(1) = the line "
             "without its (CR)LF; validated by the bounded regex stand-in")
extern('WMatch.group', params={'self': 'WMatch', 'n': 'Int'}, returns='Bytes', pure=True, reads=['self.g1'],
       requires=['n == 1'], ensures=['result == self.g1'])
klass('Reply', fields={'message': 'Opt[Str]'})
extern('str.encode#m', params={})

contract('IO.send_reply#wire', qual='IO.send_reply', module=M, props=['C17'],
         params={'self': 'IO', 'reply': 'Reply'}, returns='None',
         requires=['reply != None', 'reply.code is not None', 'reply.message is not None'],
         ghost_entry=['_gn = 0'],
         checks=[
             # exactly one write per line; what is handed to buffered_send is the concatenation of the lines
             'ncalls("IO.buffered_send") == 1',
             'len(lines) >= 1',
             'call_arg("IO.buffered_send", 0, 1) == to_send.buf',
             # shape of the wire form: code + "-" + line + CRLF for every line but the last, code + " " + last + CRLF
             '_gwire == to_send.buf'],
         raises={'UnicodeEncodeError': []},
         modifies=['fresh'],
         locals={'lines': 'List[Bytes]', 'to_send': 'BytesIO'},
         loops={0: dict(modifies=['contents(lines)', 'new'],
                        inv=['lines != None and fresh(lines) and is_list(lines) and len(lines) == _k']),
                1: dict(modifies=['to_send.buf', 'new'],
                        inv=['to_send != None and fresh(to_send)', 'lines != None and len(lines) >= 1',
                             '_gwire == to_send.buf',
                             # every line written so far starts with the code followed by "-"
                             'len(_gwire) >= _k * (len(code) + 3)'])},
         ghost_after={'to_send = BytesIO()': ['_gwire = b""'],
                      "to_send.write(b''.join((code, b'-', line, b'\\r\\n')))": ['_gwire = _gwire + code + b"-" + line + b"\\r\\n"'],
                      "to_send.write(b''.join((code, b' ', lines[-1], b'\\r\\n')))": ['_gwire = _gwire + code + b" " + lines[len(lines) - 1] + b"\\r\\n"']})

bounded(['C17'], 'bounded/reply_roundtrip.py',
        'real Reply + IO.send_reply composed with real Reply.recv + IO.recv_reply: every generated reply (14 codes x 27 texts '
        'incl. Unicode, embedded CR/LF, ESC-looking prefixes, empty inner lines x 3 enhanced-status modes) is parsed back to '
        'the same code and CRLF-normalised text under 5 segmentations, sequences of 2 (thorough: 3) replies each consume '
        'exactly their own bytes, enhanced-status class == code class; malformed/short input over {2 5 - SP TAB x CR LF} up '
        'to length 5 (thorough: 6) ends as the reference parser says (reply / BadReply / ConnectionLost)')
