"""Contracts for slimta/relay/smtp/mx.py (C11): the MX relay ends every attempt with the chosen destination relay's
outcome or with a relay error -- a recipient without a domain and a domain without usable records are permanent
errors, a failed DNS lookup is a transient one, nothing else escapes; MX records are kept sorted by preference and a
non-empty list is all choose_mx ever sees.  (File name sorts after slimta_relay_smtp.py, whose classes it uses.)"""
import z3
from pyvc.registry import klass, extern, contract, predicate, assume_note, global_object
from pyvc import types as T

M = 'slimta/relay/smtp/mx.py'
T.alias('MxList', 'List[Tuple[Int, Str]]')
klass('DNSError', ['Exception'], fields={'errno': 'Int'})
klass('NoDomainError', ['PermanentRelayError'], module=M, fields={'recipient': 'Str'})
klass('MxRecord', module=M, fields={'domain': 'Str', '_records': 'MxList', '_expiration': 'Real'})
klass('StaticSmtpRelay', ['Relay'])
klass('MxSmtpRelay', ['Relay'], module=M,
      fields={'_mx_records': 'Dict[Str, MxRecord]', '_force_mx': 'Dict[Str, Tuple[Str, Int]]',
              '_relayers': 'Dict[Tuple[Str, Int], StaticSmtpRelay]'})

extern('MxRecord.__init__', params={'self': 'MxRecord', 'domain': 'Str'}, modifies=['self.domain', 'self._records', 'self._expiration'],
       ensures=['self.domain == domain', 'self._records == None'])
extern('MxRecord.expired', params={'self': 'MxRecord'}, returns='Bool', is_property=True,
       notes='MxRecord.expired: compares the stored expiration with time.time()')
extern('MxRecord._resolve', params={'self': 'MxRecord'}, returns='Tuple[MxList, Real]', yields=True,
       ensures=['implies(result[0] != None, fresh(result[0]) and is_list(result[0]))'],
       raises={'DNSError': []},
       notes='MxRecord._resolve: MX lookup with A-record fallback through pycares (assumed): a possibly empty or missing '
             'list of (preference, host) and an expiration time, or DNSError')
contract('MxRecord.get', module=M, props=['C11'], yields=True,
         params={'self': 'MxRecord'}, returns='MxList',
         # what the relay chooses from is never empty; "nothing usable" is its own error
         ensures=['result != None', 'len(result) >= 1', 'result is self._records'],
         raises={'ValueError': ['self._records == None or len(self._records) == 0'], 'DNSError': []},
         modifies=['self._records', 'self._expiration', 'fresh'])

contract('MxSmtpRelay.choose_mx', module=M, props=['C11'],
         params={'self': 'MxSmtpRelay', 'records': 'MxList', 'attempts': 'Int'}, returns='Str',
         requires=['records != None', 'len(records) >= 1', 'attempts >= 0'],
         # round robin over the records: always one of the given hosts
         ensures=['exists(range(0, len(records)), lambda i: result == records[i][1] and i == attempts % len(records))'],
         modifies=[])

contract('MxSmtpRelay._get_rcpt_domain', module=M, props=['C11'],
         params={'self': 'MxSmtpRelay', 'envelope': 'Envelope'}, returns='Str',
         requires=['envelope != None', 'envelope.recipients != None', 'len(envelope.recipients) >= 1'],
         # a recipient without a domain is a permanent failure carrying a reply
         raises={'NoDomainError': ['exc.reply != None']},
         modifies=['fresh'])
extern('NoDomainError.__init__', params={'self': 'NoDomainError', 'recipient': 'Str'}, modifies=['self.reply', 'self.recipient'],
       ensures=['self.reply != None'])

extern('StaticSmtpRelay.attempt', params={'self': 'StaticSmtpRelay', 'envelope': 'Envelope', 'attempts': 'Int'},
       returns='Any', yields=True, raises={'RelayError': ['exc.reply != None']},
       notes='RelayPool.attempt of the destination relay (under contract for C19 as RelayPool.attempt; its clients: '
             'SmtpRelayClient._run/_deliver): a result, or a relay error')
extern('MxSmtpRelay.new_static_relay', params={'self': 'MxSmtpRelay', 'destination': 'Str', 'port': 'Int'},
       returns='StaticSmtpRelay', ensures=['result != None', 'fresh(result)'],
       notes='MxSmtpRelay.new_static_relay: constructs a StaticSmtpRelay (no I/O)')
contract('MxSmtpRelay.attempt', module=M, props=['C11'], yields=True,
         params={'self': 'MxSmtpRelay', 'envelope': 'Envelope', 'attempts': 'Int'}, returns='Any',
         requires=['envelope != None', 'envelope.recipients != None', 'len(envelope.recipients) >= 1', 'attempts >= 0',
                   'self._mx_records != None', 'self._force_mx != None', 'self._relayers != None',
                   'dict_wf(self._mx_records)', 'dict_wf(self._relayers)', 'dict_wf(self._force_mx)',
                   'forall(Str, lambda d: implies(dict_has(self._mx_records, d), dict_get(self._mx_records, d) != None))',
                   'forall(Tuple[Str, Int], lambda k: implies(dict_has(self._relayers, k), dict_get(self._relayers, k) != None))'],
         # the outcome is the destination relay's outcome: exactly one attempt is made downstream, or none at all
         # when the destination cannot be determined -- and then the error is a relay error
         checks=['ncalls("StaticSmtpRelay.attempt") == 1', 'result == call_result("StaticSmtpRelay.attempt", 0)'],
         raises={'RelayError': ['exc.reply != None', 'ncalls("StaticSmtpRelay.attempt") <= 1']},
         modifies=['contents(self._mx_records)', 'contents(self._relayers)', 'any(MxRecord)._records',
                   'any(MxRecord)._expiration', 'fresh'])
