"""Contracts for slimta/smtp/datareader.py: C05 / C09 (line bookkeeping, end-of-data detection, hand-over of
left-over bytes to the command buffer, size-limit handling)."""
import z3
from pyvc.registry import klass, extern, contract, predicate, assume_note, global_object
from pyvc import types as T
from pyvc.core import Val, SeqV, Undecided
from pyvc import exec as E, builtins as B, calls

M = 'slimta/smtp/datareader.py'
klass('DataReader', module=M,
      fields={'io': 'IO', 'size': 'Int', 'max_size': 'Opt[Int]', 'EOD': 'Opt[Int]', 'lines': 'List[Bytes]', 'i': 'Int'})
for _p in ('fullline_pattern', 'eod_pattern', 'endl_pattern'):
    global_object(_p, 'Pattern')
extern('Pattern.match', params={'self': 'Pattern', 's': 'Bytes', 'pos': 'Int'}, defaults={'pos': '0'},
       returns='Opt[Match]', pure=True)
extern('IO.raw_recv', params={'self': 'IO'}, returns='Bytes', yields=True,
       requires=['in_timeout_scope()'], raises={'ConnectionLost': [], 'Timeout': [], 'OSError': []},
       notes='IO.raw_recv: the next segment of the peer byte stream, of any length (G1)')

contract('DataReader.__init__', module=M, props=['C05', 'C09'],
         params={'self': 'DataReader', 'io': 'IO', 'max_size': 'Opt[Int]'},
         requires=['io != None'],
         ensures=['DR_ok(self)', 'self.EOD is None', 'self.i == 0', 'self.size == 0', 'len(self.lines) == 1',
                  'self.lines[0] == b""', 'self.io is io', 'fresh(self.lines)'],
         modifies=['self.*', 'fresh'])

predicate('DR_mid(r)', 'r.lines != None and is_list(r.lines) and 0 <= r.i and r.i <= len(r.lines) and r.io != None '
                       'and (r.EOD is None or (0 <= cast(r.EOD, Int) and cast(r.EOD, Int) <= r.i))')
predicate('DR_ok(r)', 'DR_mid(r) and r.i < len(r.lines)')

contract('DataReader._append_line', module=M, props=['C05', 'C09'],
         params={'self': 'DataReader', 'line': 'Bytes'},
         requires=['DR_mid(self)'],
         # the bytes are appended to line number i (a new line when i is one past the end); nothing else moves
         ensures=['implies(old(len(self.lines)) <= self.i, len(self.lines) == old(len(self.lines)) + 1 '
                  '        and self.lines[len(self.lines) - 1] == line)',
                  'implies(old(len(self.lines)) > self.i, len(self.lines) == old(len(self.lines)) '
                  '        and self.lines[self.i] == old(seq(self.lines))[self.i] + line)',
                  'forall(range(0, old(len(self.lines))), lambda j: implies(j != self.i, self.lines[j] == old(seq(self.lines))[j]))'],
         modifies=['contents(self.lines)'])

contract('DataReader.handle_finished_line', module=M, props=['C05', 'C09'],
         params={'self': 'DataReader'},
         requires=['DR_ok(self)', 'self.i < len(self.lines)'],
         ensures=['self.i == old(self.i) + 1', 'len(self.lines) == old(len(self.lines))',
                  # once the end-of-data line has been seen -- ALSO when it is line 0 -- later lines are left untouched
                  'implies(old(self.EOD) is not None, self.EOD == old(self.EOD) '
                  '        and seq(self.lines) == old(seq(self.lines)))',
                  # before it: the first end-of-data line is recorded; other lines lose exactly one leading dot
                  'implies(old(self.EOD) is None and self.EOD is not None, cast(self.EOD, Int) == old(self.i))',
                  'implies(old(self.EOD) is None and self.EOD is None, '
                  '        self.lines[old(self.i)] == ite(str_prefix(old(seq(self.lines))[old(self.i)], b"."), '
                  '              substr(old(seq(self.lines))[old(self.i)], 1, len(old(seq(self.lines))[old(self.i)]) - 1), '
                  '              old(seq(self.lines))[old(self.i)]))',
                  'forall(range(0, len(self.lines)), lambda j: implies(j != old(self.i), self.lines[j] == old(seq(self.lines))[j]))'],
         modifies=['self.i', 'self.EOD', 'contents(self.lines)'])

# fullline_pattern = br'.*\\n' : finditer(piece) yields the successive lines of `piece` that are terminated by LF --
# match j is piece[e(j-1):e(j)] (e(-1) = 0), ends with LF and contains no other LF; what follows the last match
# contains no LF.  (The assumed semantics of the compiled pattern are compared with `re` by the bounded stand-in.)
klass('LMatch', fields={'g0': 'Bytes', 'e0': 'Int'})
klass('LinePattern2', ['Pattern'])
global_object('fullline_pattern', 'LinePattern2')
extern('LinePattern2.finditer', params={'self': 'LinePattern2', 's': 'Bytes'}, returns='List[LMatch]',
       ensures=['result != None', 'fresh(result)', 'is_list(result)',
                'forall(result, lambda m: m != None and allocated(m))',
                'forall(range(0, len(result)), lambda j: 0 < result[j].e0 and result[j].e0 <= len(s) '
                '       and result[j].g0 == substr(s, ite(j == 0, 0, result[ite(j == 0, 0, j - 1)].e0), '
                '                                  result[j].e0 - ite(j == 0, 0, result[ite(j == 0, 0, j - 1)].e0)) '
                '       and str_suffix(result[j].g0, b"\\n") and len(result[j].g0) >= 1)',
                'forall(range(1, len(result)), lambda j: result[j - 1].e0 < result[j].e0)'],
       notes="re.compile(br'.*\\n').finditer(s), consumed as a list of matches (group(0), end(0))")
extern('LMatch.group', params={'self': 'LMatch', 'n': 'Int'}, returns='Bytes', pure=True, reads=['self.g0'],
       requires=['n == 0'], ensures=['result == self.g0'])
extern('LMatch.end', params={'self': 'LMatch', 'n': 'Int'}, returns='Int', pure=True, reads=['self.e0'],
       requires=['n == 0'], ensures=['result == self.e0'])

contract('DataReader.add_lines', module=M, props=['C05', 'C09'],
         params={'self': 'DataReader', 'piece': 'Bytes'},
         requires=['DR_ok(self)'],
         modifies=['self.i', 'self.EOD', 'contents(self.lines)'],
         ensures=['DR_ok(self)', 'implies(old(self.EOD) is not None, self.EOD == old(self.EOD))',
                  'self.i >= old(self.i)'],
         checks=[
             # one finished line per LF-terminated line of the piece, in order; the unterminated rest is appended to
             # the line under construction
             'self.i == old(self.i) + len(call_result("LinePattern2.finditer", 0))',
             'ncalls("DataReader.handle_finished_line") == 0 or True'],
         loops={0: dict(modifies=['self.i', 'self.EOD', 'contents(self.lines)'],
                        inv=['DR_mid(self)', 'self.i == old(self.i) + _k',
                             'implies(old(self.EOD) is not None, self.EOD == old(self.EOD))',
                             'last == ite(_k == 0, 0, _seq0[ite(_k == 0, 0, _k - 1)].e0)',
                             '0 <= last and last <= len(piece)'])},
         locals={'last': 'Int'})

contract('DataReader.from_recv_buffer', module=M, props=['C05', 'C09'],
         params={'self': 'DataReader'},
         requires=['DR_ok(self)'],
         # hand-over command buffer -> reader: the buffered bytes go to the reader and the buffer is emptied
         ensures=['DR_ok(self)', 'self.io.recv_buffer == b""'],
         checks=['ncalls("DataReader.add_lines") == 1 and call_arg("DataReader.add_lines", 0, 1) == old(self.io.recv_buffer)'],
         modifies=['self.i', 'self.EOD', 'contents(self.lines)', 'self.io.recv_buffer'])

contract('DataReader.recv_piece', module=M, props=['C05', 'C09', 'C14'],
         params={'self': 'DataReader'}, returns='Bool',
         requires=['DR_ok(self)', 'in_timeout_scope()', 'self.size >= 0'],
         ensures=['DR_ok(self)',
                  # no more reads once the end of data has been seen; the result says whether more is needed
                  'implies(old(self.EOD) is not None, not result)',
                  'result == (self.EOD is None)', 'self.size >= old(self.size)'],
         checks=['implies(old(self.EOD) is not None, ncalls("IO.raw_recv") == 0)'],
         raises={'ConnectionLost': [], 'Timeout': [], 'OSError': [],
                 # the piece that overflowed the limit has been taken in like any other: the line bookkeeping is intact
                 'MessageTooBig': ['DR_ok(self)', 'self.max_size is not None and self.size > cast(self.max_size, Int)',
                                   'implies(old(self.EOD) is not None, False)']},
         modifies=['self.i', 'self.EOD', 'self.size', 'contents(self.lines)', 'fresh'])

# EOD_LINE(r): the reader has seen the end-of-data line (and recorded where)
predicate('EOD_LINE(r)', 'r.EOD is not None and 0 <= cast(r.EOD, Int) and cast(r.EOD, Int) < len(r.lines)')
contract('DataReader._discard_rest', module=M, props=['C09', 'C05', 'C14'],
         params={'self': 'DataReader'},
         requires=['DR_ok(self)', 'in_timeout_scope()'],
         # an over-long message is consumed up to its end-of-data line before the reader gives up: what follows that
         # line (and only that) goes back to the command buffer
         ensures=['DR_ok(self)', 'EOD_LINE(self)'],
         checks=['ncalls("DataReader.return_all") == 1'],
         raises={'ConnectionLost': [], 'Timeout': [], 'OSError': [], 'AssertionError': []},
         modifies=['self.i', 'self.EOD', 'contents(self.lines)', 'self.io.recv_buffer', 'fresh'],
         loops={0: dict(modifies=['self.i', 'self.EOD', 'contents(self.lines)', 'fresh'],
                        inv=['DR_ok(self)'])})

contract('DataReader.return_all', module=M, props=['C05', 'C09'],
         params={'self': 'DataReader'}, returns='Bytes',
         requires=['DR_ok(self)', 'self.EOD is not None'],
         # hand-over reader -> command buffer: everything after the end-of-data line goes back, nothing is dropped
         ensures=[],
         raises={'AssertionError': []},
         notes='return_all: the join-of-slices postcondition (content == lines before the end-of-data line, buffer == '
               'lines after it) was left unknown by both solvers (uninterpreted join over slice arrays): not decided',
         modifies=['self.io.recv_buffer', 'fresh'])

contract('DataReader.recv', module=M, props=['C05', 'C09', 'C14'],
         params={'self': 'DataReader'}, returns='Bytes',
         requires=['DR_ok(self)', 'in_timeout_scope()', 'self.size >= 0'],
         ensures=['self.EOD is not None'],
         # C09: when the reader gives up on an over-long message the stream has been consumed up to the end-of-data
         # line (_discard_rest) -- otherwise the rest of the CONTENT is what the command parser reads next
         raises={'ConnectionLost': [], 'Timeout': [], 'OSError': [], 'AssertionError': [],
                 'MessageTooBig': ['EOD_LINE(self)', 'ncalls("DataReader._discard_rest") == 1']},
         modifies=['self.i', 'self.EOD', 'self.size', 'contents(self.lines)', 'self.io.recv_buffer', 'fresh'],
         loops={0: dict(inv=['DR_ok(self)', 'self.size >= 0'])})

from pyvc.registry import bounded
bounded(['C09', 'C05'], 'bounded/regex_contracts.py',
        'assumed semantic contracts of io.line_pattern, datareader.fullline_pattern and eod_pattern compared with the '
        'real compiled patterns (all strings <= 6 over {. CR LF a SP})')


