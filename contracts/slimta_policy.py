"""Contracts for slimta/policy/split.py, forward.py, headers.py and Envelope.prepend_header: C16."""
import z3
from pyvc.registry import klass, extern, contract, predicate, assume_note, global_object
from pyvc import types as T
from pyvc.core import Val, SeqV, Undecided
from pyvc import exec as E, builtins as B, calls
from pyvc import registry as R

MS = 'slimta/policy/split.py'
MF = 'slimta/policy/forward.py'
MH = 'slimta/policy/headers.py'
ME = 'slimta/envelope/__init__.py'

klass('Message', fields={'_headers': 'List[Tuple[Str, Str]]'}, ghost={'hstate': 'Int'})
klass('Envelope', fields={'headers': 'Message', 'timestamp': 'Any', 'receiver': 'Any'})


def _envelope_copy(st, args, kw):
    """Envelope.copy(new_rcpts=None): copy.deepcopy(self) -- assumed contract of deepcopy: a new object graph,
    structurally equal, sharing NO mutable object with the original (fresh recipients list, fresh headers
    object, fresh client dict); then, when new_rcpts is truthy, `recipients` IS the argument object."""
    self_v = args[0]
    new_rcpts = args[1] if len(args) > 1 else kw.get('new_rcpts')
    E.check_or_raise(st, self_v.z != 0, 'AttributeError')
    ref = st.new_ref('Envelope')
    res = Val(T.TRef('Envelope'), ref)
    st.write_field(ref, 'Envelope', 'sender', st.read_field(self_v.z, 'Envelope', 'sender'))
    old_r = st.read_field(self_v.z, 'Envelope', 'recipients')
    et = old_r.t.args[0]
    cp = st.new_ref('list')
    st.list_store(cp, et, st.list_seq(old_r.z, et))
    st.write_field(ref, 'Envelope', 'recipients', Val(old_r.t, cp))
    hd = st.new_ref('Message')
    st.write_field(ref, 'Envelope', 'headers', Val(T.TRef('Message'), hd))
    cl = st.new_ref('dict')
    st.write_field(ref, 'Envelope', 'client', Val(T.parse_type('Dict[Str, Any]'), cl))
    for f in ('timestamp', 'receiver'):
        st.write_field(ref, 'Envelope', f, st.read_field(self_v.z, 'Envelope', f))
    if new_rcpts is not None and new_rcpts.t.kind != 'none':
        if st.branch(E.truthy(st, new_rcpts)):
            st.write_field(ref, 'Envelope', 'recipients', st.coerce(new_rcpts, old_r.t))
    return res


extern('Envelope.copy', model=_envelope_copy,
       notes='Envelope.copy: deepcopy contract (fresh object graph, equal values, nothing mutable shared); '
             'recipients replaced by the argument object when truthy')


def _copy_copy(st, args, kw):
    """copy.copy(x): SHALLOW copy -- a new object whose fields hold the same references."""
    v = args[0]
    if v.t.kind != 'ref':
        raise Undecided('copy.copy of %r' % (v.t,))
    ref = st.new_ref(v.t.name)
    seen = set()
    for cn in R.mro(v.t.name):
        ci = R.CLASSES.get(cn)
        if ci is None:
            continue
        for f in ci.fields:
            if f in seen:
                continue
            seen.add(f)
            st.write_field(ref, v.t.name, f, st.read_field(v.z, v.t.name, f))
    return Val(v.t, ref)


extern('copy.copy', model=_copy_copy, notes='copy.copy: shallow copy (same field references)')

klass('RecipientSplit', ['QueuePolicy'], module=MS)
klass('RecipientDomainSplit', ['QueuePolicy'], module=MS)

SPLIT_ENV = ('e != None and fresh(e) and e.sender == envelope.sender and e.recipients != None '
             'and fresh(e.recipients) and is_list(e.recipients) and e.headers != None and fresh(e.headers) '
             'and e.headers is not envelope.headers')

contract('RecipientSplit.apply', module=MS, props=['C16'],
         params={'self': 'RecipientSplit', 'envelope': 'Envelope'}, returns='Opt[List[Envelope]]',
         requires=['envelope != None', 'envelope.recipients != None', 'envelope.headers != None', 'allocated(envelope.headers)'],
         ensures=['(result == None) == (len(envelope.recipients) <= 1)',
                  # one envelope per recipient, in order, each carrying exactly that recipient
                  'implies(result != None, fresh(result) and len(result) == len(envelope.recipients) '
                  '   and forall(range(0, len(result)), lambda k: len(result[k].recipients) == 1 '
                  '             and result[k].recipients[0] == envelope.recipients[k]))',
                  # same sender; no mutable state shared with the original or with each other
                  'implies(result != None, forall(result, lambda e: ' + SPLIT_ENV + '))',
                  'implies(result != None, forall(pairs(len(result)), lambda a, b: result[a] is not result[b] '
                  '   and result[a].recipients is not result[b].recipients and result[a].headers is not result[b].headers))',
                  'seq(envelope.recipients) == old(seq(envelope.recipients))'],
         modifies=['fresh'], locals={'ret': 'List[Envelope]'},
         loops={0: dict(modifies=['fresh'],
                        inv=['ret != None and fresh(ret) and is_list(ret) and len(ret) == _k',
                             'forall(range(0, _k), lambda k: len(ret[k].recipients) == 1 and ret[k].recipients[0] == envelope.recipients[k])',
                             'forall(ret, lambda e: ' + SPLIT_ENV + ')',
                             'forall(pairs(len(ret)), lambda a, b: ret[a] is not ret[b] '
                             '   and ret[a].recipients is not ret[b].recipients and ret[a].headers is not ret[b].headers)'])})

contract('RecipientDomainSplit._append_envelope_copy', module=MS, props=['C16'],
         params={'self': 'RecipientDomainSplit', 'envelope': 'Envelope', 'copies': 'List[Envelope]', 'rcpts': 'List[Str]'},
         requires=['envelope != None', 'envelope.recipients != None', 'copies != None', 'is_list(copies)',
                   'rcpts != None', 'len(rcpts) >= 1', 'envelope.headers != None', 'allocated(envelope.headers)'],
         ensures=['len(copies) == old(len(copies)) + 1',
                  'forall(range(0, old(len(copies))), lambda j: copies[j] is old(seq(copies))[j])',
                  # the new envelope: same sender, exactly the given recipients, nothing mutable shared
                  'let(copies[len(copies) - 1], lambda e: ' + SPLIT_ENV.replace('fresh(e.recipients) and is_list(e.recipients)', 'e.recipients is rcpts') + ')'],
         modifies=['contents(copies)', 'fresh'])

extern('str.rsplit', params={})


def _rsplit(st, recv, args, kw):
    """s.rsplit(sep, 1): [s] if sep does not occur, else [before the LAST sep, after it]."""
    sep = args[0]
    s = recv.z
    has = z3.Contains(s, sep.z)
    idx = z3.LastIndexOf(s, sep.z)
    ref = st.new_ref('list')
    if st.branch(has):
        a = z3.SubString(s, 0, idx)
        b = z3.SubString(s, idx + z3.Length(sep.z), z3.Length(s) - idx - z3.Length(sep.z))
        st.list_store(ref, recv.t, B.seq_literal(st, [Val(recv.t, a), Val(recv.t, b)], recv.t))
    else:
        st.list_store(ref, recv.t, B.seq_literal(st, [recv], recv.t))
    return Val(T.TList(recv.t), ref)


calls.METHOD_MODELS[('str', 'rsplit')] = _rsplit
calls.METHOD_MODELS[('bytes', 'rsplit')] = _rsplit

predicate('domain_of(r)', 'py_lower(substr_after_last(r, "@"))')

contract('RecipientDomainSplit._get_domain', module=MS, props=['C16'],
         params={'self': 'RecipientDomainSplit', 'rcpt': 'Str'}, returns='Str',
         ensures=['"@" in rcpt', 'result == domain_of(rcpt)', 'len(substr_after_last(rcpt, "@")) > 0'],
         raises={'ValueError': ['not ("@" in rcpt) or len(substr_after_last(rcpt, "@")) == 0']},
         modifies=['fresh'])

extern('OrderedDict', params={}, model=lambda st, args, kw: B.new_dict(st, None),
       notes='collections.OrderedDict(): an (insertion ordered) dict')
T.alias('Groups', 'Dict[Str, List[Str]]')

# RecipientDomainSplit._get_domain_groups: every recipient lands in exactly one place -- the list of its own
# (lower-cased) domain, or the bad-recipient list -- and nothing else is in those lists.  Stated with explicit ghost
# maps instead of forall-exists: gpos[i] = position of recipient i inside its list, ginv[d][p] / gbinv[p] = the
# recipient index stored at position p of the list of domain d / of the bad list.
predicate('valid_rcpt(r)', '"@" in r and len(substr_after_last(r, "@")) > 0')
klass('RecipientDomainSplit', ghost={'gpos': 'ArrV[Int]', 'ginv': 'MapV[Str, ArrV[Int]]', 'gbinv': 'ArrV[Int]'})
GROUPS_WF = ('groups != None and bad_rcpts != None and is_list(bad_rcpts) '
             'and forall(Str, lambda d: implies(dict_has(groups, d), dict_get(groups, d) != None and is_list(dict_get(groups, d)) '
             '           and dict_get(groups, d) is not bad_rcpts and dict_get(groups, d) is not recipients '
             '           and len(dict_get(groups, d)) >= 1)) '
             'and forall(Str, lambda d1: forall(Str, lambda d2: implies(dict_has(groups, d1) and dict_has(groups, d2) and d1 != d2, '
             '           dict_get(groups, d1) is not dict_get(groups, d2))))')


def _grp_inv(n, gpos, ginv, gbinv, groups='groups', bad='bad_rcpts', rc='recipients'):
    return [
        # where recipient i went
        'forall(range(0, %s), lambda i: implies(valid_rcpt(%s[i]), dict_has(%s, domain_of(%s[i])) '
        '   and 0 <= %s[i] and %s[i] < len(dict_get(%s, domain_of(%s[i]))) '
        '   and dict_get(%s, domain_of(%s[i]))[%s[i]] == %s[i] and %s[domain_of(%s[i])][%s[i]] == i))'
        % (n, rc, groups, rc, gpos, gpos, groups, rc, groups, rc, gpos, rc, ginv, rc, gpos),
        'forall(range(0, %s), lambda i: implies(not valid_rcpt(%s[i]), 0 <= %s[i] and %s[i] < len(%s) '
        '   and %s[%s[i]] == %s[i] and %s[%s[i]] == i))' % (n, rc, gpos, gpos, bad, bad, gpos, rc, gbinv, gpos),
        # and nothing else is in the lists: every stored element is one of the recipients, at its own place
        'forall(Str, lambda d: implies(dict_has(%s, d), forall(range(0, len(dict_get(%s, d))), lambda p: '
        '   0 <= %s[d][p] and %s[d][p] < %s and valid_rcpt(%s[%s[d][p]]) and domain_of(%s[%s[d][p]]) == d '
        '   and %s[%s[d][p]] == p)))' % (groups, groups, ginv, ginv, n, rc, ginv, rc, ginv, gpos, ginv),
        'forall(range(0, len(%s)), lambda p: 0 <= %s[p] and %s[p] < %s and not valid_rcpt(%s[%s[p]]) '
        '   and %s[%s[p]] == p)' % (bad, gbinv, gbinv, n, rc, gbinv, gpos, gbinv),
    ]


contract('RecipientDomainSplit._get_domain_groups', module=MS, props=['C16'],
         params={'self': 'RecipientDomainSplit', 'recipients': 'List[Str]'}, returns='Tuple[Groups, List[Str]]',
         requires=['recipients != None'],
         ghost_after={'bad_rcpts.append(rcpt)': ['_gpos = store(_gpos, _k, len(bad_rcpts) - 1)',
                                                 '_gbinv = store(_gbinv, len(bad_rcpts) - 1, _k)'],
                      'groups.setdefault(domain, []).append(rcpt)': [
                          '_gpos = store(_gpos, _k, len(dict_get(groups, domain)) - 1)',
                          '_ginv = store(_ginv, domain, store(_ginv[domain], len(dict_get(groups, domain)) - 1, _k))']},
         ghost_entry=['_gpos = self.gpos', '_ginv = self.ginv', '_gbinv = self.gbinv'],
         ghost_exit=['self.gpos = _gpos', 'self.ginv = _ginv', 'self.gbinv = _gbinv'],
         ensures=['let(result[0], lambda groups: let(result[1], lambda bad_rcpts: ' + GROUPS_WF + '))',
                  'fresh(result[0]) and fresh(result[1])',
                  'forall(Str, lambda d: implies(dict_has(result[0], d), fresh(dict_get(result[0], d))))'] +
                 ['let(result[0], lambda groups: let(result[1], lambda bad_rcpts: %s))' % c
                  for c in _grp_inv('len(recipients)', 'self.gpos', 'self.ginv', 'self.gbinv')] +
                 ['seq(recipients) == old(seq(recipients))'],
         modifies=['self.gpos', 'self.ginv', 'self.gbinv', 'fresh'],
         locals={'groups': 'Groups', 'bad_rcpts': 'List[Str]'},
         loops={0: dict(modifies=['fresh'],
                        inv=[GROUPS_WF, 'fresh(groups) and fresh(bad_rcpts)',
                             'forall(Str, lambda d: implies(dict_has(groups, d), fresh(dict_get(groups, d))))'] +
                            _grp_inv('_k', '_gpos', '_ginv', '_gbinv'))})

GRPI = _grp_inv('len(envelope.recipients)', 'self.gpos', 'self.ginv', 'self.gbinv', rc='envelope.recipients')
contract('RecipientDomainSplit.apply', module=MS, props=['C16'],
         params={'self': 'RecipientDomainSplit', 'envelope': 'Envelope'}, returns='Opt[List[Envelope]]',
         requires=['envelope != None', 'envelope.recipients != None', 'envelope.headers != None', 'allocated(envelope.headers)'],
         ensures=['implies(result != None, fresh(result))', 'implies(result != None, len(result) >= 2)',
                  'implies(result != None, forall(result, lambda e: e != None and fresh(e)))',
                  'implies(result != None, forall(result, lambda e: e.sender == envelope.sender))',
                  'implies(result != None, forall(result, lambda e: e.recipients != None and len(e.recipients) >= 1))',
                  'implies(result != None, forall(result, lambda e: e.headers != None and fresh(e.headers) and e.headers is not envelope.headers))',
                  'implies(result != None, forall(pairs(len(result)), lambda a, b: result[a] is not result[b] '
                  '        and result[a].headers is not result[b].headers))',
                  'seq(envelope.recipients) == old(seq(envelope.recipients))'],
         checks=[
             # split iff there is more than one destination (distinct domains + recipients without a domain)
             '(result == None) == (len(groups) + len(bad_rcpts) <= 1)',
             # one envelope per domain, in first-seen order, carrying exactly the recipients of that domain (the list
             # _get_domain_groups built, whose contents are characterised there), then one per bad recipient
             'implies(result != None, len(result) == len(groups) + len(bad_rcpts))',
             'implies(result != None, forall(Str, lambda d: implies(dict_has(groups, d), '
             '        result[dict_index(groups, d)].recipients is dict_get(groups, d))))',
             'implies(result != None, forall(range(len(groups), len(result)), lambda j: '
             '        len(result[j].recipients) == 1 and result[j].recipients[0] == bad_rcpts[j - len(groups)]))'] +
            # ... and the lists still hold exactly what _get_domain_groups put there: every recipient once
            ['implies(result != None, %s)' % c for c in _grp_inv('len(envelope.recipients)', 'self.gpos', 'self.ginv', 'self.gbinv', rc='envelope.recipients')],
         modifies=['self.gpos', 'self.ginv', 'self.gbinv', 'fresh'],
         locals={'groups': 'Groups', 'bad_rcpts': 'List[Str]', 'ret': 'List[Envelope]'},
         # loop frames: `ret` and the envelopes created by the iterations; the groups built before the loops are
         # outside them, so what _get_domain_groups established about their contents still holds at the end
         loops={0: dict(modifies=['contents(ret)', 'new'],
                        inv=['ret != None and fresh(ret) and is_list(ret) and len(ret) == _k',
                             'forall(ret, lambda e: e != None and fresh(e) and e.sender == envelope.sender and e.recipients != None and allocated(e.recipients) and allocated(e) and e.headers != None and fresh(e.headers) and e.headers is not envelope.headers and len(e.recipients) >= 1)',
                             'forall(range(0, _k), lambda j: ret[j].recipients is dict_get(groups, _seq0[j]))',
                             'forall(pairs(len(ret)), lambda a, b: ret[a] is not ret[b] and ret[a].headers is not ret[b].headers)']),
                1: dict(modifies=['contents(ret)', 'new'],
                        inv=['ret != None and fresh(ret) and is_list(ret) and len(ret) == len(groups) + _k',
                             'forall(ret, lambda e: e != None and fresh(e) and e.sender == envelope.sender and e.recipients != None and allocated(e.recipients) and allocated(e) and e.headers != None and fresh(e.headers) and e.headers is not envelope.headers and len(e.recipients) >= 1)',
                             'forall(Str, lambda d: implies(dict_has(groups, d), ret[dict_index(groups, d)].recipients is dict_get(groups, d)))',
                             'forall(range(len(groups), len(ret)), lambda j: len(ret[j].recipients) == 1)',
                             'forall(range(len(groups), len(ret)), lambda j: ret[j].recipients[0] == bad_rcpts[j - len(groups)], trigger=lambda j: ret[j])',
                             'forall(range(len(groups), len(ret)), lambda j: ret[j].recipients is not bad_rcpts)',
                             'forall(pairs(len(ret)), lambda a, b: ret[a] is not ret[b] and ret[a].headers is not ret[b].headers)'])})

klass('Forward', ['QueuePolicy'], module=MF, fields={'mapping': 'List[Tuple[Pattern, Str, Int]]'})
extern('re.subn', params={'pattern': 'Pattern', 'repl': 'Str', 'string': 'Str', 'count': 'Int'},
       returns='Tuple[Str, Int]', pure=True, ensures=['result[1] >= 0'],
       notes='re.subn: a function of its arguments (opaque)')
predicate('rule_hits(m, s)', 'bool(re.subn(m[0], m[1], s, m[2])[0]) and re.subn(m[0], m[1], s, m[2])[1] > 0')

contract('Forward.apply', module=MF, props=['C16'],
         params={'self': 'Forward', 'envelope': 'Envelope'},
         requires=['envelope != None', 'envelope.recipients != None', 'is_list(envelope.recipients)',
                   'self.mapping != None', 'self.mapping is not envelope.recipients'],
         ensures=['len(envelope.recipients) == old(len(envelope.recipients))',
                  # a recipient matching no forwarding rule is left unchanged; otherwise the FIRST matching rule wins
                  'forall(range(0, len(envelope.recipients)), lambda i: '
                  '   implies(forall(self.mapping, lambda m: not rule_hits(m, old(seq(envelope.recipients))[i])), '
                  '           envelope.recipients[i] == old(seq(envelope.recipients))[i]))',
                  'forall(range(0, len(envelope.recipients)), lambda i: envelope.recipients[i] == old(seq(envelope.recipients))[i] or '
                  '   exists(range(0, len(self.mapping)), lambda j: rule_hits(self.mapping[j], old(seq(envelope.recipients))[i]) '
                  '        and envelope.recipients[i] == re.subn(self.mapping[j][0], self.mapping[j][1], old(seq(envelope.recipients))[i], self.mapping[j][2])[0] '
                  '        and forall(range(0, j), lambda j2: not rule_hits(self.mapping[j2], old(seq(envelope.recipients))[i]))))'],
         modifies=['contents(envelope.recipients)'],
         loops={0: dict(modifies=['contents(envelope.recipients)'],
                        inv=['len(envelope.recipients) == old(len(envelope.recipients)) and n_rcpt == old(len(envelope.recipients))',
                             'forall(range(_k, n_rcpt), lambda i: envelope.recipients[i] == old(seq(envelope.recipients))[i])',
                             'forall(range(0, _k), lambda i: '
                             '   implies(forall(self.mapping, lambda m: not rule_hits(m, old(seq(envelope.recipients))[i])), '
                             '           envelope.recipients[i] == old(seq(envelope.recipients))[i]))',
                             'forall(range(0, _k), lambda i: envelope.recipients[i] == old(seq(envelope.recipients))[i] or '
                             '   exists(range(0, len(self.mapping)), lambda j: rule_hits(self.mapping[j], old(seq(envelope.recipients))[i]) '
                             '        and envelope.recipients[i] == re.subn(self.mapping[j][0], self.mapping[j][1], old(seq(envelope.recipients))[i], self.mapping[j][2])[0] '
                             '        and forall(range(0, j), lambda j2: not rule_hits(self.mapping[j2], old(seq(envelope.recipients))[i]))))']),
                1: dict(modifies=[],
                        inv=['forall(range(0, _k), lambda j2: not rule_hits(self.mapping[j2], old_rcpt))',
                             'old_rcpt == old(seq(envelope.recipients))[i] and envelope.recipients[i] == old_rcpt'])})

# ---- header policies
extern('Message.__contains__', params={'self': 'Message', 'name': 'Str'}, returns='Bool', pure=True, reads=['self.hstate'])
extern('Message.__setitem__', params={'self': 'Message', 'name': 'Str', 'value': 'Any'}, modifies=['self.hstate'])
for _cls, _hdr, _low in (('AddDateHeader', 'Date', 'date'), ('AddMessageIdHeader', 'Message-Id', 'message-id')):
    klass(_cls, ['QueuePolicy'], module=MH, fields={'hostname': 'Any'})
    contract(_cls + '.apply', module=MH, props=['C16'],
             params={'self': _cls, 'envelope': 'Envelope'},
             requires=['envelope != None', 'envelope.headers != None'],
             # the header is added only when absent (case-insensitive lookup is the email package's contract)
             ensures=['ncalls("Message.__setitem__") == ite(old("%s" in envelope.headers), 0, 1)' % _low,
                      'implies(ncalls("Message.__setitem__") == 1, call_arg("Message.__setitem__", 0, 1) == "%s" '
                      '        and same(call_arg("Message.__setitem__", 0, 0), envelope.headers))' % _hdr],
             modifies=['envelope.headers.hstate', 'fresh'])
extern('AddDateHeader.build_date', params={'self': 'AddDateHeader', 'timestamp': 'Any'}, returns='Str')
extern('floor', params={'x': 'Any'}, returns='Any', pure=True)

contract('Envelope.prepend_header', module=ME, props=['C16'],
         params={'self': 'Envelope', 'name': 'Str', 'value': 'Str'},
         requires=['self.headers != None', 'self.headers._headers != None', 'is_list(self.headers._headers)'],
         # the new header is placed FIRST, the others keep their order
         ensures=['len(self.headers._headers) == old(len(self.headers._headers)) + 1',
                  'self.headers._headers[0] == (name, value)',
                  'forall(range(0, old(len(self.headers._headers))), lambda j: self.headers._headers[j + 1] == old(seq(self.headers._headers))[j])'],
         modifies=['contents(self.headers._headers)'])

# ---- AddReceivedHeader (C16: "a new Received header is placed first"; nothing else of the envelope changes)
klass('VersionInfo')
global_object('VERSION', 'VersionInfo')
klass('StructTime')
extern('gmtime', params={'secs': 'Any'}, returns='StructTime', ensures=['result != None'])
extern('strftime', params={'format': 'Any', 't': 'StructTime'}, returns='Str')
klass('AddReceivedHeader', ['QueuePolicy'], module=MH, fields={'date_format': 'Any'})
for _m, _grow in (('_build_from_section', '== old(len(parts)) + 1'), ('_build_by_section', '== old(len(parts)) + 1'),
                  ('_build_with_section', '<= old(len(parts)) + 1'), ('_build_for_section', '== old(len(parts)) + 1')):
    contract('AddReceivedHeader.' + _m, module=MH, props=['C16'],
             params={'self': 'AddReceivedHeader', 'envelope': 'Envelope', 'parts': 'List[Str]'},
             requires=['envelope != None', 'envelope.client != None', 'envelope.recipients != None', 'parts != None',
                       'is_list(parts)'],
             # a section only appends to the list it is given: the envelope is read, never written
             ensures=['len(parts) ' + _grow, 'len(parts) >= old(len(parts))',
                      'forall(range(0, old(len(parts))), lambda j: parts[j] == old(seq(parts))[j])'],
             modifies=['contents(parts)'])
contract('AddReceivedHeader.apply', module=MH, props=['C16'],
         params={'self': 'AddReceivedHeader', 'envelope': 'Envelope'},
         requires=['envelope != None', 'envelope.client != None', 'envelope.recipients != None',
                   'envelope.headers != None', 'envelope.headers._headers != None', 'is_list(envelope.headers._headers)'],
         # exactly one header is added, it is a Received header, and it is placed first (Envelope.prepend_header);
         # the frame says that sender, recipients, body and every other header stay as they are
         ensures=['len(envelope.headers._headers) == old(len(envelope.headers._headers)) + 1',
                  'envelope.headers._headers[0][0] == "Received"',
                  'forall(range(0, old(len(envelope.headers._headers))), lambda j: envelope.headers._headers[j + 1] == old(seq(envelope.headers._headers))[j])'],
         checks=['ncalls("Envelope.prepend_header") == 1', 'same(call_arg("Envelope.prepend_header", 0, 0), envelope)'],
         modifies=['contents(envelope.headers._headers)', 'fresh'])
