"""Contracts for slimta/util/deque.py (BlockingDeque) and slimta/relay/pool.py (RelayPool, RelayPoolClient): C19."""
import z3
from pyvc.registry import klass, extern, contract, predicate, assume_note, global_object
from pyvc import types as T
from pyvc.core import Val, SeqV, Undecided
from pyvc import exec as E, builtins as B, calls

MD = 'slimta/util/deque.py'
MP = 'slimta/relay/pool.py'

# ---------------------------------------------------------------------------- collections.deque (assumed)
klass('deque', ghost={'n': 'Int'})          # abstract length of the underlying deque
for _m, _d in (('append', 1), ('appendleft', 1)):
    extern('deque.' + _m, params={'self': 'deque', 'x': 'Any'}, modifies=['self.n'],
           ensures=['self.n == old(self.n) + 1'])
extern('deque.clear', params={'self': 'deque'}, modifies=['self.n'], ensures=['self.n == 0'])
for _m in ('extend', 'extendleft'):
    extern('deque.' + _m, params={'self': 'deque', 'xs': 'Any'}, modifies=['self.n'],
           ensures=['self.n >= old(self.n)'])
for _m in ('pop', 'popleft'):
    extern('deque.' + _m, params={'self': 'deque'}, returns='Any', modifies=['self.n'],
           ensures=['old(self.n) > 0', 'self.n == old(self.n) - 1'],
           raises={'IndexError': ['old(self.n) == 0', 'self.n == old(self.n)']})
extern('deque.remove', params={'self': 'deque', 'x': 'Any'}, modifies=['self.n'],
       ensures=['old(self.n) > 0', 'self.n == old(self.n) - 1'],
       raises={'ValueError': ['self.n == old(self.n)']})
extern('deque.__len__', params={'self': 'deque'}, returns='Int', pure=True, reads=['self.n'],
       ensures=['result == self.n'])
extern('deque.__init__', params={'self': 'deque'}, modifies=['self.n'], ensures=['self.n >= 0'])

# gevent Semaphore: non-blocking acquire and locked()
extern('Semaphore.__init__', params={'self': 'Semaphore', 'value': 'Int'}, defaults={'value': '1'},
       modifies=['self.counter'], ensures=['self.counter == value'])
extern('Semaphore.locked', params={'self': 'Semaphore'}, returns='Bool', pure=True, reads=['self.counter'],
       ensures=['result == (self.counter == 0)'])
extern('Semaphore.acquire', params={'self': 'Semaphore', 'blocking': 'Bool'}, defaults={'blocking': 'True'},
       returns='Bool', yields=True, modifies=['self.counter', 'self.held'],
       ensures=['implies(blocking, result and self.counter >= 0)', 'self.held == result',
                # blocking: waits (yield point) until the counter is positive, then takes one unit.  While it
                # waits other greenlets may release, so only counter >= 0 is known unless it was positive
                'implies(old(self.counter) > 0, result and self.counter == old(self.counter) - 1)',
                'implies(not blocking and old(self.counter) == 0, not result and self.counter == 0)'],
       notes='gevent Semaphore.acquire: yields iff counter == 0 and blocking')

klass('BlockingDeque', ['deque'], module=MD, fields={'sema': 'Semaphore'})
predicate('INV_deque(d)', 'd.sema != None and d.sema.counter == d.n and d.n >= 0')

BD = dict(module=MD, props=['C19'])
ARGS = {'self': 'BlockingDeque', '*args': 'Args1', 'kwargs': 'Kwargs'}
ARGS0 = {'self': 'BlockingDeque', '*args': 'Args0', 'kwargs': 'Kwargs'}
DMOD = ['self.n', 'self.sema.counter', 'self.sema.held']

contract('BlockingDeque.append', params=ARGS, returns='Any', requires=['INV_deque(self)'],
         ensures=['INV_deque(self)', 'self.n == old(self.n) + 1'], modifies=DMOD, **BD)
contract('BlockingDeque.appendleft', params=ARGS, returns='Any', requires=['INV_deque(self)'],
         ensures=['INV_deque(self)', 'self.n == old(self.n) + 1'], modifies=DMOD, **BD)
contract('BlockingDeque.clear', params=ARGS0, returns='Any', requires=['INV_deque(self)'],
         ensures=['INV_deque(self)', 'self.n == 0'], modifies=DMOD,
         loops={0: dict(inv=['self.sema != None', 'self.sema.counter >= 0', 'self.n == 0'],
                        dec='self.sema.counter')}, **BD)
for _m in ('extend', 'extendleft'):
    contract('BlockingDeque.' + _m, params=ARGS, returns='Any', requires=['INV_deque(self)'],
             ensures=['INV_deque(self)', 'self.n >= old(self.n)'], modifies=DMOD,
             loops={0: dict(inv=['self.sema != None', 'self.sema.counter == pre_n + _k', 'self.n == post_n',
                                 'post_n >= pre_n', 'pre_n >= 0'])}, **BD)
for _m in ('pop', 'popleft'):
    contract('BlockingDeque.' + _m, params=ARGS0, returns='Any',
             requires=['INV_deque(self)', 'self.n > 0'],
             ensures=['INV_deque(self)', 'self.n == old(self.n) - 1'], modifies=DMOD,
             notes='proved for the non-blocking case (an element is available); the blocking case is a yield '
                   'point during which producers append (G2, not modelled)', **BD)
contract('BlockingDeque.remove', params=ARGS, returns='Any', requires=['INV_deque(self)'],
         ensures=['INV_deque(self)', 'self.n == old(self.n) - 1'],
         raises={'ValueError': ['INV_deque(self)', 'self.n == old(self.n)']}, modifies=DMOD, **BD)

# ---------------------------------------------------------------------------- RelayPool
klass('Greenlet')
klass('AsyncResult', ghost={'answered': 'Bool'})
extern('AsyncResult.__init__', params={'self': 'AsyncResult'}, modifies=['self.answered'], ensures=['not self.answered'])
extern('AsyncResult.get', params={'self': 'AsyncResult'}, returns='Any', yields=True,
       raises={'TransientRelayError': [], 'PermanentRelayError': [], 'OtherException': []})
klass('RelayPoolClient', ['Greenlet'], module=MP,
      fields={'idle': 'Bool', 'queue': 'BlockingDeque', 'idle_timeout': 'Opt[Real]'},
      ghost={'started': 'Bool', 'linked_any': 'Bool', 'linked_value_only': 'Bool'})
extern('RelayPoolClient.start', params={'self': 'RelayPoolClient'}, modifies=['self.started'], ensures=['self.started'])
extern('RelayPoolClient.kill', params={'self': 'RelayPoolClient'})
for _m in ('successful', 'ready', 'dead'):
    extern('RelayPoolClient.' + _m, params={'self': 'RelayPoolClient'}, returns='Bool', notes='gevent Greenlet.%s(): how the greenlet ended (arbitrary here)' % _m)
# gevent Greenlet.link* : which endings of the greenlet invoke the callback
extern('RelayPoolClient.link', params={'self': 'RelayPoolClient', 'cb': 'Fn'}, modifies=['self.linked_any'],
       ensures=['self.linked_any'], notes='Greenlet.link(cb): cb runs when the greenlet ends for ANY reason')
extern('RelayPoolClient.link_value', params={'self': 'RelayPoolClient', 'cb': 'Fn'},
       modifies=['self.linked_value_only'], ensures=['self.linked_value_only'],
       notes='Greenlet.link_value(cb): cb runs only when the greenlet ends successfully')
extern('RelayPoolClient.link_exception', params={'self': 'RelayPoolClient', 'cb': 'Fn'},
       modifies=['self.linked_value_only'], ensures=['self.linked_value_only'])

klass('RelayPool', ['Relay'], module=MP,
      fields={'pool': 'Set[RelayPoolClient]', 'pool_size': 'Opt[Int]', 'queue': 'BlockingDeque'})
predicate('INV_pool(p)',
          'p.pool != None and p.queue != None and INV_deque(p.queue) '
          'and forall(RelayPoolClient, lambda c: implies(c in p.pool, allocated(c) and c.linked_any)) '
          'and (p.pool_size is None or cast(p.pool_size, Int) >= 1) '
          # the bound: never more live clients than the configured size
          'and (p.pool_size is None or len(p.pool) <= cast(p.pool_size, Int))')

extern('RelayPool.add_client', params={'self': 'RelayPool'}, returns='RelayPoolClient',
       ensures=['result != None', 'fresh(result)', 'not result.linked_any'],
       notes='RelayPool.add_client (abstract, overridden by the SMTP/LMTP/HTTP relays): a new client object')

contract('RelayPool._add_client', module=MP, props=['C19'],
         params={'self': 'RelayPool'},
         requires=['self.pool != None', 'self.queue != None',
                   'forall(RelayPoolClient, lambda c: implies(c in self.pool, allocated(c) and c.linked_any))',
                   'len(self.pool) >= 0'],
         ensures=['len(self.pool) == old(len(self.pool)) + 1',
                  # the pool learns about every client ending, whatever the reason (else a dead client keeps its slot)
                  'forall(RelayPoolClient, lambda c: implies(c in self.pool, allocated(c) and c.linked_any))',
                  'forall(RelayPoolClient, lambda c: implies(old(c in self.pool), c in self.pool))'],
         modifies=['contents(self.pool)', 'fresh'])

contract('RelayPool._check_idle', module=MP, props=['C19'],
         params={'self': 'RelayPool'},
         requires=['INV_pool(self)'],
         ensures=['INV_pool(self)',
                  # afterwards somebody will serve the request that attempt() is about to queue
                  'len(self.pool) >= 1',
                  'len(self.pool) <= old(len(self.pool)) + 1'],
         modifies=['contents(self.pool)', 'fresh'],
         loops={0: dict(modifies=[], inv=['forall(range(0, _k), lambda j: True)'])})

contract('RelayPool._remove_client', module=MP, props=['C19'],
         params={'self': 'RelayPool', 'client': 'RelayPoolClient'},
         requires=['INV_pool(self)', 'client in self.pool'],
         ensures=['INV_pool(self)',
                  # no request is left waiting while no client exists to serve it
                  'implies(self.queue.n > 0, len(self.pool) >= 1)'],
         modifies=['contents(self.pool)', 'fresh'])

# G2 for the pool: whenever attempt() can be descheduled (it waits for its result) the pool invariant holds and no
# request waits without a client; meanwhile other greenlets (other attempts, clients ending) may change the pool,
# the queue and the idle flags in any way that keeps the invariant
from pyvc.registry import monitor
monitor('RelayPool',
        inv=['INV_pool(self)', 'implies(self.queue.n > 0, len(self.pool) >= 1)'],
        shared=['contents(self.pool)', 'self.queue.n', 'self.queue.sema.counter', 'self.queue.sema.held',
                'any(RelayPoolClient).idle'])
contract('RelayPool.attempt', module=MP, props=['C19'], yields=True,
         params={'self': 'RelayPool', 'envelope': 'Envelope', 'attempts': 'Int'},
         returns='Any',
         requires=['INV_pool(self)'],
         # after the wait only the (re-established) pool invariant is known: other greenlets ran meanwhile
         ensures=['INV_pool(self)'],
         raises={'TransientRelayError': ['INV_pool(self)'], 'PermanentRelayError': ['INV_pool(self)'],
                 'OtherException': []},
         # C19 "the result of its own envelope": the request queued is the pair (a NEW result object, THIS envelope),
         # and what attempt() hands back is what was written to that very result object
         call_requires={'BlockingDeque.append': ['fresh(result)', 'not result.answered'],
                        # at the moment attempt() starts waiting its request is queued, a client exists to serve it
                        # and the pool is within its bound
                        'AsyncResult.get': ['self.queue.n == old(self.queue.n) + 1', 'len(self.pool) >= 1',
                                            'self.pool_size is None or len(self.pool) <= cast(self.pool_size, Int)']},
         checks=['ncalls("BlockingDeque.append") == 1 and ncalls("AsyncResult.get") == 1'],
         locals={'result': 'AsyncResult'},
         modifies=['contents(self.pool)', 'self.queue.n', 'self.queue.sema.counter', 'self.queue.sema.held', 'fresh'])

contract('RelayPoolClient.poll', module=MP, props=['C19'],
         params={'self': 'RelayPoolClient'}, returns='Any',
         requires=['self.queue != None', 'INV_deque(self.queue)', 'self.queue.n > 0'],
         ensures=['not self.idle', 'INV_deque(self.queue)', 'self.queue.n == old(self.queue.n) - 1'],
         modifies=['self.idle', 'self.queue.n', 'self.queue.sema.counter', 'self.queue.sema.held', 'fresh'],
         notes='poll(): exactly one request taken per call and the idle flag cleared on every exit; verified for '
               'the case where a request is available (the blocking wait is a yield point, G2 not modelled)')
