"""Contracts for slimta/envelope/__init__.py: C20 FRAGMENT -- the part of "parsing keeps the body byte-exact" that is
slimta's own code: where the message is split, what is handed to the standard-library header parser and that the
body bytes are stored and returned untouched.  Header fidelity (email.parser / email.generator) is NOT decided.
(File name sorts last: it re-uses Envelope / Message declared by earlier contract files; callers elsewhere keep their
assumed views `Envelope.parse` / `Envelope.flatten`, these contracts carry a #body tag.)"""
import z3
from pyvc.registry import klass, extern, contract, predicate, assume_note, global_object, bounded
from pyvc import types as T
from pyvc.core import Val, SeqV, Undecided
from pyvc import exec as E, builtins as B, calls

M = 'slimta/envelope/__init__.py'
klass('Envelope', fields={'message': 'Opt[Bytes]'}, module=M)
klass('HBPattern')
klass('HBMatch', fields={'e0': 'Int'})
global_object('_HEADER_BOUNDARY', 'HBPattern')
_HB_END = z3.Function('hb_end', z3.StringSort(), z3.IntSort())
calls.SPECFUNS['hb_end'] = lambda st, args: Val(T.INT, _HB_END(args[0].z))
extern('re.search', params={'pattern': 'HBPattern', 'data': 'Bytes'}, returns='HBMatch',
       ensures=['(result == None) == (hb_end(data) < 0)',
                'implies(result != None, fresh(result) and result.e0 == hb_end(data) and 0 < result.e0 and result.e0 <= len(data))'],
       notes="re.search(_HEADER_BOUNDARY, data) with _HEADER_BOUNDARY = br'\\\\r?\\\\n\\\\s*?\\\\n': hb_end(data) is the end of the "
             "FIRST header/body boundary -- the leftmost line break that is followed, through white space only, by another "
             "LF, ending right after the first such LF -- or -1; compared with the compiled pattern by bounded/envelope_boundary.py")
extern('HBMatch.end', params={'self': 'HBMatch', 'n': 'Int'}, returns='Int', pure=True, reads=['self.e0'],
       requires=['n == 0'], ensures=['result == self.e0'])
extern('Envelope._parse_data', params={'self': 'Envelope', 'data': 'Bytes', '*extra': 'Args0'}, returns='Message',
       ensures=['result != None', 'fresh(result)'],
       notes='Envelope._parse_data = email BytesParser(policy=SMTP).parse(BytesIO(data), *extra): standard library')
extern('Envelope._msg_generator', params={'self': 'Envelope', 'msg': 'Message'}, returns='Bytes',
       notes='Envelope._msg_generator = email BytesGenerator(policy=SMTP).flatten: standard library')
klass('Message', ghost={'has_payload': 'Bool'})
extern('Envelope._merge_payloads', params={'self': 'Envelope', 'headers': 'Message', 'payload': 'Bytes'}, returns='Bytes',
       requires=['headers != None'],
       ensures=['implies(not headers.has_payload, result == payload)', 'str_suffix(result, payload)'],
       notes='Envelope._merge_payloads assumed at its call site: when the header parser kept no payload (headers-only parse '
             'of a well-formed header block) the body is returned as it is; otherwise what the parser kept is put in front')

contract('Envelope.parse#body', qual='Envelope.parse', module=M, props=['C20'],
         params={'self': 'Envelope', 'data': 'Bytes'},
         ensures=['self.headers != None', 'self.message is not None',
                  # the body is what follows the FIRST boundary, byte for byte (nothing before it, nothing dropped)
                  'implies(hb_end(data) >= 0, str_suffix(cast(self.message, Bytes), substr(data, hb_end(data), len(data) - hb_end(data))))',
                  'implies(hb_end(data) >= 0 and not self.headers.has_payload, '
                  '        cast(self.message, Bytes) == substr(data, hb_end(data), len(data) - hb_end(data)))',
                  'implies(hb_end(data) < 0 and not self.headers.has_payload, cast(self.message, Bytes) == b"")'],
         checks=['ncalls("Envelope._parse_data") == 1 and ncalls("Envelope._merge_payloads") == 1',
                 # the split loses nothing: header block + body == input
                 'call_arg("Envelope._parse_data", 0, 1) + call_arg("Envelope._merge_payloads", 0, 2) == data',
                 # the header block is parsed headers-only, so the standard-library parser never sees body bytes
                 '_gheadersonly'],
         ghost_entry=['_gheadersonly = False'],
         ghost_after={'self.headers = self._parse_data(header_data, True)': ['_gheadersonly = True']},
         modifies=['self.headers', 'self.message', 'fresh'])

contract('Envelope.flatten#body', qual='Envelope.flatten', module=M, props=['C20'],
         params={'self': 'Envelope'}, returns='Tuple[Bytes, Bytes]',
         requires=['self.headers != None'],
         # the stored body is returned as it is and not changed
         ensures=['result[1] == cast(old(self.message), Bytes)', 'self.message == old(self.message)'],
         raises={'AssertionError': ['old(self.message) is None']},
         modifies=['fresh'])

bounded(['C20'], 'bounded/envelope_boundary.py',
        'assumed semantics hb_end() of _HEADER_BOUNDARY.search compared with the real compiled pattern, and parse()/flatten() '
        'body byte-exactness on the real Envelope, for all byte strings over {h, :, SP, CR, LF, x} up to length 7')


# ---------------------------------------------------------------------------- Envelope.copy (C16 / C20)
# Callers elsewhere use the assumed model `Envelope.copy` (contracts/slimta_policy.py); here the real body is checked
# against the assumed contract of copy.deepcopy alone: the result is the deep copy, and `recipients` is replaced by
# the argument object exactly when that argument is truthy (so copy([]) keeps the original recipients).
def _deepcopy(st, args, kw):
    from contracts.slimta_policy import _envelope_copy
    v = args[0]
    if v.t.kind != 'ref' or v.t.name != 'Envelope':
        raise Undecided('copy.deepcopy(%r)' % (v.t,))
    return _envelope_copy(st, [v], {})


extern('copy.deepcopy', model=_deepcopy,
       notes='copy.deepcopy(envelope): a new object graph, structurally equal, sharing no mutable object with the original')
contract('Envelope.copy#body', qual='Envelope.copy', module=M, props=['C16', 'C20'],
         params={'self': 'Envelope', 'new_rcpts': 'Opt[List[Str]]'}, returns='Envelope',
         requires=['self.recipients != None', 'self.headers != None'],
         ensures=['result != None', 'fresh(result)', 'result is not self', 'result.sender == self.sender',
                  'result.headers != None and fresh(result.headers) and result.headers is not self.headers',
                  # (the recipient list is shared with the original only if the caller passes that very list)
                  'implies(new_rcpts is None or cast(new_rcpts, List[Str]) is not self.recipients, result.recipients is not self.recipients)',
                  'implies(new_rcpts is not None and len(cast(new_rcpts, List[Str])) > 0, result.recipients is cast(new_rcpts, List[Str]))',
                  'implies(new_rcpts is None or len(cast(new_rcpts, List[Str])) == 0, '
                  '        fresh(result.recipients) and seq(result.recipients) == seq(self.recipients))',
                  'seq(self.recipients) == old(seq(self.recipients))'],
         modifies=['fresh'])


# ---------------------------------------------------------------------------- find_outside_quotes (C06: address extraction)
# Specification (RFC 5321 quoted-string): scanning from start_i, a double quote opens a quoted region; inside it a
# backslash escapes the next byte (so \\" does not close the region) and an unescaped double quote closes it.  QS(h, s, i)
# is the scanner state after the bytes h[s:i]: 0 outside quotes, 1 inside, 2 inside right after a backslash.  The
# function returns the first position >= start_i that is outside quotes and where `needle` starts, or -1.
MSV = 'slimta/smtp/server.py'
_QS = z3.Function('qs_state', z3.StringSort(), z3.IntSort(), z3.IntSort(), z3.IntSort())


def _qs(st, args):
    h, s, i = args[0].z, args[1].z, args[2].z
    key = ('$qs_ax', h.get_id(), s.get_id())
    if key not in st.ghost and st.qdepth == 0:
        st.ghost[key] = (h, s)
        st.nfresh += 1
        k = z3.Int('k!qs%d' % st.nfresh)
        c = z3.SubString(h, k, 1)
        prev = _QS(h, s, k)
        nxt = z3.If(prev == 0, z3.If(c == z3.StringVal('"'), 1, 0),
                    z3.If(prev == 2, 1,
                          z3.If(c == z3.StringVal('\\'), 2, z3.If(c == z3.StringVal('"'), 0, 1))))
        st.assume(_QS(h, s, s) == 0)
        st.assume(z3.ForAll([k], z3.Implies(z3.And(s <= k, k < z3.Length(h)), _QS(h, s, k + 1) == nxt),
                            patterns=[_QS(h, s, k)]))
        st.assume(z3.ForAll([k], z3.And(0 <= _QS(h, s, k), _QS(h, s, k) <= 2), patterns=[_QS(h, s, k)]))
    return Val(T.INT, _QS(h, s, i))


calls.SPECFUNS['qs'] = _qs

contract('find_outside_quotes#spec', qual='find_outside_quotes', module=MSV, props=['C06'],
         params={'haystack': 'Bytes', 'needle': 'Bytes', 'start_i': 'Int', 'quotes': 'Bytes'},
         defaults={'start_i': '0', 'quotes': 'b\'"\''}, returns='Int',
         requires=['0 <= start_i and start_i <= len(haystack)', 'len(needle) >= 1', 'quotes == b\'"\''],
         ensures=[
             # a hit is outside quotes, really is the needle, and is the FIRST such position
             'implies(result >= 0, start_i <= result and result + len(needle) <= len(haystack) '
             '        and qs(haystack, start_i, result) == 0 and substr(haystack, result, len(needle)) == needle)',
             'implies(result >= 0, forall(range(start_i, result), lambda j: not (qs(haystack, start_i, j) == 0 '
             '        and substr(haystack, j, len(needle)) == needle)))',
             'implies(result < 0, result == -1 and forall(range(start_i, len(haystack) - len(needle) + 1), lambda j: '
             '        not (qs(haystack, start_i, j) == 0 and substr(haystack, j, len(needle)) == needle)))'],
         modifies=[],
         locals={'quoted': 'Opt[Int]', 'escaped': 'Bool'},
         loops={0: dict(inv=['h_len == len(haystack) and n_len == len(needle)',
                             # the scanner state of the code is the specified one
                             '(quoted is None) == (qs(haystack, start_i, start_i + _k) == 0)',
                             'implies(quoted is not None, cast(quoted, Int) == 34)',
                             'implies(quoted is not None, escaped == (qs(haystack, start_i, start_i + _k) == 2))',
                             'implies(quoted is None, not escaped)',
                             'forall(range(start_i, start_i + _k), lambda j: not (qs(haystack, start_i, j) == 0 '
                             '       and substr(haystack, j, len(needle)) == needle))']),
                # the inner scan over the quote characters (only b'"' here): no quote character matched so far
                1: dict(inv=['quoted is None', 'not escaped', 'implies(_k >= 1, substr(haystack, i, 1) != b\'"\')'])})

bounded(['C20'], 'bounded/envelope_roundtrip.py',
        'real Envelope over generated messages with a well-formed header block (21 header sets incl. folded lines, 8-bit '
        'values, duplicate names, empty values; CRLF or LF; 11 bodies incl. NUL, lone CR, leading blank lines, dot lines): '
        'parse+flatten keeps the body bytes and the header fields (names, order, values, CRLF-normalised); the same for '
        'copy() (no shared mutable state) and a pickle round trip; re-parsing the flattened output is a fixed point; '
        'encode_7bit on 4 UTF-8 texts x {base64, quoted-printable, no encoder}: pure ASCII decoding to the same text, or '
        'UnicodeDecodeError without an encoder; 800 (thorough 3000) random byte strings never raise')
