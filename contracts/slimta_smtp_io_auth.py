"""Contracts for the TLS upgrade in slimta/smtp/io.py and for slimta/smtp/auth.py (server side): C08."""
import z3
from pyvc.registry import klass, extern, contract, predicate, assume_note, global_object
from pyvc import types as T
from pyvc.core import Val, SeqV, Undecided
from pyvc import exec as E, builtins as B, calls

MIO = 'slimta/smtp/io.py'
MA = 'slimta/smtp/auth.py'

klass('SSLError', ['OSError'])
extern('SSLContext.wrap_socket', params={'self': 'SSLContext', 'sock': 'Any', 'server_side': 'Bool', 'server_hostname': 'Any'},
       defaults={'server_side': 'False', 'server_hostname': 'None'}, returns='Any', yields=True,
       raises={'SSLError': [], 'OSError': [], 'Timeout': []},
       ensures=['pure_IO_encrypted_of(result)'],
       notes='ssl.SSLContext.wrap_socket: the TLS handshake as one atomic assumed step')
extern('create_default_context', params={}, returns='SSLContext', ensures=['result != None'])
klass('IO', module=MIO, fields={'socket': 'Any', 'address': 'Tuple[Str, Int]', 'recv_buffer': 'Bytes'})

for _side, _ctxt in (('server', 'SSLContext'), ('client', 'Opt[SSLContext]')):
    contract('IO.encrypt_socket_' + _side, module=MIO, props=['C08'],
             params={'self': 'IO', 'context': 'SSLContext'}, returns='Bool',
             requires=(['context != None'] if _side == 'server' else []) + ['in_timeout_scope()'],
             # nothing received in clear text is parsed after a successful handshake
             ensures=['implies(result, self.recv_buffer == b"")',
                      'implies(not result, self.recv_buffer == old(self.recv_buffer))',
                      'implies(result, self.encrypted)', 'implies(not result, self.socket == old(self.socket))'],
             raises={'OSError': [], 'Timeout': []},
             modifies=['self.socket', 'self.recv_buffer', 'fresh'])

# ---------------------------------------------------------------------------- AuthSession (server side)
klass('InvalidAuthString', ['ServerAuthError'])
klass('InsecureMechanismError', ['ServerAuthError'])
klass('InvalidMechanismError', ['ServerAuthError'])
klass('AuthenticationCanceled', ['ServerAuthError'])
klass('UnexpectedAuthError', ['ServerAuthError'])
# the replies these errors carry are the literal 501 / 504 of slimta/smtp/auth.py: error replies that do NOT end the session
predicate('auth_err_code(c)', 'c == "501" or c == "504"')
for _c in ('InvalidAuthString', 'InsecureMechanismError', 'InvalidMechanismError', 'AuthenticationCanceled'):
    extern(_c + '.__init__', params={'self': _c}, modifies=['self.reply'],
           ensures=['self.reply != None', 'is_err_code(self.reply.code)', 'auth_err_code(self.reply.code)'])
extern('UnexpectedAuthError.__init__', params={'self': 'UnexpectedAuthError', 'exc': 'Any'}, modifies=['self.reply'],
       ensures=['self.reply != None', 'is_err_code(self.reply.code)', 'auth_err_code(self.reply.code)'])
klass('SASLAuth')
klass('Mechanism', fields={'insecure': 'Bool'}, ghost={'insecure__set': 'Bool'})
klass('AuthenticationError', ['Exception'])
klass('ServerChallenge', ['Exception'], fields={'data': 'Bytes'})
klass('ChallengeResponse')
extern('ChallengeResponse.__init__', params={'self': 'ChallengeResponse', 'challenge': 'Bytes', 'response': 'Bytes'})
klass('AuthSession', module=MA, fields={'auth': 'SASLAuth', 'io': 'IO'})
extern('SASLAuth.get_server', params={'self': 'SASLAuth', 'name': 'Bytes'}, returns='Opt[Mechanism]', pure=True)
extern('Mechanism.server_attempt', params={'self': 'Mechanism', 'responses': 'List[ChallengeResponse]'},
       returns='Tuple[Any, Any]',
       raises={'AuthenticationError': [], 'ServerChallenge': [], 'UnicodeDecodeError': []},
       notes='pysasl mechanism: returns (credentials, final) built from the responses, raises ServerChallenge for the '
             'next challenge, AuthenticationError for malformed responses (UnicodeDecodeError is a ValueError: non-UTF-8 credentials)')
for _p in ('noarg_pattern', 'witharg_pattern'):
    global_object(_p, 'Pattern')
extern('Match.group', params={'self': 'Match', 'g': 'Int'}, returns='Bytes', pure=True)
extern('IO.recv_line', params={'self': 'IO'}, returns='Bytes', yields=True,
       requires=['in_timeout_scope()'], raises={'ConnectionLost': [], 'Timeout': []},
       notes='IO.recv_line blocks on the peer (G4); its stream contract: C09')
def _b64encode(st, args, kw):
    f = z3.Function('py_b64encode', z3.StringSort(), z3.StringSort())
    ok = z3.Function('py_decodable', z3.StringSort(), z3.BoolSort())
    r = f(args[0].z)
    st.assume(ok(r))          # base64 output is ASCII
    return Val(T.BYTES, r)


extern('base64.b64encode', model=_b64encode, notes='base64.b64encode: a function of its input; the output is ASCII')
extern('base64.b64decode', params={'s': 'Bytes'}, returns='Bytes',
       raises={'BinasciiError': []}, notes='base64.b64decode raises binascii.Error (a ValueError) on bad input')

contract('AuthSession._parse_arg', module=MA, props=['C08'],
         params={'self': 'AuthSession', 'arg': 'Opt[Bytes]'}, returns='Tuple[Bytes, Opt[Bytes]]',
         # a malformed / missing argument is reported as a ServerAuthError carrying an error reply -- for EVERY shape
         raises={'InvalidMechanismError': ['exc.reply != None', 'is_err_code(exc.reply.code)', 'auth_err_code(exc.reply.code)']},
         modifies=['fresh'])

contract('AuthSession._server_challenge', module=MA, props=['C08', 'C14'],
         params={'self': 'AuthSession', 'challenge': 'Bytes', 'response': 'Opt[Bytes]'}, returns='Bytes',
         requires=['self.io != None', 'self.io.sent != None', 'in_timeout_scope()'],
         ensures=['forall(range(0, old(len(self.io.sent))), lambda j: self.io.sent[j] == old(seq(self.io.sent))[j])', 'len(self.io.sent) >= old(len(self.io.sent))'],
         raises={'AuthenticationCanceled': ['exc.reply != None', 'is_err_code(exc.reply.code)', 'auth_err_code(exc.reply.code)', 'forall(range(0, old(len(self.io.sent))), lambda j: self.io.sent[j] == old(seq(self.io.sent))[j])', 'len(self.io.sent) >= old(len(self.io.sent))'], 'InvalidAuthString': ['exc.reply != None', 'is_err_code(exc.reply.code)', 'auth_err_code(exc.reply.code)', 'forall(range(0, old(len(self.io.sent))), lambda j: self.io.sent[j] == old(seq(self.io.sent))[j])', 'len(self.io.sent) >= old(len(self.io.sent))'],
                 'BinasciiError': ['forall(range(0, old(len(self.io.sent))), lambda j: self.io.sent[j] == old(seq(self.io.sent))[j])', 'len(self.io.sent) >= old(len(self.io.sent))'], 'ConnectionLost': [], 'Timeout': []},
         modifies=['contents(self.io.sent)', 'fresh'])

contract('AuthSession.server_attempt', module=MA, props=['C08'],
         params={'self': 'AuthSession', 'arg': 'Opt[Bytes]'}, returns='Any',
         requires=['self.io != None', 'self.io.sent != None', 'self.auth != None', 'in_timeout_scope()'],
         # what reaches Server._command_AUTH is credentials, a ValueError or a ServerAuthError with an error reply:
         # nothing else (no TypeError / AttributeError) for any argument shape
         ensures=['forall(range(0, old(len(self.io.sent))), lambda j: self.io.sent[j] == old(seq(self.io.sent))[j])', 'len(self.io.sent) >= old(len(self.io.sent))'],
         raises={'ServerAuthError': ['exc.reply != None', 'is_err_code(exc.reply.code)', 'auth_err_code(exc.reply.code)', 'forall(range(0, old(len(self.io.sent))), lambda j: self.io.sent[j] == old(seq(self.io.sent))[j])', 'len(self.io.sent) >= old(len(self.io.sent))'], 'ValueError': ['forall(range(0, old(len(self.io.sent))), lambda j: self.io.sent[j] == old(seq(self.io.sent))[j])', 'len(self.io.sent) >= old(len(self.io.sent))'], 'ConnectionLost': [], 'Timeout': []},
         locals={'responses': 'List[ChallengeResponse]'},
         modifies=['contents(self.io.sent)', 'fresh'],
         loops={0: dict(modifies=['contents(self.io.sent)', 'fresh'],
                        inv=['responses != None and fresh(responses) and is_list(responses)',
                             'self.io != None and self.io.sent != None', 'forall(range(0, old(len(self.io.sent))), lambda j: self.io.sent[j] == old(seq(self.io.sent))[j])', 'len(self.io.sent) >= old(len(self.io.sent))'])})
