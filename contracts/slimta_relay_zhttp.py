"""Contracts for slimta/relay/http.py (HttpRelayClient): C11 / C19 -- every delivery request taken from the pool
queue is answered exactly once, whatever the HTTP exchange does (status class, missing reply header, connection
error, relay timeout).  (File name sorts after slimta_relay_smtp.py, whose classes it uses.)"""
import z3
from pyvc.registry import klass, extern, contract, predicate, assume_note, global_object
from pyvc import types as T
from pyvc.core import Val, SeqV, Undecided
from pyvc import exec as E, builtins as B, calls

M = 'slimta/relay/http.py'
klass('HTTPResponse', fields={'status': 'Int', 'reason': 'Str'})
klass('HTTPConnection')
klass('HttpRelay', ['RelayPool'], module=M, fields={'idle_timeout': 'Opt[Real]', 'timeout': 'Opt[Real]'})
klass('HttpRelayClient', ['RelayPoolClient'], module=M,
      fields={'conn': 'HTTPConnection', 'relay': 'HttpRelay'},
      ghost={'cur': 'AsyncResult'})
extern('HTTPConnection.close', params={'self': 'HTTPConnection'})
extern('HTTPResponse.getheaders', params={'self': 'HTTPResponse'}, returns='Any')
extern('gevent.Timeout#cls', params={})
extern('HttpRelayClient._parse_smtp_reply_header', params={'self': 'HttpRelayClient', 'http_res': 'HTTPResponse'},
       returns='Reply', ensures=['implies(result != None, fresh(result) and result.code is not None and len(cast(result.code, Str)) == 3)'],
       notes='HttpRelayClient._parse_smtp_reply_header assumed at its call site: the X-Smtp-Reply header as a Reply with a '
             'three-digit code, or None (regex parsing, C06 territory)')
extern('py_status_line', params={})


def _fmt_status(st, recv, args, kw):
    """'{0!s} {1}'.format(status, reason): the decimal status, a space, the reason"""
    f = z3.Function('py_int_str', z3.IntSort(), z3.StringSort())
    tmpl = z3.simplify(recv.z)
    if not (z3.is_string_value(tmpl) and tmpl.as_string() == '{0!s} {1}' and len(args) == 2 and args[0].t.kind == 'int'):
        return _GENERIC_FORMAT(st, recv, args, kw)      # any other template: an opaque string
    a, b = args
    s = f(a.z)
    # the first character of the decimal form of a three-digit status is its hundreds digit
    for d in range(1, 6):
        st.assume(z3.Implies(z3.And(a.z >= d * 100, a.z < (d + 1) * 100), z3.PrefixOf(z3.StringVal(str(d)), s)))
    st.assume(z3.Length(s) >= 1)
    return Val(T.STR, z3.Concat(s, z3.StringVal(' '), st.coerce(b, T.STR).z))


_GENERIC_FORMAT = calls.METHOD_MODELS[('str', 'format')]
calls.METHOD_MODELS[('str', 'format')] = _fmt_status

contract('HttpRelayClient._process_response', module=M, props=['C11', 'C19', 'C06'],
         params={'self': 'HttpRelayClient', 'http_res': 'HTTPResponse', 'result': 'AsyncResult'},
         requires=['http_res != None', 'result != None', 'AR_ok(result)', 'http_res.status >= 100 and http_res.status < 600'],
         ensures=['AR_ok(result)', 'result.n_answers == old(result.n_answers) + 1', 'result.answered',
                  # success is reported only for a 2xx status; everything else is a relay error
                  'result.is_exc == (not (http_res.status >= 200 and http_res.status < 300))',
                  'implies(result.is_exc, isinstance(result.value, RelayError) and cast(result.value, RelayError).reply != None)'],
         modifies=['result.answered', 'result.n_answers', 'result.is_exc', 'result.value', 'fresh'])

# ---- the HTTP exchange itself (C14: every blocking step under the relay timeout; C11: answered through
# _process_response exactly when a response arrived)
klass('SplitResult', fields={'path': 'Str'})
klass('HttpRelayClient', fields={'url': 'SplitResult'})
klass('HttpRelay', fields={'http_verb': 'Str'})
HSCOPE = ['in_timeout_scope()']
HERR = {'OSError': [], 'Timeout': [], 'OtherException': []}
extern('HttpRelayClient._new_conn', params={'self': 'HttpRelayClient'}, modifies=['self.conn', 'self.ehlo_as'],
       ensures=['self.conn != None', 'fresh(self.conn)'], raises={'OSError': [], 'OtherException': []},
       notes='HttpRelayClient._new_conn: builds the http.client connection object (no I/O: the connection is opened '
             'lazily by the first request)')
extern('HTTPConnection.putrequest', params={'self': 'HTTPConnection', 'method': 'Str', 'url': 'Str'}, raises=HERR,
       notes='http.client: buffers the request line')
extern('HTTPConnection.putheader', params={'self': 'HTTPConnection', 'name': 'Bytes', 'value': 'Bytes'}, raises=HERR,
       notes='http.client: buffers one header line')
for _m, _p in (('endheaders', {'message_body': 'Bytes'}), ('send', {'data': 'Bytes'})):
    p = {'self': 'HTTPConnection'}
    p.update(_p)
    extern('HTTPConnection.' + _m, params=p, yields=True, requires=HSCOPE, raises=HERR,
           notes='http.client %s: connects if necessary and writes to the socket (blocks: G4 scope required)' % _m)
extern('HTTPConnection.getresponse', params={'self': 'HTTPConnection'}, returns='HTTPResponse', yields=True,
       requires=HSCOPE, raises=HERR,
       ensures=['result != None', 'fresh(result)', 'result.status >= 100 and result.status < 600'],
       notes='http.client getresponse: blocks until the status line and headers arrived (G4 scope required)')
contract('HttpRelayClient._handle_request', module=M, props=['C11', 'C14', 'C19'], yields=True,
         params={'self': 'HttpRelayClient', 'result': 'AsyncResult', 'envelope': 'Envelope'},
         requires=['result != None', 'AR_ok(result)', 'self.relay != None', 'self.url != None', 'envelope != None',
                   'envelope.recipients != None', 'envelope.sender is not None'],
         ensures=['AR_ok(result)', 'result.n_answers == old(result.n_answers) + 1', 'result.answered'],
         # whatever escapes (connection error, the relay timeout, an encoding error), the request is not answered twice;
         # a connection error or the timeout leaves it unanswered (the caller answers it)
         raises={'OSError': ['AR_ok(result)', 'result.n_answers == old(result.n_answers)'],
                 'Timeout': ['AR_ok(result)', 'result.n_answers == old(result.n_answers)'],
                 'OtherException': ['AR_ok(result)', 'result.n_answers <= old(result.n_answers) + 1',
                                    'result.n_answers >= old(result.n_answers)'],
                 'UnicodeEncodeError': ['AR_ok(result)', 'result.n_answers == old(result.n_answers)'],
                 'AssertionError': ['AR_ok(result)', 'result.n_answers == old(result.n_answers)']},
         checks=['ncalls("HttpRelayClient._process_response") == 1', 'ncalls("HTTPConnection.getresponse") == 1'],
         modifies=['result.answered', 'result.n_answers', 'result.is_exc', 'result.value', 'self.conn', 'self.ehlo_as', 'fresh'],
         scope_timeouts=['self.relay.timeout'],
         loops={0: dict(modifies=['new'], inv=['self.conn != None', 'AR_ok(result)', 'result.n_answers == old(result.n_answers)',
                                               'result.answered == old(result.answered)'])})
extern('HttpRelayClient.poll', params={'self': 'HttpRelayClient'}, returns='Tuple[AsyncResult, Envelope]', yields=True,
       ensures=['(result[0] == None) == (result[1] == None)',
                'implies(result[0] != None, allocated(result[0]) and allocated(result[1]) and not result[0].answered '
                '        and result[0].n_answers == 0 and AR_ok(result[0]) '
                '        and result[1].recipients != None and result[1].sender is not None)'],
       notes='RelayPoolClient.poll as seen by the HTTP client (assumed view, as for the SMTP client)')
klass('Envelope', truthy='True')
klass('AsyncResult', truthy='True')

HDONE = 'self.cur == None or (self.cur.answered and self.cur.n_answers == 1)'
contract('HttpRelayClient._wait_for_request', module=M, props=['C11', 'C19'], yields=True,
         params={'self': 'HttpRelayClient'},
         ghost_after={'result, envelope = self.poll()': ['self.cur = result']},
         requires=['self.relay != None', 'self.url != None'],
         # the request taken from the queue is answered exactly once, also when the exchange fails
         ensures=[HDONE],
         raises={'OSError': [HDONE], 'Timeout': [HDONE], 'OtherException': [HDONE], 'UnicodeEncodeError': [HDONE],
                 'AssertionError': [HDONE]},
         modifies=['self.cur', 'self.idle', 'self.conn', 'self.ehlo_as', 'any(AsyncResult).answered', 'any(AsyncResult).n_answers',
                   'any(AsyncResult).is_exc', 'any(AsyncResult).value', 'fresh'],
         locals={'result': 'AsyncResult', 'envelope': 'Envelope'})

contract('HttpRelayClient._run', module=M, props=['C11', 'C19'], yields=True,
         params={'self': 'HttpRelayClient'},
         requires=['self.relay != None', 'self.url != None', 'self.cur == None'],
         # the connection's life: whatever ends it, the request it held last has been answered
         ensures=[HDONE],
         raises={'OSError': [HDONE], 'OtherException': [HDONE], 'UnicodeEncodeError': [HDONE], 'AssertionError': [HDONE]},
         modifies=['self.cur', 'self.idle', 'self.conn', 'self.ehlo_as', 'any(AsyncResult).answered', 'any(AsyncResult).n_answers',
                   'any(AsyncResult).is_exc', 'any(AsyncResult).value', 'fresh'],
         loops={0: dict(inv=['self.relay != None', 'self.url != None', HDONE])})

# ---------------------------------------------------------------------------- C06 fragment: HTTP envelope addressing
# Client: one header per recipient, in recipient order, each the base64 form of THAT recipient; sender likewise.
# Edge: every piece of the (comma-joined) recipient header is decoded, in order.  base64 / utf-8 are opaque functions
# with dec(enc(x)) == x assumed; the joining of repeated headers by the HTTP/WSGI layer is outside the code.
MW = 'slimta/edge/wsgi.py'
_B64E = z3.Function('py_b64e', z3.StringSort(), z3.StringSort())
_B64D = z3.Function('py_b64d', z3.StringSort(), z3.StringSort())


def _b64e(st, args):
    s = st.coerce(args[0], T.STR).z
    st.assume(_B64D(_B64E(s)) == s)
    return Val(T.STR, _B64E(s))


def _b64d(st, args):
    return Val(T.STR, _B64D(st.coerce(args[0], T.STR).z))


calls.SPECFUNS['b64e'] = _b64e
calls.SPECFUNS['b64d'] = _b64d
klass('HttpRelay', fields={'ehlo_header': 'Str', 'sender_header': 'Str', 'recipient_header': 'Str'})
klass('HttpRelayClient', fields={'ehlo_as': 'Str'})
extern('HttpRelayClient._b64encode', params={'self': 'HttpRelayClient', 'what': 'Str'}, returns='Str', pure=True,
       ensures=['result == b64e(what)'],
       notes='HttpRelayClient._b64encode = b64encode(what.encode("utf-8")).decode("ascii"): opaque, invertible (assumed)')

contract('HttpRelayClient._build_headers', module=M, props=['C06'],
         params={'self': 'HttpRelayClient', 'envelope': 'Envelope', 'msg_headers': 'Bytes', 'msg_body': 'Bytes'},
         returns='List[Tuple[Str, Str]]',
         requires=['self.relay != None', 'envelope != None', 'envelope.recipients != None', 'envelope.sender is not None'],
         ensures=['result != None', 'len(result) == 4 + len(envelope.recipients)',
                  # the sender header, then exactly one header per recipient, in recipient order
                  'result[3][0] == self.relay.sender_header and result[3][1] == b64e(cast(envelope.sender, Str))',
                  'forall(range(0, len(envelope.recipients)), lambda i: result[4 + i][0] == self.relay.recipient_header '
                  '       and result[4 + i][1] == b64e(envelope.recipients[i]))'],
         modifies=['fresh'], locals={'headers': 'List[Tuple[Str, Str]]'},
         loops={0: dict(modifies=['contents(headers)', 'new'],
                        inv=['headers != None and fresh(headers) and is_list(headers) and len(headers) == 4 + _k',
                             'headers[3][0] == self.relay.sender_header and headers[3][1] == b64e(cast(envelope.sender, Str))',
                             'forall(range(0, _k), lambda i: headers[4 + i][0] == self.relay.recipient_header '
                             '       and headers[4 + i][1] == b64e(envelope.recipients[i]))'])})

klass('SplitPattern')
klass('WsgiEdge', fields={'split_pattern': 'SplitPattern', 'sender_header': 'Str', 'rcpt_header': 'Str'})
extern('_header_name_to_cgi', params={'name': 'Str'}, returns='Str', pure=True)
extern('SplitPattern.split', params={'self': 'SplitPattern', 's': 'Str'}, returns='List[Str]',
       ensures=['result != None', 'fresh(result)', 'is_list(result)', 'len(result) >= 1'],
       notes="re.compile(r'\\\\s*[,;]\\\\s*').split(s): the pieces between separators (opaque)")
extern('WsgiEdge._b64decode', params={'self': 'WsgiEdge', 'b64str': 'Str'}, returns='Str', pure=True,
       ensures=['result == b64d(b64str)'],
       notes='WsgiEdge._b64decode = b64decode(s.encode("ascii")).decode("utf-8"): opaque inverse of the client encoding')
T.alias('Environ', 'Dict[Str, Str]')

contract('WsgiEdge._get_recipients', module=MW, props=['C06'],
         params={'self': 'WsgiEdge', 'environ': 'Environ'}, returns='List[Str]',
         requires=['environ != None', 'self.split_pattern != None'],
         ensures=['result != None'],
         ghost_entry=['_gsplit = False', '_gparts = [""][0:0]'],
         ghost_after={'rcpts_split = self.split_pattern.split(rcpts_raw)': ['_gsplit = True', '_gparts = rcpts_split']},
         checks=[
             # no recipient header: no recipients; otherwise every piece of the header is decoded, in order
             'implies(not _gsplit, len(result) == 0)',
             'implies(_gsplit, len(result) == len(_gparts) '
             '   and forall(range(0, len(result)), lambda i: result[i] == self._b64decode(_gparts[i])))'],
         modifies=['fresh'])

contract('WsgiEdge._get_sender', module=MW, props=['C06'],
         params={'self': 'WsgiEdge', 'environ': 'Environ'}, returns='Str',
         requires=['environ != None'],
         ensures=['result == b64d(ite(dict_has(environ, _header_name_to_cgi(self.sender_header)), '
                  '                  dict_get(environ, _header_name_to_cgi(self.sender_header)), ""))'],
         modifies=['fresh'])
