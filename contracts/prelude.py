"""Assumed contracts of external dependencies (trusted base; every entry is
listed in the evidence files).  See DESIGN.md Appendix D."""
import z3
from pyvc import types as T
from pyvc.registry import klass, extern, contract, predicate, assume_note
from pyvc.core import Val, SeqV, Undecided
from pyvc import builtins as B, exec as E, calls

T.alias('Id', 'Str')
T.alias('Entry', 'Tuple[Real, Str]')

# ---- gevent primitives -------------------------------------------------------
klass('Event', fields={'flag': 'Bool'})
extern('Event.set', params={'self': 'Event'}, modifies=['self.flag'], ensures=['self.flag'])
extern('Event.clear', params={'self': 'Event'}, modifies=['self.flag'], ensures=['not self.flag'])
extern('Event.is_set', params={'self': 'Event'}, returns='Bool', ensures=['result == self.flag'], pure=True)
extern('Event.wait', params={'self': 'Event', 'timeout': 'Opt[Real]'}, defaults={'timeout': 'None'},
       returns='Bool', yields=True, modifies=['self.flag'],
       notes='blocks until set or timeout; yield point')

# ghost `held`: the greenlet that runs the function under verification holds the semaphore (used as a lock)
klass('Semaphore', fields={'counter': 'Int'}, ghost={'held': 'Bool'})
extern('Semaphore.acquire', params={'self': 'Semaphore'}, returns='Bool', yields=True,
       modifies=['self.counter', 'self.held'],
       ensures=['self.counter == old(self.counter) - 1 or old(self.counter) == 0', 'self.counter >= 0', 'self.held'],
       notes='yields iff counter == 0')
extern('Semaphore.release', params={'self': 'Semaphore'}, modifies=['self.counter', 'self.held'],
       ensures=['self.counter == old(self.counter) + 1', 'not self.held'])


def _time_time(st, args, kw):
    v = st.fresh_val(T.REAL, 'now')
    last = st.ghost.get('$now')
    if last is not None:
        st.assume(v.z >= last)
    st.ghost['$now'] = v.z
    return v


extern('time.time', model=_time_time, notes='time.time(): a real, non-decreasing along a greenlet')


def _insort(st, args, kw):
    """bisect.insort(l, x) on a list of tuples whose first component is the sort key.
    Requires l sorted by key (proved at the call site); inserts x at a position p with
    every element before p having key <= x.key and every element from p on key >= x.key
    (holds for lexicographic tuple comparison on a key-sorted list, see DESIGN.md)."""
    lst, x = args
    et = lst.t.args[0]
    if et.kind != 'tuple':
        raise Undecided('insort model: list of tuples expected')
    E.check_frame_contents(st, lst.z)
    s = st.list_seq(lst.z, et)
    dt = T.sort_of(et)
    key = lambda e: dt.accessor(0, 0)(e)
    i = z3.Int('i!is')
    j = z3.Int('j!is')
    pre = z3.ForAll([i, j], z3.Implies(z3.And(0 <= i, i <= j, j < s.n),
                                       key(z3.Select(s.arr, i)) <= key(z3.Select(s.arr, j))),
                    patterns=[z3.MultiPattern(z3.Select(s.arr, i), z3.Select(s.arr, j))])
    st.prove('call[bisect.insort]@%d/pre-sorted' % st.lineno, pre, kind='pre')
    xv = st.coerce(x, et).z
    p = st.fresh(z3.IntSort(), 'inspos')
    st.assume(z3.And(0 <= p, p <= s.n))
    st.assume(z3.ForAll([i], z3.Implies(z3.And(0 <= i, i < p), key(z3.Select(s.arr, i)) <= key(xv)),
                        patterns=[z3.Select(s.arr, i)]))
    st.assume(z3.ForAll([i], z3.Implies(z3.And(p <= i, i < s.n), key(z3.Select(s.arr, i)) >= key(xv)),
                        patterns=[z3.Select(s.arr, i)]))
    st.list_store(lst.z, et, B.seq_insert(st, s, dt, p, xv))
    return E.NONE_VAL()


extern('bisect.insort', model=_insort, notes='bisect.insort: ordered insertion (model in contracts/prelude.py)')


# ---- gevent.Timeout used as an object rather than as a context manager: `t = Timeout(s)` arms nothing; `t.start()` /
# `Timeout.start_new(s)` open a timeout scope (G4) that lasts until `t.cancel()` / `t.close()`
def _timeout_start(st, args, kw):
    from pyvc import calls
    t = args[0]
    started = st.ghost.setdefault('$timeout_started', set())
    if t.z.get_id() not in started:
        started.add(t.z.get_id())
        calls._timeout_enter(st, t)
    from pyvc.core import Val
    return Val(T.NONE, T.PyVal.none)


def _timeout_cancel(st, args, kw):
    from pyvc import calls
    t = args[0]
    started = st.ghost.setdefault('$timeout_started', set())
    if t.z.get_id() in started:
        started.discard(t.z.get_id())
        calls._timeout_exit(st, t, None, None)
    from pyvc.core import Val
    return Val(T.NONE, T.PyVal.none)


extern('Timeout.start', model=_timeout_start, notes='gevent.Timeout.start(): arms the timer (opens a G4 scope)')
extern('Timeout.cancel', model=_timeout_cancel, notes='gevent.Timeout.cancel(): disarms the timer (closes the scope it opened, if any)')
extern('Timeout.close', model=_timeout_cancel, notes='gevent.Timeout.close() = cancel()')
