"""Contracts for slimta/relay/smtp/__init__.py and slimta/relay/smtp/client.py: C11 (error classification,
per-stage reply checks), C14 (client-side timeout scopes), C06 (recipient reply check)."""
import z3
from pyvc.registry import klass, extern, contract, predicate, assume_note, global_object
from pyvc import types as T
from pyvc.core import Val, SeqV, Undecided
from pyvc import exec as E, builtins as B, calls

MI = 'slimta/relay/smtp/__init__.py'
M = 'slimta/relay/smtp/client.py'

klass('SmtpRelayError', ['RelayError'], module=MI)
klass('SmtpTransientRelayError', ['SmtpRelayError', 'TransientRelayError'], module=MI)
klass('SmtpPermanentRelayError', ['SmtpRelayError', 'PermanentRelayError'], module=MI)
for _c in ('SmtpTransientRelayError', 'SmtpPermanentRelayError'):
    extern(_c + '.__init__', params={'self': _c, 'reply': 'Reply'}, modifies=['self.reply'],
           requires=['reply != None'], ensures=['self.reply is reply'])

predicate('is_err_code(c)', 'c is not None and (str_prefix(cast(c, Str), "4") or str_prefix(cast(c, Str), "5"))')
extern('Reply.is_error', params={'self': 'Reply'}, returns='Bool', pure=True, reads=['self.code'],
       requires=['self.code is not None'],
       ensures=['result == (str_prefix(cast(self.code, Str), "4") or str_prefix(cast(self.code, Str), "5"))'],
       notes='Reply.is_error(): code[0] in ("4","5")')

contract('SmtpRelayError.factory', module=MI, props=['C11'],
         params={'reply': 'Reply'}, returns='SmtpRelayError',
         requires=['reply != None', 'reply.code is not None', 'len(cast(reply.code, Str)) >= 1'],
         # 5xx <=> permanent; everything else transient
         ensures=['result != None', 'fresh(result)', 'result.reply is reply',
                  'isinstance(result, PermanentRelayError) == str_prefix(cast(reply.code, Str), "5")',
                  'isinstance(result, TransientRelayError) == (not str_prefix(cast(reply.code, Str), "5"))'],
         modifies=['fresh'])
R_FACTORY = None

# ---------------------------------------------------------------------------- slimta.smtp.client.Client (assumed here; C10)
# the relay sees slimta.smtp.client.Client through an ASSUMED interface (ClientView); the real Client methods
# that are under contract are in contracts/slimta_smtp_client.py (C10)
klass('ClientView', fields={'last_error': 'Reply', 'extensions': 'Extensions', 'io': 'IO'})
SCOPE = ['in_timeout_scope()']
CL_RAISES = {'ConnectionLost': [], 'BadReply': [], 'OSError': [], 'Timeout': []}
for _m, _p in (('get_banner', {}), ('ehlo', {'ehlo_as': 'Any'}), ('helo', {'ehlo_as': 'Any'}),
               ('starttls', {'context': 'Any'}), ('rset', {}), ('data', {}), ('quit', {}),
               ('get_reply', {}), ('rcptto', {'rcpt': 'Any'})):
    p = {'self': 'ClientView'}
    p.update(_p)
    extern('ClientView.' + _m, params=p, returns='Reply', yields=True, requires=SCOPE, raises=CL_RAISES,
           ensures=['result != None', 'result.code is not None', 'len(cast(result.code, Str)) == 3'],
           notes='Client.%s (assumed view): waits for the peer (G4 scope required); returns the populated reply '
                 '(pipelining / pairing of replies is C10)' % _m)
extern('ClientView.mailfrom', params={'self': 'ClientView', 'sender': 'Any', 'auth': 'Any'}, defaults={'auth': 'None'},
       returns='Reply', yields=True, requires=SCOPE, raises=CL_RAISES,
       ensures=['result != None', 'implies(result.code is not None, len(cast(result.code, Str)) == 3)'])
extern('ClientView.auth', params={'self': 'ClientView', '*creds': 'Args0', 'mechanism': 'Any'}, defaults={'mechanism': 'None'},
       returns='Reply', yields=True, requires=SCOPE, raises=CL_RAISES,
       ensures=['result != None', 'result.code is not None', 'len(cast(result.code, Str)) == 3'])
extern('ClientView.send_data', params={'self': 'ClientView', '*data': 'Args0'},
       returns='Union[Reply, List[Tuple[Str, Reply]]]', yields=True,
       ensures=['implies(is_type(result, Reply), cast(result, Reply) != None and allocated(cast(result, Reply)))'],
       notes='Client.send_data: returns the end-of-data Reply (SMTP) or the list of per-recipient replies (LMTP); '
             'populated once the pipeline has been flushed',
       requires=SCOPE, raises=CL_RAISES)
extern('ClientView.send_empty_data', params={'self': 'ClientView'}, returns='Any', yields=True, requires=SCOPE, raises=CL_RAISES)
extern('ClientView._flush_pipeline', params={'self': 'ClientView'}, yields=True, requires=SCOPE, raises=CL_RAISES,
       modifies=['any(Reply).code', 'any(Reply).message'],
       ensures=['forall(Reply, lambda r: implies(allocated(r) and old(r.code) is None, r.code is not None and len(cast(r.code, Str)) == 3))',
                'forall(Reply, lambda r: implies(old(r.code) is not None, r.code == old(r.code)))'],
       notes='Client._flush_pipeline: blocking read of every outstanding reply (G4 scope required)')
extern('ClientView.encrypt', params={'self': 'ClientView', 'context': 'Any'}, yields=True, requires=SCOPE, raises=CL_RAISES,
       notes='Client.encrypt: TLS handshake (G4 scope required)')
extern('ClientView.has_reply_waiting', params={'self': 'ClientView'}, returns='Bool')
extern('IO.close', params={'self': 'IO'})

klass('SmtpRelayClient', ['RelayPoolClient'], module=M,
      fields={'client': 'ClientView', 'address': 'Any', 'socket': 'Any', 'socket_creator': 'Any', 'ehlo_as': 'Any',
              'context': 'Any', 'auth_mechanism': 'Any', 'tls_immediately': 'Bool', 'tls_required': 'Bool',
              'connect_timeout': 'Opt[Real]', 'command_timeout': 'Opt[Real]', 'data_timeout': 'Opt[Real]',
              'credentials': 'Any', 'binary_encoder': 'Any', 'current_command': 'Any'})

RC = dict(module=M, scope_timeouts=['self.connect_timeout', 'self.command_timeout', 'self.data_timeout'])
ERR = {'SmtpRelayError': ['exc.reply != None'], 'ConnectionLost': [], 'BadReply': [], 'OSError': [], 'Timeout': [],
       'AssertionError': []}


def stage(name, extra_params=None, returns='Reply', ensures=(), props=('C11', 'C14'), raises=None, requires=()):
    p = {'self': 'SmtpRelayClient'}
    p.update(extra_params or {})
    contract('SmtpRelayClient.' + name, params=p, returns=returns, props=list(props),
             requires=list(requires), ensures=list(ensures), raises=raises or ERR, modifies=['fresh'], **RC)


# a stage returns normally only if the downstream reply was not an error; a 4xx/5xx is raised as relay error
stage('_banner', returns='None')
stage('_helo', {'ehlo_as': 'Any'}, ensures=['result != None', 'not result.is_error()'])
stage('_starttls', returns='None')
stage('_rset', returns='None')
stage('_mailfrom', {'sender': 'Any'}, ensures=['result != None',
                                              'implies(result.code is not None, not result.is_error())'])
stage('_rcptto', {'rcpt': 'Any'}, ensures=['result != None', 'result.code is not None'])
stage('_data', ensures=['result != None', 'result.code is not None'])
stage('_send_empty_data', returns='None')

contract('SmtpRelayClient._send_message_data', props=['C11', 'C14'],
         params={'self': 'SmtpRelayClient', 'envelope': 'Envelope'}, returns='Any',
         requires=['envelope != None'], raises=ERR,
         # the end-of-data reply is returned only if it is not an error
         ensures=['implies(is_type(result, Reply), not cast(result, Reply).is_error())'],
         modifies=['fresh', 'any(Reply).code', 'any(Reply).message'], **RC)

contract('SmtpRelayClient._handshake', props=['C14'],
         params={'self': 'SmtpRelayClient'},
         raises=dict(ERR, TypeError=[]), modifies=['fresh'], **RC)

contract('SmtpRelayClient._check_replies', props=['C11', 'C06'],
         params={'self': 'SmtpRelayClient', 'mailfrom': 'Reply', 'rcpttos': 'List[Reply]', 'data': 'Reply'},
         requires=['mailfrom != None', 'mailfrom.code is not None', 'data != None', 'data.code is not None',
                   'rcpttos != None', 'len(rcpttos) >= 1',
                   'forall(rcpttos, lambda r: r != None and r.code is not None and len(cast(r.code, Str)) == 3)',
                   'len(cast(mailfrom.code, Str)) == 3', 'len(cast(data.code, Str)) == 3'],
         # the transaction goes on only if MAIL, DATA and AT LEAST ONE recipient were accepted
         ensures=['not mailfrom.is_error()', 'not data.is_error()',
                  'exists(rcpttos, lambda r: not r.is_error())'],
         raises={'SmtpRelayError': ['exc.reply != None',
                                    'mailfrom.is_error() or data.is_error() or forall(rcpttos, lambda r: r.is_error())']},
         modifies=['fresh'],
         loops={0: dict(inv=['forall(range(0, _k), lambda j: rcpttos[j].is_error())'])}, **RC)

contract('SmtpRelayClient._check_server_timeout', props=['C14'],
         params={'self': 'SmtpRelayClient'}, returns='Bool',
         raises={'AssertionError': [], 'Timeout': [], 'OSError': []}, modifies=['fresh'], **RC)

extern('str', params={})
contract('SmtpRelayClient._get_error_reply', props=['C11'],
         params={'self': 'SmtpRelayClient', 'exc': 'SmtpError'}, returns='Reply',
         requires=['self.client != None'],
         # a disconnect / protocol error is reported as transient: always a 421, either the server's own or a new one
         ensures=['result != None', 'result.code == "421"'],
         raises={'AssertionError': []}, modifies=['fresh'], **RC)

contract('SmtpRelayClient._ehlo', kind='extern', params={'self': 'SmtpRelayClient'}, returns='Reply', yields=True,
         raises=ERR, notes='SmtpRelayClient._ehlo assumed at its call sites (calls a user-supplied ehlo_as callable '
                           'under `except TypeError`; its Timeout scope is the same pattern as _helo)')
contract('SmtpRelayClient._authenticate', kind='extern', params={'self': 'SmtpRelayClient'}, yields=True,
         raises=ERR, notes='SmtpRelayClient._authenticate assumed at its call site (user-supplied credentials callable)')
