"""Contracts for slimta/relay/smtp/__init__.py and slimta/relay/smtp/client.py: C11 (error classification,
per-stage reply checks), C14 (client-side timeout scopes), C06 (recipient reply check)."""
import z3
from pyvc.registry import klass, extern, contract, predicate, assume_note, global_object
from pyvc import types as T
from pyvc.core import Val, SeqV, Undecided
from pyvc import exec as E, builtins as B, calls

MI = 'slimta/relay/smtp/__init__.py'
M = 'slimta/relay/smtp/client.py'

klass('SmtpRelayError', ['RelayError'], module=MI)
klass('SmtpTransientRelayError', ['SmtpRelayError', 'TransientRelayError'], module=MI)
klass('SmtpPermanentRelayError', ['SmtpRelayError', 'PermanentRelayError'], module=MI)
for _c in ('SmtpTransientRelayError', 'SmtpPermanentRelayError'):
    extern(_c + '.__init__', params={'self': _c, 'reply': 'Reply'}, modifies=['self.reply'],
           requires=['reply != None'], ensures=['self.reply is reply'])

predicate('is_err_code(c)', 'c is not None and (str_prefix(cast(c, Str), "4") or str_prefix(cast(c, Str), "5"))')
extern('Reply.is_error', params={'self': 'Reply'}, returns='Bool', pure=True, reads=['self.code'],
       requires=['self.code is not None'],
       ensures=['result == (str_prefix(cast(self.code, Str), "4") or str_prefix(cast(self.code, Str), "5"))'],
       notes='Reply.is_error(): code[0] in ("4","5")')

contract('SmtpRelayError.factory', module=MI, props=['C11'],
         params={'reply': 'Reply'}, returns='SmtpRelayError',
         requires=['reply != None', 'reply.code is not None', 'len(cast(reply.code, Str)) >= 1'],
         # 5xx <=> permanent; everything else transient
         ensures=['result != None', 'fresh(result)', 'result.reply is reply',
                  'isinstance(result, PermanentRelayError) == str_prefix(cast(reply.code, Str), "5")',
                  'isinstance(result, TransientRelayError) == (not str_prefix(cast(reply.code, Str), "5"))'],
         modifies=['fresh'])
R_FACTORY = None

# ---------------------------------------------------------------------------- slimta.smtp.client.Client (assumed here; C10)
# the relay sees slimta.smtp.client.Client through an ASSUMED interface (ClientView); the real Client methods
# that are under contract are in contracts/slimta_smtp_client.py (C10)
klass('ClientView', fields={'last_error': 'Reply'})
extern('ClientView.extensions', params={'self': 'ClientView'}, returns='Extensions', is_property=True, pure=True,
       ensures=['result != None'], notes='Client.extensions: the Extensions object created by the constructor, never reassigned')
# Client.io is assigned once, in the constructor: a read-only view (a pure function of the client object)
extern('ClientView.io', params={'self': 'ClientView'}, returns='IO', is_property=True, pure=True, ensures=['result != None'],
       notes='Client.io: the IO object created by the constructor, never reassigned')
SCOPE = ['in_timeout_scope()']
CL_RAISES = {'ConnectionLost': [], 'BadReply': [], 'OSError': [], 'Timeout': []}
for _m, _p in (('get_banner', {}), ('ehlo', {'ehlo_as': 'Any'}), ('helo', {'ehlo_as': 'Any'}),
               ('starttls', {'context': 'Any'}), ('rset', {}), ('data', {}), ('quit', {}),
               ('get_reply', {}), ('rcptto', {'rcpt': 'Any'})):
    p = {'self': 'ClientView'}
    p.update(_p)
    extern('ClientView.' + _m, params=p, returns='Reply', yields=True, requires=SCOPE, raises=CL_RAISES,
           ensures=['result != None', 'result.code is not None', 'len(cast(result.code, Str)) == 3'],
           notes='Client.%s (assumed view): waits for the peer (G4 scope required); returns the populated reply '
                 '(pipelining / pairing of replies is C10)' % _m)
extern('ClientView.mailfrom', params={'self': 'ClientView', 'sender': 'Any', 'auth': 'Any'}, defaults={'auth': 'None'},
       returns='Reply', yields=True, requires=SCOPE, raises=CL_RAISES,
       ensures=['result != None', 'implies(result.code is not None, len(cast(result.code, Str)) == 3)'])
extern('ClientView.auth', params={'self': 'ClientView', '*creds': 'Args0', 'mechanism': 'Any'}, defaults={'mechanism': 'None'},
       returns='Reply', yields=True, requires=SCOPE, raises=CL_RAISES,
       ensures=['result != None', 'result.code is not None', 'len(cast(result.code, Str)) == 3'])
extern('ClientView.send_data', params={'self': 'ClientView', '*data': 'Args0'},
       returns='Union[Reply, List[Tuple[Str, Reply]]]', yields=True,
       ensures=['implies(is_type(result, Reply), cast(result, Reply) != None and allocated(cast(result, Reply)))',
                'implies(is_type(result, List[Tuple[Str, Reply]]), cast(result, List[Tuple[Str, Reply]]) != None '
                '   and forall(cast(result, List[Tuple[Str, Reply]]), lambda t: t[1] != None and allocated(t[1]) '
                '              and implies(t[1].code is not None, len(cast(t[1].code, Str)) == 3)) '
                '   and distinct_by(cast(result, List[Tuple[Str, Reply]]), lambda t: t[0]))'],
       notes='Client.send_data: returns the end-of-data Reply (SMTP) or the list of per-recipient replies (LMTP, one '
             'per accepted recipient); populated once the pipeline has been flushed',
       requires=SCOPE, raises=CL_RAISES)
extern('ClientView.send_empty_data', params={'self': 'ClientView'}, returns='Any', yields=True, requires=SCOPE, raises=CL_RAISES)
extern('ClientView._flush_pipeline', params={'self': 'ClientView'}, yields=True, requires=SCOPE, raises=CL_RAISES,
       modifies=['any(Reply).code', 'any(Reply).message'],
       ensures=['forall(Reply, lambda r: implies(allocated(r) and old(r.code) is None, r.code is not None and len(cast(r.code, Str)) == 3))',
                'forall(Reply, lambda r: implies(old(r.code) is not None, r.code == old(r.code)))'],
       notes='Client._flush_pipeline: blocking read of every outstanding reply (G4 scope required)')
extern('ClientView.encrypt', params={'self': 'ClientView', 'context': 'Any'}, yields=True, requires=SCOPE, raises=CL_RAISES,
       notes='Client.encrypt: TLS handshake (G4 scope required)')
extern('ClientView.has_reply_waiting', params={'self': 'ClientView'}, returns='Bool')
extern('IO.close', params={'self': 'IO'})

klass('SmtpRelayClient', ['RelayPoolClient'], module=M,
      fields={'client': 'ClientView', 'address': 'Any', 'socket': 'Any', 'socket_creator': 'SocketCreator', 'ehlo_as': 'UserCallable',
              'context': 'Any', 'auth_mechanism': 'Any', 'tls_immediately': 'Bool', 'tls_required': 'Bool',
              'connect_timeout': 'Opt[Real]', 'command_timeout': 'Opt[Real]', 'data_timeout': 'Opt[Real]',
              'credentials': 'UserCredentials', 'binary_encoder': 'Any', 'current_command': 'Any'})

RC = dict(module=M, scope_timeouts=['self.connect_timeout', 'self.command_timeout', 'self.data_timeout'])
ERR = {'SmtpRelayError': ['exc.reply != None'], 'ConnectionLost': [], 'BadReply': [], 'OSError': [], 'Timeout': [],
       'AssertionError': []}


def stage(name, extra_params=None, returns='Reply', ensures=(), props=('C11', 'C14'), raises=None, requires=()):
    p = {'self': 'SmtpRelayClient'}
    p.update(extra_params or {})
    contract('SmtpRelayClient.' + name, params=p, returns=returns, props=list(props),
             requires=list(requires), ensures=list(ensures), raises=raises or ERR, modifies=['fresh'], **RC)


# a stage returns normally only if the downstream reply was not an error; a 4xx/5xx is raised as relay error
stage('_banner', returns='None')
stage('_helo', {'ehlo_as': 'Any'}, ensures=['result != None', 'not result.is_error()'])
stage('_starttls', returns='None')
stage('_rset', returns='None', raises={k: v for k, v in ERR.items() if k != 'SmtpRelayError'})   # the RSET reply is not examined
stage('_mailfrom', {'sender': 'Any'}, ensures=['result != None',
                                              'implies(result.code is not None, not result.is_error() and len(cast(result.code, Str)) == 3)'])
stage('_rcptto', {'rcpt': 'Any'}, ensures=['result != None', 'result.code is not None', 'len(cast(result.code, Str)) == 3'])
stage('_send_empty_data', returns='None')

predicate('LMTP_ok(l)', 'l != None and forall(l, lambda t: t[1] != None and allocated(t[1]) and t[1].code is not None '
                       '        and len(cast(t[1].code, Str)) == 3) and distinct_by(l, lambda t: t[0])')
contract('SmtpRelayClient._send_message_data', props=['C11', 'C14'],
         params={'self': 'SmtpRelayClient', 'envelope': 'Envelope'}, returns='Any',
         requires=['envelope != None'], raises=ERR,
         # the end-of-data reply is returned only if it is not an error
         ensures=['implies(is_type(result, Reply), not cast(result, Reply).is_error())',
                  # LMTP: the list of (recipient, end-of-data reply) pairs, populated, one per accepted recipient
                  'implies(is_type(result, List[Tuple[Str, Reply]]), LMTP_ok(cast(result, List[Tuple[Str, Reply]])))'],
         modifies=['fresh', 'any(Reply).code', 'any(Reply).message'], **RC)

contract('SmtpRelayClient._handshake', props=['C14'],
         params={'self': 'SmtpRelayClient'},
         raises=dict(ERR, TypeError=[]), modifies=['fresh'], **RC)

contract('SmtpRelayClient._check_replies', props=['C11', 'C06'],
         params={'self': 'SmtpRelayClient', 'mailfrom': 'Reply', 'rcpttos': 'List[Reply]', 'data': 'Reply'},
         requires=['mailfrom != None', 'mailfrom.code is not None', 'data != None', 'data.code is not None',
                   'rcpttos != None', 'len(rcpttos) >= 1',
                   'forall(rcpttos, lambda r: r != None and r.code is not None and len(cast(r.code, Str)) == 3)',
                   'len(cast(mailfrom.code, Str)) == 3', 'len(cast(data.code, Str)) == 3'],
         # the transaction goes on only if MAIL, DATA and AT LEAST ONE recipient were accepted
         ensures=['not mailfrom.is_error()', 'not data.is_error()',
                  'exists(rcpttos, lambda r: not r.is_error())'],
         raises={'SmtpRelayError': ['exc.reply != None',
                                    'mailfrom.is_error() or data.is_error() or forall(rcpttos, lambda r: r.is_error())']},
         modifies=['fresh'],
         loops={0: dict(inv=['forall(range(0, _k), lambda j: rcpttos[j].is_error())'])}, **RC)

contract('SmtpRelayClient._check_server_timeout', props=['C14'],
         params={'self': 'SmtpRelayClient'}, returns='Bool',
         # True exactly when the server had something to say while the connection was idle (its time-out notice, or a
         # broken connection found while reading it): the caller then puts the request back instead of using the connection
         checks=['ncalls("ClientView.has_reply_waiting") == 1', 'result == call_result("ClientView.has_reply_waiting", 0)'],
         raises={'AssertionError': [], 'Timeout': [], 'OSError': []}, modifies=['fresh'], **RC)

extern('str', params={})
contract('SmtpRelayClient._get_error_reply', props=['C11'],
         params={'self': 'SmtpRelayClient', 'exc': 'SmtpError'}, returns='Reply',
         requires=['self.client != None'],
         # a disconnect / protocol error is reported as transient: always a 421, either the server's own or a new one
         ensures=['result != None', 'result.code == "421"'],
         modifies=['fresh'], **RC)

# ehlo_as / socket_creator are user-supplied values: "a callable or a plain value" (tried by calling, TypeError = plain)
klass('UserCallable')
extern('UserCallable.__call__', params={'self': 'UserCallable', 'arg': 'Any'}, returns='Any', raises={'TypeError': []},
       notes='user-supplied ehlo_as: a function of the address, or a string (calling it raises TypeError); does not block')
stage('_ehlo', ensures=['result != None', 'not result.is_error()'])
klass('UserCredentials')
extern('UserCredentials.__call__', params={'self': 'UserCredentials'}, returns='Any', raises={'TypeError': []},
       notes='user-supplied credentials: a function returning the (authcid, secret[, authzid]) tuple, or the tuple itself '
             '(calling it raises TypeError); does not block')
stage('_authenticate', returns='None')

# ---------------------------------------------------------------------------- one transaction, one request, one connection
# (C11: the attempt always ends with a result or a relay error; C19: every request gets the result of its own
# envelope exactly once, or is put back; a failed transaction is reset before the connection is reused)
klass('AsyncResult', ghost={'answered': 'Bool', 'n_answers': 'Int', 'is_exc': 'Bool', 'value': 'Any'})
extern('AsyncResult.set', params={'self': 'AsyncResult', 'value': 'Any'}, defaults={'value': 'None'},
       modifies=['self.answered', 'self.n_answers', 'self.is_exc', 'self.value'],
       ensures=['self.answered', 'self.n_answers == old(self.n_answers) + 1', 'not self.is_exc', 'same(self.value, value)'])
extern('AsyncResult.set_exception', params={'self': 'AsyncResult', 'exc': 'Any'},
       modifies=['self.answered', 'self.n_answers', 'self.is_exc', 'self.value'],
       ensures=['self.answered', 'self.n_answers == old(self.n_answers) + 1', 'self.is_exc', 'same(self.value, exc)'])
extern('AsyncResult.ready', params={'self': 'AsyncResult'}, returns='Bool', pure=True, reads=['self.answered'],
       ensures=['result == self.answered'], is_property=False)

T.alias('RcptRes', 'Union[None, Reply, SmtpRelayError]')
predicate('AR_ok(r)', 'r.n_answers >= 0 and r.answered == (r.n_answers >= 1)')

POPULATE = ['forall(Reply, lambda r: implies(allocated(r) and old(r.code) is None, r.code is not None and len(cast(r.code, Str)) == 3))',
            'forall(Reply, lambda r: implies(old(r.code) is not None, r.code == old(r.code)))']
# DATA is not pipelined: Client.data() = custom_command(b"DATA") flushes the pipeline, which populates every
# outstanding (MAIL / RCPT) reply
contract('SmtpRelayClient._data', params={'self': 'SmtpRelayClient'}, returns='Reply', props=['C11', 'C14'],
         ensures=['result != None', 'result.code is not None', 'len(cast(result.code, Str)) == 3'] + POPULATE,
         raises=ERR, modifies=['fresh', 'any(Reply).code', 'any(Reply).message'], **RC)
extern('ClientView.data', params={'self': 'ClientView'}, returns='Reply', yields=True, requires=SCOPE, raises=CL_RAISES,
       modifies=['any(Reply).code', 'any(Reply).message'],
       ensures=['result != None', 'result.code is not None', 'len(cast(result.code, Str)) == 3'] + POPULATE,
       notes='Client.data (assumed view): DATA is not pipelined -- custom_command(b"DATA") flushes the pipeline, so every '
             'outstanding MAIL / RCPT reply is populated when it returns (pairing of replies is C10)')

contract('SmtpRelayClient._send_envelope', props=['C11', 'C19', 'C06'],
         params={'self': 'SmtpRelayClient', 'rcpt_results': 'Dict[Str, RcptRes]', 'envelope': 'Envelope'},
         requires=['envelope != None', 'envelope.recipients != None', 'len(envelope.recipients) >= 1',
                   'rcpt_results != None', 'distinct_by(envelope.recipients, lambda r: r)',
                   'forall(envelope.recipients, lambda r: dict_has(rcpt_results, r) and dict_get(rcpt_results, r) is None)',
                   'forall(dict_keys(rcpt_results), lambda r: r in seq(envelope.recipients))'],
         ensures=[
             # the transaction goes on: MAIL and DATA accepted, at least one recipient accepted; exactly the rejected
             # recipients carry a relay error (classified by their own reply), the others stay undecided (None)
             'forall(dict_keys(rcpt_results), lambda r: r in seq(envelope.recipients))',
             'forall(envelope.recipients, lambda r: dict_has(rcpt_results, r))',
             'exists(envelope.recipients, lambda r: dict_get(rcpt_results, r) is None)',
             'forall(envelope.recipients, lambda r: dict_get(rcpt_results, r) is None or '
             '       (isinstance(dict_get(rcpt_results, r), SmtpRelayError) and cast(dict_get(rcpt_results, r), SmtpRelayError).reply != None '
             '        and cast(dict_get(rcpt_results, r), SmtpRelayError).reply.is_error()))'],
         checks=[
             # recipient i is marked failed iff ITS OWN RCPT reply was an error
             'forall(range(0, len(envelope.recipients)), lambda i: (dict_get(rcpt_results, envelope.recipients[i]) is None) == '
             '       (not _lc0[i].is_error()))'],
         raises=dict(ERR, SmtpRelayError=['exc.reply != None']),
         modifies=['contents(rcpt_results)', 'fresh', 'any(Reply).code', 'any(Reply).message'],
         locals={'_lc0': 'List[Reply]', 'rcpttos': 'List[Reply]', 'data': 'Opt[Reply]'},
         loops={'c0': dict(modifies=['fresh'],
                           inv=['_lc0 != None and fresh(_lc0) and is_list(_lc0)', 'len(_lc0) == _k',
                                'forall(_lc0, lambda r: r != None and allocated(r) and r.code is not None and len(cast(r.code, Str)) == 3)',
                                'mailfrom != None and allocated(mailfrom) and implies(mailfrom.code is not None, len(cast(mailfrom.code, Str)) == 3)',
                                'forall(envelope.recipients, lambda r: dict_has(rcpt_results, r) and dict_get(rcpt_results, r) is None)',
                                'forall(dict_keys(rcpt_results), lambda r: r in seq(envelope.recipients))']),
                0: dict(modifies=['contents(rcpt_results)', 'fresh'],
                        inv=['rcpttos != None and len(rcpttos) == len(envelope.recipients)',
                             'forall(rcpttos, lambda r: r != None and r.code is not None and len(cast(r.code, Str)) == 3)',
                             'forall(dict_keys(rcpt_results), lambda r: r in seq(envelope.recipients))',
                             'forall(envelope.recipients, lambda r: dict_has(rcpt_results, r))',
                             'forall(range(0, _k), lambda i: (dict_get(rcpt_results, envelope.recipients[i]) is None) == (not rcpttos[i].is_error()))',
                             'forall(range(0, _k), lambda i: dict_get(rcpt_results, envelope.recipients[i]) is None or '
                             '       (isinstance(dict_get(rcpt_results, envelope.recipients[i]), SmtpRelayError) '
                             '        and cast(dict_get(rcpt_results, envelope.recipients[i]), SmtpRelayError).reply is rcpttos[i]))',
                             'forall(range(_k, len(envelope.recipients)), lambda i: dict_get(rcpt_results, envelope.recipients[i]) is None)',
                             'exists(rcpttos, lambda r: not r.is_error())'])},
         **RC)

extern('Envelope.encode_7bit', params={'self': 'Envelope', 'encoder': 'Any'}, defaults={'encoder': 'None'},
       raises={'UnicodeDecodeError': [], 'UnicodeError': []},
       notes='Envelope.encode_7bit (C20 territory, bounded there): converts the body or raises a UnicodeError when it '
             'cannot (no encoder given and 8-bit data present)')
contract('SmtpRelayClient._handle_encoding', props=['C11', 'C06'],
         params={'self': 'SmtpRelayClient', 'envelope': 'Envelope'},
         requires=['envelope != None'],
         # 8-bit content for a 7-bit-only server: converted, or refused with a 554 relay error -- never passed on as
         # it is, and nothing is sent; with 8BITMIME advertised the message is left alone
         checks=['self.client != None', 'ncalls("Envelope.encode_7bit") == ite("8BITMIME" in self.client.extensions, 0, 1)'],
         raises={'SmtpRelayError': ['exc.reply != None', 'exc.reply.code == "554"', 'self.client != None',
                                    'not ("8BITMIME" in self.client.extensions)'],
                 'AssertionError': ['self.client == None']},
         modifies=['fresh'], **RC)

contract('SmtpRelayClient._deliver', props=['C11', 'C19', 'C06'],
         params={'self': 'SmtpRelayClient', 'result': 'AsyncResult', 'envelope': 'Envelope'},
         requires=['result != None', 'envelope != None', 'envelope.recipients != None', 'len(envelope.recipients) >= 1',
                   'distinct_by(envelope.recipients, lambda r: r)', 'AR_ok(result)'],
         ensures=['AR_ok(result)',
             # the request is answered exactly once, with a mapping keyed by exactly the recipients or with a relay error
             'result.n_answers == old(result.n_answers) + 1', 'result.answered',
             'implies(result.is_exc, isinstance(result.value, SmtpRelayError) and cast(result.value, SmtpRelayError).reply != None)'],
         checks=[
             'implies(not result.is_exc, ncalls("SmtpRelayClient._send_message_data") == 1 and same(result.value, rcpt_results) '
             '   and forall(envelope.recipients, lambda r: dict_has(rcpt_results, r)) '
             '   and forall(dict_keys(rcpt_results), lambda r: r in seq(envelope.recipients)) '
             # a recipient is reported delivered (no relay error) only with the end-of-data outcome of the message,
             # which _send_message_data returns only when it is not an error
             '   and forall(envelope.recipients, lambda r: isinstance(dict_get(rcpt_results, r), SmtpRelayError) '
             '              or same(dict_get(rcpt_results, r), call_result("SmtpRelayClient._send_message_data", 0))))',
             # C19: a failed transaction is reset before the connection carries the next message
             'implies(result.is_exc, ncalls("SmtpRelayClient._rset") == 1)'],
         raises={'ConnectionLost': ['result.n_answers <= old(result.n_answers) + 1', 'result.n_answers >= old(result.n_answers)', 'AR_ok(result)'],
                 'BadReply': ['result.n_answers <= old(result.n_answers) + 1', 'result.n_answers >= old(result.n_answers)', 'AR_ok(result)'],
                 'OSError': ['result.n_answers <= old(result.n_answers) + 1', 'result.n_answers >= old(result.n_answers)', 'AR_ok(result)'],
                 'Timeout': ['result.n_answers <= old(result.n_answers) + 1', 'result.n_answers >= old(result.n_answers)', 'AR_ok(result)'],
                 'AssertionError': ['result.n_answers <= old(result.n_answers) + 1', 'result.n_answers >= old(result.n_answers)', 'AR_ok(result)']},
         modifies=['result.answered', 'result.n_answers', 'result.is_exc', 'result.value', 'fresh',
                   'any(Reply).code', 'any(Reply).message'],
         locals={'rcpt_results': 'Dict[Str, RcptRes]', 'msg_result': 'Any'},
         loops={0: dict(modifies=['contents(rcpt_results)'],
                        inv=['rcpt_results != None and fresh(rcpt_results)',
                             'forall(envelope.recipients, lambda r: dict_has(rcpt_results, r))',
                             'forall(dict_keys(rcpt_results), lambda r: r in seq(envelope.recipients))',
                             'forall(dict_keys(rcpt_results), lambda r: dict_get(rcpt_results, r) is None '
                             '       or isinstance(dict_get(rcpt_results, r), SmtpRelayError) or same(dict_get(rcpt_results, r), msg_result))',
                             'forall(dict_keys(rcpt_results), lambda r: implies(dict_index(rcpt_results, r) < _k, '
                             '       not (dict_get(rcpt_results, r) is None) or msg_result is None))'])},
         **RC)

# ---------------------------------------------------------------------------- SmtpRelayClient._run: the life of one connection
global_object('connection_failed', 'Reply', code='451')
klass('SmtpRelayClient', ghost={'cur': 'AsyncResult', 'requeued': 'Bool'})
extern('SmtpRelayClient.poll', params={'self': 'SmtpRelayClient'}, returns='Tuple[AsyncResult, Envelope]', yields=True,
       ensures=['(result[0] == None) == (result[1] == None)',
                # a request taken from the pool queue has not been answered by anybody yet
                'implies(result[0] != None, allocated(result[0]) and allocated(result[1]) and not result[0].answered '
                '        and result[0].n_answers == 0 and AR_ok(result[0]) '
                '        and result[1].recipients != None and len(result[1].recipients) >= 1 '
                '        and distinct_by(result[1].recipients, lambda r: r))'],
       notes='RelayPoolClient.poll as seen by _run (assumed view; poll itself is under contract for C19): the next '
             'delivery request of the pool queue, or (None, None) after the idle timeout; an envelope handed to a relay '
             'has at least one recipient and no recipient twice')
klass('SocketCreator')
extern('SocketCreator.__call__', params={'self': 'SocketCreator', 'address': 'Any'}, returns='Any', yields=True,
       requires=SCOPE, raises={'OSError': [], 'Timeout': []},
       notes='socket_creator (default gevent.socket.create_connection): blocks while connecting (G4 scope required)')
extern('SmtpRelayClient._client_class', params={'self': 'SmtpRelayClient', 'socket': 'Any', 'address': 'Any'},
       returns='ClientView', ensures=['result != None', 'fresh(result)'],
       notes='SmtpRelayClient._client_class = slimta.smtp.client.Client (LmtpClient in the LMTP relay): the constructor '
             'only wraps the socket')
contract('SmtpRelayClient._connect', props=['C11', 'C14'], params={'self': 'SmtpRelayClient'},
         requires=['self.socket_creator != None'],
         # the connection attempt is bounded by connect_timeout; on success there is a client to talk through
         ensures=['self.client != None'],
         raises={'OSError': [], 'Timeout': []},
         modifies=['self.socket', 'self.client', 'fresh'], **RC)
contract('SmtpRelayClient._disconnect', props=['C11', 'C14'], params={'self': 'SmtpRelayClient'},
         # QUIT is best effort and bounded by command_timeout: whatever it raises is swallowed, and the socket is
         # closed exactly once; the only thing that escapes is the assertion when there never was a connection
         checks=['ncalls("IO.close") == 1', 'ncalls("ClientView.quit") == 1'],
         raises={'AssertionError': ['self.client == None', 'ncalls("IO.close") == 0']},
         modifies=['fresh'], **RC)
extern('AsyncResult.__bool__', params={})

# ... exactly one of the two: put back UNANSWERED (the next client answers it), or answered once by this client
DONE = ('self.cur == None or (self.requeued and self.cur.n_answers == 0) '
        'or (not self.requeued and self.cur.answered and self.cur.n_answers == 1)')
contract('SmtpRelayClient._run', props=['C11', 'C19'], yields=True,
         params={'self': 'SmtpRelayClient'},
         requires=['self.queue != None', 'INV_deque(self.queue)', 'not self.requeued', 'self.socket_creator != None'],
         ghost_after={'result, envelope = self.poll()': ['self.cur = result'],
                      'self.queue.appendleft((result, envelope))': ['self.requeued = True']},
         # C11/C19: whatever the server does, the request this connection holds when it ends has been answered exactly
         # once (result or relay error) or was put back at the head of the pool queue; earlier requests were answered
         # by _deliver
         ensures=[DONE],
         raises={'OtherException': [DONE], 'AssertionError': [DONE], 'OSError': [DONE], 'TypeError': [DONE]},
         modifies=['self.cur', 'self.requeued', 'self.socket', 'self.client', 'self.queue.n', 'self.queue.sema.counter', 'self.queue.sema.held',
                   'any(AsyncResult).answered', 'any(AsyncResult).n_answers', 'any(AsyncResult).is_exc', 'any(AsyncResult).value',
                   'any(Reply).code', 'any(Reply).message', 'fresh'],
         locals={'result': 'AsyncResult', 'envelope': 'Envelope'},
         loops={0: dict(inv=['self.cur is result', 'not self.requeued', 'self.queue != None', 'INV_deque(self.queue)',
                             'self.client != None',
                             'implies(result != None, allocated(result) and not result.answered and result.n_answers == 0 '
                             '        and envelope != None and allocated(envelope) and envelope.recipients != None '
                             '        and len(envelope.recipients) >= 1 and distinct_by(envelope.recipients, lambda r: r))'])},
         **RC)

# ---------------------------------------------------------------------------- LMTP relay client: per-recipient end-of-data
ML = 'slimta/relay/smtp/lmtpclient.py'
klass('LmtpRelayClient', ['SmtpRelayClient'], module=ML)

extern('ClientView.lhlo', params={'self': 'ClientView', 'lhlo_as': 'Any'}, returns='Reply', yields=True, requires=SCOPE,
       raises=CL_RAISES, ensures=['result != None', 'result.code is not None', 'len(cast(result.code, Str)) == 3'],
       notes='LmtpClient.lhlo (assumed view, under contract for C10): waits for the peer (G4 scope required)')
# LMTP greeting: LHLO under command_timeout; an error reply is raised as a relay error (no HELO fallback in LMTP)
contract('LmtpRelayClient._ehlo', module=ML, props=['C11', 'C14'], params={'self': 'LmtpRelayClient'}, returns='None',
         raises=ERR, modifies=['fresh'], checks=['ncalls("ClientView.lhlo") == 1', 'not call_result("ClientView.lhlo", 0).is_error()'],
         scope_timeouts=['self.connect_timeout', 'self.command_timeout', 'self.data_timeout'])
contract('LmtpRelayClient._send_message_data', kind='extern', yields=True,
         params={'self': 'LmtpRelayClient', 'envelope': 'Envelope'}, returns='List[Tuple[Str, Reply]]',
         requires=['envelope != None'], raises=ERR, ensures=['LMTP_ok(result)'],
         modifies=['fresh', 'any(Reply).code', 'any(Reply).message'],
         notes='the inherited SmtpRelayClient._send_message_data (verified under that name) as seen by the LMTP '
               'client: LmtpClient.send_data returns the per-recipient list form')
contract('LmtpRelayClient._deliver', module=ML, props=['C11', 'C19', 'C06'],
         scope_timeouts=['self.connect_timeout', 'self.command_timeout', 'self.data_timeout'],
         params={'self': 'LmtpRelayClient', 'result': 'AsyncResult', 'envelope': 'Envelope'},
         requires=['result != None', 'envelope != None', 'envelope.recipients != None', 'len(envelope.recipients) >= 1',
                   'distinct_by(envelope.recipients, lambda r: r)', 'AR_ok(result)'],
         ensures=['AR_ok(result)', 'result.n_answers == old(result.n_answers) + 1', 'result.answered',
                  'implies(result.is_exc, isinstance(result.value, SmtpRelayError) and cast(result.value, SmtpRelayError).reply != None)'],
         # what is handed to the request: every recipient of the envelope has an entry, and a recipient whose OWN
         # end-of-data reply is an error is reported as a relay error (never as delivered)
         call_requires={'AsyncResult.set': [
             'forall(envelope.recipients, lambda r: dict_has(rcpt_results, r))',
             'forall(data_results, lambda t: implies(t[1].is_error(), isinstance(dict_get(rcpt_results, t[0]), SmtpRelayError)))']},
         checks=['implies(result.is_exc, ncalls("SmtpRelayClient._rset") == 1)',
                 # C19: a transaction with per-recipient failures is reset before the connection is reused
                 'implies(not result.is_exc, same(result.value, rcpt_results))'],
         raises={'ConnectionLost': ['result.n_answers <= old(result.n_answers) + 1', 'result.n_answers >= old(result.n_answers)', 'AR_ok(result)'],
                 'BadReply': ['result.n_answers <= old(result.n_answers) + 1', 'result.n_answers >= old(result.n_answers)', 'AR_ok(result)'],
                 'OSError': ['result.n_answers <= old(result.n_answers) + 1', 'result.n_answers >= old(result.n_answers)', 'AR_ok(result)'],
                 'Timeout': ['result.n_answers <= old(result.n_answers) + 1', 'result.n_answers >= old(result.n_answers)', 'AR_ok(result)'],
                 'AssertionError': ['result.n_answers <= old(result.n_answers) + 1', 'result.n_answers >= old(result.n_answers)', 'AR_ok(result)']},
         modifies=['result.answered', 'result.n_answers', 'result.is_exc', 'result.value', 'fresh',
                   'any(Reply).code', 'any(Reply).message'],
         locals={'rcpt_results': 'Dict[Str, RcptRes]', 'data_results': 'List[Tuple[Str, Reply]]', 'had_errors': 'Bool'},
         loops={0: dict(modifies=['contents(rcpt_results)', 'fresh'],
                        inv=['rcpt_results != None and fresh(rcpt_results)',
                             'forall(envelope.recipients, lambda r: dict_has(rcpt_results, r))',
                             'forall(data_results, lambda t: t[1] != None and allocated(t[1]) and t[1].code is not None '
                             '       and len(cast(t[1].code, Str)) == 3)',
                             'distinct_by(data_results, lambda t: t[0])',
                             'forall(range(0, _k), lambda j: implies(_seq0[j][1].is_error(), '
                             '       isinstance(dict_get(rcpt_results, _seq0[j][0]), SmtpRelayError)))'])})
