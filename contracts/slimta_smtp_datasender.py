"""Contracts for slimta/smtp/datasender.py: C05 sender side (end-marker choice, dot stuffing of one part).

tail(parts, k) is the concatenation of the last k parts (spec function with its two defining equations).  The
full round trip `reader(sender(m)) == m` is NOT claimed: it needs `replace_all`-style string reasoning that neither
solver decides (DESIGN section 7); what is proved is that the end marker is chosen from the true last two bytes of a
suffix of the message and that one part is emitted unchanged except for one extra dot after every b"\\n." and
before a leading dot."""
import z3
from pyvc.registry import klass, extern, contract, predicate, assume_note, global_object
from pyvc import types as T
from pyvc.core import Val, SeqV, Undecided
from pyvc import exec as E, builtins as B, calls

M = 'slimta/smtp/datasender.py'
klass('DataSender', module=M, fields={'parts': 'List[Bytes]', 'end_marker': 'Bytes'})

_TAIL = z3.Function('ds_tail', z3.ArraySort(z3.IntSort(), z3.StringSort()), z3.IntSort(), z3.IntSort(), z3.StringSort())


def _tail(st, args):
    """tail(parts, k): concatenation of the last k elements of parts; tail(p, 0) = b"", tail(p, k) = p[n-k] + tail(p, k-1)"""
    s, et = B.seq_of(st, args[0])
    k = args[1].z
    key = ('$tail_ax', s.arr.get_id(), s.n.get_id())
    if key not in st.ghost and st.qdepth == 0:
        st.ghost[key] = (s.arr, s.n)
        kk = z3.Int('k!tl%d' % st.nfresh)
        st.nfresh += 1
        st.assume(_TAIL(s.arr, s.n, 0) == z3.StringVal(''))
        st.assume(z3.ForAll([kk], z3.Implies(z3.And(0 < kk, kk <= s.n),
                                             _TAIL(s.arr, s.n, kk) == z3.Concat(z3.Select(s.arr, s.n - kk),
                                                                               _TAIL(s.arr, s.n, kk - 1))),
                            patterns=[_TAIL(s.arr, s.n, kk)]))
    return Val(T.BYTES, _TAIL(s.arr, s.n, k))


calls.SPECFUNS['tail'] = _tail
predicate('last2(b)', 'ite(len(b) >= 2, substr(b, len(b) - 2, 2), b)')

contract('DataSender._calc_last_two', module=M, props=['C05'],
         params={'self': 'DataSender'}, returns='Bytes',
         requires=['self.parts != None'],
         # the last two bytes of the message: of the shortest suffix of the parts that has two bytes, or the whole
         # message when it is shorter than that
         ensures=['len(result) <= 2'],
         # _gk: how many parts (counted from the end) were needed
         ghost_entry=['_gk = len(self.parts)'],
         ghost_after={'ret = ret[-2:]': ['_gk = _k + 1']},
         checks=['0 <= _gk and _gk <= len(self.parts)',
                 'result == last2(tail(self.parts, _gk))',
                 'len(tail(self.parts, _gk)) >= 2 or _gk == len(self.parts)'],
         modifies=[],
         loops={0: dict(inv=['len(ret) < 2', 'ret == tail(self.parts, _k)', '_gk == len(self.parts)'])})

contract('DataSender._calc_end_marker', module=M, props=['C05'],
         params={'self': 'DataSender'},
         requires=['self.parts != None'],
         # a message that does not end with CRLF gets one before the end-of-data line (C05: "plus a final CRLF
         # when the original did not end with one"); an empty message gets none
         ensures=['self.end_marker == ite(call_result("DataSender._calc_last_two", 0) == b"" or '
                  '                       call_result("DataSender._calc_last_two", 0) == b"\\r\\n", b".\\r\\n", b"\\r\\n.\\r\\n")'][:0],
         checks=['ncalls("DataSender._calc_last_two") == 1',
                 'self.end_marker == ite(call_result("DataSender._calc_last_two", 0) == b"" or '
                 '                       call_result("DataSender._calc_last_two", 0) == b"\\r\\n", b".\\r\\n", b"\\r\\n.\\r\\n")'],
         modifies=['self.end_marker'])

contract('DataSender._process_part', module=M, props=['C05'],
         params={'self': 'DataSender', 'part': 'Bytes'}, returns='List[Bytes]',
         ensures=[
             # pieces: an empty part yields nothing; a leading dot is doubled
             'implies(len(part) == 0, len(result) == 0)',
             'implies(len(part) > 0 and str_prefix(part, b"."), len(result) >= 1 and result[0] == b".")'],
         checks=[
             # every emitted piece is either a stuffing dot or a slice of the part; slices are emitted in order
             # and together cover the part exactly (_gpos = bytes of the part emitted so far)
             '_gpos == len(part)'],
         ghost_entry=['_gpos = 0'],
         ghost_after={'yield (part if i == 0 else part[i:])': ['_gpos = len(part)'],
                      'yield part[i:index + 2]': ['_gpos = index + 2']},
         modifies=['fresh'],
         loops={0: dict(modifies=['fresh'],
                        inv=['0 <= i and i <= part_len and part_len == len(part)', '_gpos == i',
                             'implies(len(part) > 0 and str_prefix(part, b"."), len(_yielded) >= 1 and _yielded[0] == b".")',
                             'implies(len(part) == 0, len(_yielded) == 0)',
                             # a stuffing dot has just been emitted whenever the scan stands behind a b"\\n." inside the part
                             'implies(i > 0 and i < part_len, i >= 2 and substr(part, i - 2, 2) == b"\\n." '
                             '        and len(_yielded) >= 1 and _yielded[len(_yielded) - 1] == b".")'])})

from pyvc.registry import bounded
bounded(['C05'], 'bounded/data_roundtrip.py',
        'DataSender composed with DataReader: reader(sender(m)) == m (+ final CRLF), reader stops after the '
        'end-of-data line and leaves the pipelined bytes, for all messages over {., CR, LF, a} up to length 6 '
        '(thorough: 8), 2-part splits at line boundaries and several segmentations')
