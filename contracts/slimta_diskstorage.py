"""Contracts for slimta/diskstorage/__init__.py: the disk backend (C15, C03) and its crash behaviour (C04).

Ghost model of the two directories (`DiskOps` ghost fields): which ids have a COMPLETE file under the final name
(`env_has`, `meta_has`) and what those files hold (pickled envelope: its recipient list; pickled meta dict:
timestamp, attempts, optional delivered_indexes).  A file under a temporary name is not part of the model: it is
invisible to every reader (`get_ids` lists `*.env` in env_dir only).

C04 (crash at any point) is decided through three kinds of obligations:
  * AioFile.dump: the final path is touched by exactly one call, os.rename, issued after every byte was written to
    the temporary file -- so at every instant a file under a final name is complete (old or new content);
  * every DiskStorage operation: besides `remove`, no operation ever takes a file of ANY message away, and an
    operation on `id` changes nothing of another message (frames) -- so a crash between two file-system effects
    leaves every acknowledged message loadable, the message being worked on holding its old or its new meta;
  * DiskStorage.load: ids whose meta file is missing (a write() or remove() that was interrupted) are skipped
    without ending the scan, every id with both files is listed."""
import z3
from pyvc.registry import klass, extern, contract, predicate, assume_note, global_object
from pyvc import types as T
from pyvc.core import Val, SeqV, Undecided
from pyvc import exec as E, builtins as B, calls

M = 'slimta/diskstorage/__init__.py'

T.alias('DMeta', 'Dict[Str, Union[Int, Real, List[Int]]]')

klass('DiskOps', module=M,
      fields={'env_dir': 'Str', 'meta_dir': 'Str', 'tmp_dir': 'Opt[Str]'},
      ghost={'env_has': 'SetV[Str]', 'env_rcpts': 'MapV[Str, ArrV[Str]]', 'env_n': 'MapV[Str, Int]',
             'meta_has': 'SetV[Str]', 'meta_ts': 'MapV[Str, Real]', 'meta_att': 'MapV[Str, Int]',
             'meta_hd': 'SetV[Str]', 'meta_d': 'MapV[Str, ArrV[Int]]', 'meta_dn': 'MapV[Str, Int]'})
klass('DiskStorage', ['QueueStorage'], module=M, fields={'ops': 'DiskOps'},
      # index map of the envelope last returned by get(id): position j of that envelope is position lm[id][j] of the
      # stored envelope
      ghost={'lm': 'MapV[Str, ArrV[Int]]', 'lm_n': 'MapV[Str, Int]', 'lmi': 'MapV[Str, ArrV[Int]]'})

ENVF = ['self.env_has', 'self.env_rcpts', 'self.env_n']
METAF = ['self.meta_has', 'self.meta_ts', 'self.meta_att', 'self.meta_hd', 'self.meta_d', 'self.meta_dn']
OTHERS_META = ('forall(Str, lambda k: implies(k != id, (k in self.meta_has) == old(k in self.meta_has) '
               'and self.meta_ts[k] == old(self.meta_ts[k]) and self.meta_att[k] == old(self.meta_att[k]) '
               'and (k in self.meta_hd) == old(k in self.meta_hd) and self.meta_d[k] == old(self.meta_d[k]) '
               'and self.meta_dn[k] == old(self.meta_dn[k])))')
OTHERS_ENV = ('forall(Str, lambda k: implies(k != id, (k in self.env_has) == old(k in self.env_has) '
              'and self.env_rcpts[k] == old(self.env_rcpts[k]) and self.env_n[k] == old(self.env_n[k])))')
META_UNCHANGED = ['self.meta_has == old(self.meta_has)', 'self.meta_ts == old(self.meta_ts)',
                  'self.meta_att == old(self.meta_att)', 'self.meta_hd == old(self.meta_hd)',
                  'self.meta_d == old(self.meta_d)', 'self.meta_dn == old(self.meta_dn)']
ENV_UNCHANGED = ['self.env_has == old(self.env_has)', 'self.env_rcpts == old(self.env_rcpts)',
                 'self.env_n == old(self.env_n)']

# ---------------------------------------------------------------------------- DiskOps (assumed: thin pickle + path
# wrappers around AioFile; AioFile.dump itself is under contract below)
extern('DiskOps.check_exists', params={'self': 'DiskOps', 'id': 'Str'}, returns='Bool',
       ensures=['result == (id in self.env_has)'],
       notes='DiskOps.check_exists: os.path.lexists(<env_dir>/<id>.env)')
extern('DiskOps.write_env', params={'self': 'DiskOps', 'id': 'Str', 'envelope': 'Envelope'}, yields=True,
       requires=['envelope != None', 'envelope.recipients != None'],
       modifies=ENVF,
       ensures=['self.env_has == store(old(self.env_has), id, True)',
                'self.env_n[id] == len(envelope.recipients)',
                'forall(range(0, len(envelope.recipients)), lambda j: self.env_rcpts[id][j] == envelope.recipients[j])',
                OTHERS_ENV],
       raises={'OSError': ENV_UNCHANGED},
       notes='DiskOps.write_env = AioFile(<env_dir>/<id>.env, tmp_dir).pickle_dump(envelope): atomic w.r.t. the final '
             'name (AioFile.dump contract); pickle round trip assumed faithful')
extern('DiskOps.write_meta', params={'self': 'DiskOps', 'id': 'Str', 'meta': 'DMeta'}, yields=True,
       requires=['meta != None', 'dict_has(meta, "timestamp")', 'dict_has(meta, "attempts")',
                 'is_type(dict_get(meta, "attempts"), Int)', 'is_type(dict_get(meta, "timestamp"), Real)',
                 'implies(dict_has(meta, "delivered_indexes"), is_type(dict_get(meta, "delivered_indexes"), List[Int]))'],
       modifies=METAF,
       ensures=['self.meta_has == store(old(self.meta_has), id, True)',
                'self.meta_ts[id] == cast(dict_get(meta, "timestamp"), Real)',
                'self.meta_att[id] == cast(dict_get(meta, "attempts"), Int)',
                '(id in self.meta_hd) == dict_has(meta, "delivered_indexes")',
                'implies(dict_has(meta, "delivered_indexes"), '
                '   self.meta_dn[id] == len(cast(dict_get(meta, "delivered_indexes"), List[Int])) '
                '   and forall(range(0, self.meta_dn[id]), lambda j: self.meta_d[id][j] == cast(dict_get(meta, "delivered_indexes"), List[Int])[j]))',
                OTHERS_META],
       raises={'OSError': META_UNCHANGED},
       notes='DiskOps.write_meta = AioFile(<meta_dir>/<id>.meta, tmp_dir).pickle_dump(meta)')
extern('DiskOps.read_meta', params={'self': 'DiskOps', 'id': 'Str'}, returns='DMeta', yields=True,
       ensures=['id in self.meta_has', 'result != None', 'fresh(result)',
                'dict_has(result, "timestamp") and dict_has(result, "attempts")',
                'is_type(dict_get(result, "attempts"), Int) and cast(dict_get(result, "attempts"), Int) == self.meta_att[id]',
                'is_type(dict_get(result, "timestamp"), Real) and cast(dict_get(result, "timestamp"), Real) == self.meta_ts[id]',
                'dict_has(result, "delivered_indexes") == (id in self.meta_hd)',
                'implies(id in self.meta_hd, is_type(dict_get(result, "delivered_indexes"), List[Int]) '
                '   and fresh(cast(dict_get(result, "delivered_indexes"), List[Int])) '
                '   and is_list(cast(dict_get(result, "delivered_indexes"), List[Int])) '
                '   and len(cast(dict_get(result, "delivered_indexes"), List[Int])) == self.meta_dn[id] '
                '   and forall(range(0, self.meta_dn[id]), lambda j: cast(dict_get(result, "delivered_indexes"), List[Int])[j] == self.meta_d[id][j]))'],
       raises={'OSError': ['id not in self.meta_has']},
       notes='DiskOps.read_meta = AioFile(<meta_dir>/<id>.meta).pickle_load(): FileNotFoundError (an OSError) iff the '
             'file does not exist; a file under the final name is always complete (AioFile.dump contract)')
extern('DiskOps.read_env', params={'self': 'DiskOps', 'id': 'Str'}, returns='Envelope', yields=True,
       ensures=['id in self.env_has', 'result != None', 'fresh(result)', 'result.recipients != None',
                'fresh(result.recipients)', 'is_list(result.recipients)',
                'len(result.recipients) == self.env_n[id]',
                'forall(range(0, self.env_n[id]), lambda j: result.recipients[j] == self.env_rcpts[id][j])'],
       raises={'OSError': ['id not in self.env_has']},
       notes='DiskOps.read_env = AioFile(<env_dir>/<id>.env).pickle_load()')
extern('DiskOps.get_ids', params={'self': 'DiskOps'}, returns='List[Str]',
       ensures=['result != None', 'fresh(result)', 'is_list(result)',
                'forall(Str, lambda x: (x in seq(result)) == (x in self.env_has))',
                'distinct_by(result, lambda x: x)'],
       notes='DiskOps.get_ids: os.listdir(env_dir) filtered by the .env suffix')
extern('DiskOps.delete_env', params={'self': 'DiskOps', 'id': 'Str'}, modifies=['self.env_has'],
       ensures=['self.env_has == store(old(self.env_has), id, False)'],
       notes='DiskOps.delete_env: os.remove, OSError ignored')
extern('DiskOps.delete_meta', params={'self': 'DiskOps', 'id': 'Str'}, modifies=['self.meta_has'],
       ensures=['self.meta_has == store(old(self.meta_has), id, False)'],
       notes='DiskOps.delete_meta: os.remove, OSError ignored')

# ---------------------------------------------------------------------------- DiskStorage
# what is stored for `id` is well-formed: the delivered positions are positions of the stored envelope, each once
predicate('DISK_wf(s, id)',
          'implies(id in s.ops.meta_hd, s.ops.meta_dn[id] >= 0 '
          '   and forall(range(0, s.ops.meta_dn[id]), lambda j: 0 <= s.ops.meta_d[id][j] and s.ops.meta_d[id][j] < s.ops.env_n[id]) '
          '   and forall(pairs(s.ops.meta_dn[id]), lambda a, b: s.ops.meta_d[id][a] != s.ops.meta_d[id][b]))')
predicate('NOMARKS(o, id)', 'not (id in o.meta_hd) or o.meta_dn[id] == 0')
# p is one of the delivered positions stored for id
predicate('DELIV(o, id, p)', 'id in o.meta_hd and exists(range(0, o.meta_dn[id]), lambda j: o.meta_d[id][j] == p)')

DS = dict(module=M)
OPSF = ['self.ops.' + f.split('.', 1)[1] for f in ENVF + METAF]
OPS_ENV_UNCHANGED = [c.replace('self.', 'self.ops.') for c in ENV_UNCHANGED]


def _ops(clause):
    return clause.replace('self.', 'self.ops.')


contract('DiskStorage.write', props=['C15', 'C04'], yields=True,
         params={'self': 'DiskStorage', 'envelope': 'Envelope', 'timestamp': 'Real'}, returns='Str',
         requires=['self.ops != None', 'envelope != None', 'envelope.recipients != None'],
         ensures=[
             # a distinct id; acknowledged (returned) only when BOTH files are complete under their final names
             'not old(result in self.ops.env_has)',
             'result in self.ops.env_has and result in self.ops.meta_has',
             'self.ops.meta_att[result] == 0', 'self.ops.meta_ts[result] == timestamp',
             'result not in self.ops.meta_hd',
             'self.ops.env_n[result] == len(envelope.recipients)',
             'forall(range(0, len(envelope.recipients)), lambda j: self.ops.env_rcpts[result][j] == envelope.recipients[j])',
             # operations on one message never disturb another
             'forall(Str, lambda k: implies(k != result, (k in self.ops.env_has) == old(k in self.ops.env_has) '
             '   and (k in self.ops.meta_has) == old(k in self.ops.meta_has) '
             '   and self.ops.env_rcpts[k] == old(self.ops.env_rcpts[k]) and self.ops.env_n[k] == old(self.ops.env_n[k]) '
             '   and self.ops.meta_ts[k] == old(self.ops.meta_ts[k]) and self.ops.meta_att[k] == old(self.ops.meta_att[k]) '
             '   and (k in self.ops.meta_hd) == old(k in self.ops.meta_hd) and self.ops.meta_d[k] == old(self.ops.meta_d[k]) '
             '   and self.ops.meta_dn[k] == old(self.ops.meta_dn[k])))'],
         raises={'OSError': [
             # a failed write never takes anything away
             'forall(Str, lambda k: implies(old(k in self.ops.env_has), k in self.ops.env_has) '
             '   and implies(old(k in self.ops.meta_has), k in self.ops.meta_has))']},
         modifies=OPSF + ['fresh'],
         loops={0: dict(modifies=['fresh'],
                        inv=['self.ops != None', 'meta != None', 'fresh(meta)', 'dict_has(meta, "timestamp")',
                             'dict_has(meta, "attempts")', 'dict_get(meta, "attempts") == 0',
                             'is_type(dict_get(meta, "timestamp"), Real) and cast(dict_get(meta, "timestamp"), Real) == timestamp',
                             'not dict_has(meta, "delivered_indexes")'])},
         locals={'meta': 'DMeta'}, **DS)

for _m, _field in (('set_timestamp', 'ts'), ('increment_attempts', 'att')):
    contract('DiskStorage.' + _m, props=['C15', 'C04', 'C03'], yields=True,
             params={'self': 'DiskStorage', 'id': 'Str', 'timestamp': 'Real'} if _m == 'set_timestamp'
             else {'self': 'DiskStorage', 'id': 'Str'},
             returns=None if _m == 'set_timestamp' else 'Int',
             requires=['self.ops != None'],
             ensures=(['self.ops.meta_ts[id] == timestamp', 'self.ops.meta_att[id] == old(self.ops.meta_att[id])']
                      if _m == 'set_timestamp' else
                      ['result == old(self.ops.meta_att[id]) + 1', 'self.ops.meta_att[id] == result',
                       'self.ops.meta_ts[id] == old(self.ops.meta_ts[id])']) + [
                 # the message stays loadable, its delivered marks are kept, nobody else is touched
                 'id in self.ops.meta_has', '(id in self.ops.meta_hd) == old(id in self.ops.meta_hd)',
                 'implies(id in self.ops.meta_hd, self.ops.meta_dn[id] == old(self.ops.meta_dn[id]) '
                 '   and forall(range(0, self.ops.meta_dn[id]), lambda j: self.ops.meta_d[id][j] == old(self.ops.meta_d[id])[j]))',
                 _ops(OTHERS_META)],
             raises={'OSError': [_ops(c) for c in META_UNCHANGED]},
             modifies=['self.ops.' + f.split('.', 1)[1] for f in METAF] + ['fresh'],
             locals={'meta': 'DMeta'}, **DS)

contract('DiskStorage.set_recipients_delivered', props=['C03', 'C15', 'C04'], yields=True,
         params={'self': 'DiskStorage', 'id': 'Str', 'rcpt_indexes': 'Union[Set[Int], List[Int]]'},
         requires=['self.ops != None', 'not (rcpt_indexes is None)', 'DISK_wf(self, id)',
                   # the positions refer to the envelope last returned by get(id) ...
                   'forall(range(0, self.ops.env_n[id]), lambda p: implies(IN_IDX(p, rcpt_indexes), p < self.lm_n[id]))',
                   'forall(Int, lambda p: implies(IN_IDX(p, rcpt_indexes), 0 <= p and p < self.lm_n[id]))',
                   'implies(is_type(rcpt_indexes, List[Int]), distinct_by(cast(rcpt_indexes, List[Int]), lambda p: p))',
                   # ... whose index map (ghost, recorded by get) avoids the positions already marked
                   'forall(range(0, self.lm_n[id]), lambda j: 0 <= self.lm[id][j] and self.lm[id][j] < self.ops.env_n[id] '
                   '       and not DELIV(self.ops, id, self.lm[id][j]))',
                   'forall(pairs(self.lm_n[id]), lambda a, b: self.lm[id][a] < self.lm[id][b])',
                   # (with no marks stored, get() returned the stored envelope as it is)
                   'implies(NOMARKS(self.ops, id), forall(range(0, self.lm_n[id]), lambda j: self.lm[id][j] == j))'],
         ensures=[
             # C03: exactly the stored positions of the settled recipients are added to the delivered marks --
             # stated separately for the first marking round of a message and for every later round
             'id in self.ops.meta_hd',
             # (first round: get() returned the stored envelope as it is, so the stored positions are the given ones)
             'implies(old(NOMARKS(self.ops, id)), forall(range(0, self.ops.env_n[id]), lambda q: DELIV(self.ops, id, q) == '
             '       IN_IDX(q, rcpt_indexes)))',
             'implies(old(NOMARKS(self.ops, id)), DISK_wf(self, id))',
             'implies(not old(NOMARKS(self.ops, id)), forall(range(0, self.ops.env_n[id]), lambda q: DELIV(self.ops, id, q) == '
             '       (old(DELIV(self.ops, id, q)) or exists(range(0, self.lm_n[id]), lambda p: IN_IDX(p, rcpt_indexes) and self.lm[id][p] == q))))',
             'implies(not old(NOMARKS(self.ops, id)), DISK_wf(self, id))',
             'id in self.ops.meta_has', 'self.ops.meta_ts[id] == old(self.ops.meta_ts[id])',
             'self.ops.meta_att[id] == old(self.ops.meta_att[id])', _ops(OTHERS_META)],
         raises={'OSError': [_ops(c) for c in META_UNCHANGED]},
         modifies=['self.ops.' + f.split('.', 1)[1] for f in METAF] + ['fresh'],
         locals={'meta': 'DMeta'}, **DS)

contract('DiskStorage.load', props=['C15', 'C04'], yields=True,
         params={'self': 'DiskStorage'}, returns='List[Entry]',
         requires=['self.ops != None'],
         ensures=[
             # exactly the messages with both files, each with its stored timestamp; an id whose meta file is
             # missing (interrupted write/remove) is skipped and does NOT end the scan
             'forall(Str, lambda x: implies(x in self.ops.env_has and x in self.ops.meta_has, '
             '       exists(result, lambda e: e[1] == x and e[0] == self.ops.meta_ts[x])))',
             'forall(result, lambda e: e[1] in self.ops.env_has and e[1] in self.ops.meta_has and e[0] == self.ops.meta_ts[e[1]])'],
         modifies=['fresh'],
         loops={0: dict(modifies=['fresh'],
                        inv=['self.ops != None',
                             'forall(range(0, _k), lambda j: implies(_seq0[j] in self.ops.meta_has, '
                             '       exists(_yielded, lambda e: e[1] == _seq0[j] and e[0] == self.ops.meta_ts[_seq0[j]])))',
                             'forall(_yielded, lambda e: e[1] in self.ops.env_has and e[1] in self.ops.meta_has '
                             '       and e[0] == self.ops.meta_ts[e[1]])'])},
         notes='generator modelled as the list of entries it yields (consumed to exhaustion by Queue._load_all, which '
               'does not touch the storage)', **DS)

contract('DiskStorage.get', props=['C15', 'C03', 'C04'], yields=True,
         params={'self': 'DiskStorage', 'id': 'Str'}, returns='Tuple[Envelope, Int]',
         requires=['self.ops != None', 'DISK_wf(self, id)'],
         ghost_after={'self._remove_delivered_rcpts(env, delivered_rcpts)': [
             'self.lm = store(self.lm, id, self.rd_map)', 'self.lm_n = store(self.lm_n, id, len(env.recipients))',
             'self.lmi = store(self.lmi, id, self.rd_inv)']},
         ensures=['result[0] != None', 'result[0].recipients != None', 'result[1] == self.ops.meta_att[id]',
                  'id in self.ops.env_has and id in self.ops.meta_has',
                  # C03: the envelope handed to the next attempt holds exactly the stored recipients whose positions
                  # are not marked delivered, in their stored order
                  'len(result[0].recipients) == self.lm_n[id]',
                  'forall(range(0, self.lm_n[id]), lambda j: result[0].recipients[j] == self.ops.env_rcpts[id][self.lm[id][j]] '
                  '       and 0 <= self.lm[id][j] and self.lm[id][j] < self.ops.env_n[id] '
                  '       and not DELIV(self.ops, id, self.lm[id][j]))',
                  'forall(pairs(self.lm_n[id]), lambda a, b: self.lm[id][a] < self.lm[id][b])',
                  'forall(range(0, self.ops.env_n[id]), lambda p: implies(not DELIV(self.ops, id, p), '
                  '       0 <= self.lmi[id][p] and self.lmi[id][p] < self.lm_n[id] and self.lm[id][self.lmi[id][p]] == p))',
                  'implies(NOMARKS(self.ops, id), forall(range(0, self.lm_n[id]), lambda j: self.lm[id][j] == j))',
                  'self.lm_n[id] == self.ops.env_n[id] - ite(id in self.ops.meta_hd, self.ops.meta_dn[id], 0)'],
         raises={'OSError': ['id not in self.ops.meta_has or id not in self.ops.env_has']},
         modifies=['self.lm', 'self.lm_n', 'self.lmi', 'self.rd_map', 'self.rd_inv', 'self.rd_n0', 'fresh'],
         locals={'meta': 'DMeta'}, **DS)

contract('DiskStorage.remove', props=['C15', 'C04'],
         params={'self': 'DiskStorage', 'id': 'Str'},
         requires=['self.ops != None'],
         ensures=['id not in self.ops.env_has and id not in self.ops.meta_has',
                  'forall(Str, lambda k: implies(k != id, (k in self.ops.env_has) == old(k in self.ops.env_has) '
                  '       and (k in self.ops.meta_has) == old(k in self.ops.meta_has)))'],
         # C04 half-removed: the envelope file goes first, so an interrupted remove leaves at most a meta file, which
         # no scan lists (get_ids enumerates envelope files)
         call_requires={'DiskOps.delete_meta': ['id not in self.ops.env_has']},
         modifies=['self.ops.env_has', 'self.ops.meta_has'], **DS)


# ---------------------------------------------------------------------------- AioFile.dump: write-to-temp-then-rename (C04)
# Ghost file system: content of the files under temporary names (by name), content and existence of the files
# under final names, and `partial`: final paths whose content is currently INCOMPLETE (opened for writing and not
# yet fully written).  The crash invariant is `partial` empty: it is an obligation before every file-system call
# dump makes, i.e. at every point where the process can die between two effects.
klass('FS', ghost={'tmp': 'MapV[Str, Bytes]', 'final': 'MapV[Str, Bytes]', 'final_has': 'SetV[Str]',
                   'partial': 'SetV[Str]', 'fd_name': 'MapV[Int, Str]', 'fd_is_tmp': 'SetV[Int]'})
global_object('FSYS', 'FS')
klass('AioFile', module=M, fields={'path': 'Str', 'tmp_dir': 'Opt[Str]', 'chunk_size': 'Int'})
NOPARTIAL = 'forall(Str, lambda x: not (x in FSYS.partial))'

extern('AioFile._start_keep_awake_thread', params={'self': 'AioFile'}, notes='keep-awake greenlet bookkeeping: no file-system effect')
extern('AioFile._stop_keep_awake_thread', params={'self': 'AioFile'}, notes='keep-awake greenlet bookkeeping: no file-system effect')
extern('mkstemp', params={'dir': 'Opt[Str]'}, defaults={'dir': 'None'}, returns='Tuple[Int, Str]',
       modifies=['FSYS.tmp', 'FSYS.fd_name', 'FSYS.fd_is_tmp'],
       ensures=['FSYS.tmp == store(old(FSYS.tmp), result[1], b"")',
                'FSYS.fd_name == store(old(FSYS.fd_name), result[0], result[1])',
                'FSYS.fd_is_tmp == store(old(FSYS.fd_is_tmp), result[0], True)'],
       raises={'OSError': []},
       notes='tempfile.mkstemp: a new empty file under a temporary name (never a final name: tmp_dir is a '
             'directory of its own) and a descriptor open on it')
extern('os.open', params={'path': 'Str', 'flags': 'Int'}, returns='Int',
       modifies=['FSYS.partial', 'FSYS.final', 'FSYS.fd_name', 'FSYS.fd_is_tmp'],
       ensures=['FSYS.fd_name == store(old(FSYS.fd_name), result, path)',
                'FSYS.fd_is_tmp == store(old(FSYS.fd_is_tmp), result, False)',
                # opened for writing: from now on the file under the final name is incomplete
                'implies(flags != 0, FSYS.partial == store(old(FSYS.partial), path, True))',
                'implies(flags == 0, FSYS.partial == old(FSYS.partial) and FSYS.final == old(FSYS.final))'],
       raises={'OSError': ['FSYS.partial == old(FSYS.partial)', 'FSYS.final == old(FSYS.final)']},
       notes='os.open(path, flags) on a final path: flags == os.O_RDONLY (0) reads; anything else may truncate / '
             'rewrite the file in place')
extern('os.close', params={'fd': 'Int'})
for _f in ('os.path.exists', 'os.path.lexists', 'os.path.isfile'):
    extern(_f, params={'path': 'Str'}, returns='Bool', ensures=['result == (path in FSYS.final_has)'])
extern('os.rename', params={'src': 'Str', 'dst': 'Str'},
       modifies=['FSYS.final', 'FSYS.final_has'],
       ensures=['FSYS.final == store(old(FSYS.final), dst, FSYS.tmp[src])',
                'FSYS.final_has == store(old(FSYS.final_has), dst, True)'],
       raises={'OSError': ['FSYS.final == old(FSYS.final)', 'FSYS.final_has == old(FSYS.final_has)']},
       notes='os.rename within one file system: atomic replacement of dst by the complete file src')
contract('AioFile._write_piece', kind='extern', yields=True,
         params={'self': 'AioFile', 'fd': 'Int', 'data': 'Bytes', 'data_len': 'Int', 'offset': 'Int'}, returns='Int',
         modifies=['FSYS.tmp', 'FSYS.final'],
         ensures=['result > 0', 'result <= data_len - offset',
                  # the piece lands at `offset` in the file the descriptor is open on
                  'implies(fd in FSYS.fd_is_tmp and len(old(FSYS.tmp)[FSYS.fd_name[fd]]) == offset, '
                  '        FSYS.tmp == store(old(FSYS.tmp), FSYS.fd_name[fd], old(FSYS.tmp)[FSYS.fd_name[fd]] + substr(data, offset, result)))',
                  'implies(fd in FSYS.fd_is_tmp, FSYS.final == old(FSYS.final))'],
         raises={'OSError': ['implies(fd in FSYS.fd_is_tmp, FSYS.final == old(FSYS.final))']},
         notes='AioFile._write_piece (pyaio aio_write + AsyncResult): writes at most chunk_size bytes of data at '
               '`offset`, returns the number written (> 0) or raises IOError; assumed at its call site')

FS_CALLS = ('mkstemp', 'AioFile._write_piece', 'os.rename', 'os.open', 'os.close', 'os.remove', 'os.unlink')
# ... and no file that existed under a final name when dump() was entered is missing
NOLOSS = 'forall(Str, lambda x: implies(old(x in FSYS.final_has), x in FSYS.final_has))'
contract('AioFile.dump', props=['C04'], yields=True, module=M,
         params={'self': 'AioFile', 'data': 'Bytes'},
         requires=[NOPARTIAL],
         # crash points: before every file-system effect no file under a final name is incomplete ...
         call_requires=dict([(k, [NOPARTIAL, NOLOSS]) for k in FS_CALLS] + [
             # ... and the rename that publishes the file happens only when every byte is in the temporary file
             ('os.rename', [NOPARTIAL, NOLOSS, 'filename is not None and FSYS.tmp[cast(filename, Str)] == data'])]),
         ensures=['self.path in FSYS.final_has', 'FSYS.final[self.path] == data', NOPARTIAL,
                  'forall(Str, lambda x: implies(x != self.path, FSYS.final[x] == old(FSYS.final)[x] '
                  '       and (x in FSYS.final_has) == old(x in FSYS.final_has)))'],
         raises={'OSError': [NOPARTIAL, 'FSYS.final == old(FSYS.final)', 'FSYS.final_has == old(FSYS.final_has)']},
         modifies=['FSYS.tmp', 'FSYS.final', 'FSYS.final_has', 'FSYS.fd_name', 'FSYS.fd_is_tmp', 'FSYS.partial'],
         locals={'filename': 'Opt[Str]'},
         loops={0: dict(inv=['0 <= offset and offset <= data_len', 'data_len == len(data)', 'data_view == data',
                             'filename is not None and fd in FSYS.fd_is_tmp and FSYS.fd_name[fd] == cast(filename, Str)',
                             'FSYS.tmp[cast(filename, Str)] == substr(data, 0, offset)',
                             'FSYS.final == old(FSYS.final)', 'FSYS.final_has == old(FSYS.final_has)', NOPARTIAL],
                        modifies=['FSYS.tmp', 'FSYS.final'])})

# ---------------------------------------------------------------------------- DiskOps bodies: exception behaviour (C04)
# The functional contracts of the DiskOps methods above are ASSUMED (they relate path strings and pickles to the
# directory model).  What the callers rely on for crash tolerance is proved on the real bodies here: a missing file
# surfaces as OSError (load() skips exactly that), and the delete helpers never raise.
klass('AioFileView', fields={'path': 'Str'})
extern('os.path.join', params={'a': 'Str', 'b': 'Str'}, returns='Str', pure=True)
for _f in ('os.remove', 'os.unlink'):
    extern(_f, params={'path': 'Str'}, modifies=['FSYS.final_has'],
           ensures=['FSYS.final_has == store(old(FSYS.final_has), path, False)'],
           raises={'OSError': ['FSYS.final_has == old(FSYS.final_has)']},
           notes='os.remove / os.unlink: the file under that (final) name is gone; FileNotFoundError / PermissionError are OSErrors')
extern('AioFile.__init__', params={'self': 'AioFile', 'path': 'Str', 'tmp_dir': 'Opt[Str]'}, defaults={'tmp_dir': 'None'},
       modifies=['self.path', 'self.tmp_dir'], ensures=['self.path == path'])
extern('AioFile.pickle_load', params={'self': 'AioFile'}, returns='Any', yields=True,
       raises={'FileNotFoundError': [], 'OSError': []},
       notes='AioFile.pickle_load: os.open raises FileNotFoundError (an OSError) when the file is missing; a file under '
             'a final name is complete (AioFile.dump), so unpickling it does not fail')
extern('AioFile.pickle_dump', params={'self': 'AioFile', 'obj': 'Any'}, returns='Any', yields=True, raises={'OSError': []})
for _m in ('read_meta', 'read_env'):
    contract('DiskOps.%s#raises' % _m, qual='DiskOps.' + _m, module=M, props=['C04', 'C15'], yields=True,
             params={'self': 'DiskOps', 'id': 'Str'}, returns='Any', raises={'OSError': []}, modifies=['fresh'])
for _m in ('delete_env', 'delete_meta'):
    contract('DiskOps.%s#raises' % _m, qual='DiskOps.' + _m, module=M, props=['C04', 'C15'],
             params={'self': 'DiskOps', 'id': 'Str'}, modifies=['fresh', 'FSYS.final_has'])
for _m, _a in (('write_env', 'envelope'), ('write_meta', 'meta')):
    contract('DiskOps.%s#raises' % _m, qual='DiskOps.' + _m, module=M, props=['C04'], yields=True,
             params={'self': 'DiskOps', 'id': 'Str', _a: 'Any'}, raises={'OSError': []}, modifies=['fresh'])
