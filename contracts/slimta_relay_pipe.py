"""Contracts for slimta/relay/pipe.py: C11 (exit-status mapping, result contract), C01 (relay result contract),
C14 (single timeout scope around the subprocess)."""
import z3
from pyvc.registry import klass, extern, contract, predicate, assume_note, global_object
from pyvc import types as T
from pyvc.core import Val, SeqV, Undecided
from pyvc import exec as E, builtins as B, calls

M = 'slimta/relay/pipe.py'
klass('Logger')
global_object('log', 'Logger')

klass('Popen', fields={'returncode': 'Int'})
extern('subprocess.Popen', params={'args': 'Any', 'stdin': 'Any', 'stdout': 'Any', 'stderr': 'Any'},
       defaults={'stdin': 'None', 'stdout': 'None', 'stderr': 'None'}, returns='Popen',
       ensures=['result != None', 'fresh(result)'], raises={'OSError': [], 'Timeout': []})
extern('Popen.communicate', params={'self': 'Popen', 'input': 'Any'}, defaults={'input': 'None'},
       returns='Tuple[Bytes, Bytes]', yields=True, modifies=['self.returncode'],
       requires=['in_timeout_scope()'], raises={'Timeout': []},
       notes='Popen.communicate waits for the child: G4 requires an enclosing Timeout scope; returncode is any int '
             '(negative when killed by a signal)')

klass('PipeRelay', ['Relay'], module=M,
      fields={'per_recipient': 'Bool', 'timeout': 'Opt[Real]', 'args': 'Any', 'popen_kwargs': 'Any',
              '_permanent_error_pattern': 'Pattern', 'EX_TEMPFAIL': 'Int'})
klass('MaildropRelay', ['PipeRelay'], module=M)
klass('DovecotLdaRelay', ['PipeRelay'], module=M)
T.alias('PipeResult', 'Union[None, PermanentRelayError, TransientRelayError]')

extern('PipeRelay._process_args', params={'self': 'PipeRelay', 'envelope': 'Envelope', 'rcpt': 'Str'}, returns='Any')
extern('Envelope.flatten', params={'self': 'Envelope'}, returns='Tuple[Bytes, Bytes]')
extern('RelayError.__init__', params={'self': 'RelayError', 'msg': 'Any', 'reply': 'Reply'}, defaults={'reply': 'None'},
       modifies=['self.reply'], ensures=['implies(reply != None, self.reply is reply)', 'self.reply != None'])

RAISE = dict(params={'self': 'PipeRelay', 'status': 'Int', 'stdout': 'Bytes', 'stderr': 'Bytes'},
             requires=['self._permanent_error_pattern != None'],
             # raise_error never returns: it raises one of the two relay errors, carrying a reply
             ensures=['False'],
             raises={'PermanentRelayError': ['exc.reply != None', 'exc.reply.code == "550"'],
                     'TransientRelayError': ['exc.reply != None', 'exc.reply.code == "450"']},
             modifies=['fresh'])
extern('bytes.rstrip', params={})
contract('PipeRelay.raise_error', module=M, props=['C11'], **RAISE)
contract('MaildropRelay.raise_error', module=M, props=['C11'], **dict(RAISE, params=dict(RAISE['params'], self='MaildropRelay')))
contract('DovecotLdaRelay.raise_error', module=M, props=['C11'], **dict(RAISE, params=dict(RAISE['params'], self='DovecotLdaRelay')))

contract('PipeRelay._exec_process', module=M, props=['C11', 'C14'],
         params={'self': 'PipeRelay', 'args': 'Any', 'stdin': 'Bytes'}, returns='PipeResult',
         requires=['in_timeout_scope()', 'self._permanent_error_pattern != None'],
         checks=[
             # delivered (None) only for exit status 0; any other status -- including a negative one, the child
             # was killed by a signal -- is a relay error
             '(result is None) == (call_arg("Popen.communicate", 0, 0).returncode == 0)'],
         ensures=['implies(result is not None, cast(result, RelayError).reply != None)'],
         raises={'Timeout': [], 'OSError': []},
         modifies=['fresh'])

contract('PipeRelay._try_pipe_all_rcpts', module=M, props=['C11', 'C01', 'C14'], scope_timeouts=['self.timeout'],
         params={'self': 'PipeRelay', 'envelope': 'Envelope'}, returns='Dict[Str, PipeResult]',
         requires=['envelope != None', 'envelope.recipients != None', 'self._permanent_error_pattern != None'],
         ensures=['result != None',
                  # relay result contract: the mapping is keyed by exactly the recipients -- also after a timeout
                  'forall(envelope.recipients, lambda r: dict_has(result, r))',
                  'forall(dict_keys(result), lambda r: r in seq(envelope.recipients))',
                  'forall(dict_keys(result), lambda r: implies(dict_get(result, r) is not None, '
                  '       cast(dict_get(result, r), RelayError).reply != None))'],
         raises={'OSError': []},
         locals={'results': 'Dict[Str, PipeResult]'},
         modifies=['fresh'],
         loops={0: dict(modifies=['fresh'],
                        inv=['results != None and fresh(results)',
                             'forall(range(0, _k), lambda j: dict_has(results, envelope.recipients[j]))',
                             'forall(dict_keys(results), lambda r: r in seq(envelope.recipients))',
                             'forall(dict_keys(results), lambda r: implies(dict_get(results, r) is not None, '
                             '       cast(dict_get(results, r), RelayError).reply != None))']),
                1: dict(modifies=['fresh'],
                        inv=['results != None and fresh(results)',
                             'forall(range(0, _k), lambda j: dict_has(results, envelope.recipients[j]))',
                             'forall(dict_keys(results), lambda r: r in seq(envelope.recipients))',
                             'forall(dict_keys(results), lambda r: implies(dict_get(results, r) is not None, '
                             '       cast(dict_get(results, r), RelayError).reply != None))'])})

contract('PipeRelay._try_pipe_one_rcpt', module=M, props=['C11', 'C01', 'C14'], scope_timeouts=['self.timeout'],
         params={'self': 'PipeRelay', 'envelope': 'Envelope'}, returns='PipeResult',
         requires=['envelope != None', 'envelope.recipients != None', 'len(envelope.recipients) >= 1',
                   'self._permanent_error_pattern != None'],
         # a failure is RAISED, never returned as though it were a success
         ensures=['result is None'],
         raises={'TransientRelayError': ['exc.reply != None'], 'PermanentRelayError': ['exc.reply != None'],
                 'OSError': []},
         modifies=['fresh'])

contract('PipeRelay.attempt', module=M, props=['C11', 'C01'],
         params={'self': 'PipeRelay', 'envelope': 'Envelope', 'attempts': 'Int'},
         returns='Union[None, Dict[Str, PipeResult]]',
         requires=['envelope != None', 'envelope.recipients != None', 'len(envelope.recipients) >= 1',
                   'self._permanent_error_pattern != None'],
         ensures=['implies(not self.per_recipient, result is None)',
                  'implies(self.per_recipient, is_type(result, Dict[Str, PipeResult]) '
                  '        and forall(envelope.recipients, lambda r: dict_has(cast(result, Dict[Str, PipeResult]), r)))'],
         raises={'TransientRelayError': [], 'PermanentRelayError': [], 'OSError': []},
         modifies=['fresh'])
