"""Contracts for slimta/smtp/client.py: C10 (FIFO pairing of replies with commands; LMTP per-recipient replies)."""
import z3
from pyvc.registry import klass, extern, contract, predicate, assume_note, global_object
from pyvc import types as T
from pyvc.core import Val, SeqV, Undecided
from pyvc import exec as E, builtins as B, calls

M = 'slimta/smtp/client.py'

# ghost view of the server's reply script: reply number k on the wire has code io.script[k]; io.next_reply is the
# index of the next reply that will be parsed from the stream (C17 is the parser's own contract)
klass('IO', ghost={'script': 'ArrV[Str]', 'next_reply': 'Int'})
extern('Reply.recv', params={'self': 'Reply', 'io': 'IO'}, yields=True,
       requires=['io != None', 'in_timeout_scope()'],
       modifies=['self.code', 'self.message', 'io.next_reply'],
       ensures=['self.code == io.script[old(io.next_reply)]', 'io.next_reply == old(io.next_reply) + 1',
                'self.code is not None'],
       raises={'ConnectionLost': [], 'BadReply': [], 'Timeout': [], 'OSError': []},
       notes='Reply.recv(io): populated with the NEXT reply of the server stream (IO.recv_reply: C17)')
extern('IO.send_command', params={'self': 'IO', 'command': 'Bytes'})
klass('Client', module=M, fields={'reply_queue': 'List[Reply]', 'last_error': 'Reply', 'extensions': 'Extensions', 'io': 'IO'})
klass('LmtpClient', ['Client'], module=M, fields={'rcpttos': 'List[Tuple[Any, Reply]]'})

predicate('CLIENT_ok(c)', 'c.io != None and c.reply_queue != None and is_list(c.reply_queue) '
                          'and forall(c.reply_queue, lambda r: r != None and allocated(r)) '
                          'and alloc_ordered(c.reply_queue)')

contract('Client._flush_pipeline', module=M, props=['C10'],
         params={'self': 'Client'},
         requires=['CLIENT_ok(self)', 'in_timeout_scope()'],
         ensures=[
             # every queued reply object ends up holding the server reply at ITS position, in order ...
             'forall(range(0, old(len(self.reply_queue))), lambda j: '
             '   old(seq(self.reply_queue))[j].code == self.io.script[old(self.io.next_reply) + j])',
             # ... the queue is drained, and the client has read exactly as many replies as it was owed -- no more
             'len(self.reply_queue) == 0',
             'self.io.next_reply == old(self.io.next_reply) + old(len(self.reply_queue))',
             # last_error (what the relay reports after a lost connection) only ever becomes one of the replies just
             # read, and only an error reply
             'same(self.last_error, old(self.last_error)) or (self.last_error != None and self.last_error.is_error())'],
         raises={'ConnectionLost': [], 'BadReply': [], 'Timeout': [], 'OSError': []},
         modifies=['contents(self.reply_queue)', 'any(Reply).code', 'any(Reply).message', 'self.io.next_reply',
                   'self.last_error', 'fresh'],
         loops={0: dict(inv=['CLIENT_ok(self)',
                             'same(self.last_error, old(self.last_error)) or (self.last_error != None and self.last_error.is_error())',
                             'self.io.next_reply >= old(self.io.next_reply)',
                             'len(self.reply_queue) == old(len(self.reply_queue)) - (self.io.next_reply - old(self.io.next_reply))',
                             'forall(range(0, len(self.reply_queue)), lambda j: '
                             '   same(self.reply_queue[j], old(seq(self.reply_queue))[j + (self.io.next_reply - old(self.io.next_reply))]))',
                             'forall(range(0, self.io.next_reply - old(self.io.next_reply)), lambda j: '
                             '   old(seq(self.reply_queue))[j].code == self.io.script[old(self.io.next_reply) + j])',
                             ],
                        # facts about the (immutable) entry value of the queue, implied by the precondition
                        free_inv=['forall(old(seq(self.reply_queue)), lambda r: r != None)',
                                  'alloc_ordered(old(seq(self.reply_queue)))'])})

contract('Client.custom_command', module=M, props=['C10'],
         params={'self': 'Client', 'command': 'Bytes', 'arg': 'Opt[Bytes]'}, returns='Reply', defaults={'arg': 'None'},
         requires=['CLIENT_ok(self)', 'in_timeout_scope()'],
         # one command sent, one reply object returned, and it holds the reply to THIS command: the one that
         # follows the replies still owed to earlier (pipelined) commands
         ensures=['result != None', 'fresh(result)',
                  'result.code == self.io.script[old(self.io.next_reply) + old(len(self.reply_queue))]',
                  'len(self.reply_queue) == 0',
                  'self.io.next_reply == old(self.io.next_reply) + old(len(self.reply_queue)) + 1'],
         raises={'ConnectionLost': [], 'BadReply': [], 'Timeout': [], 'OSError': []},
         modifies=['contents(self.reply_queue)', 'any(Reply).code', 'any(Reply).message', 'self.io.next_reply',
                   'self.last_error', 'fresh'])

klass('DataSender')
extern('DataSender.__init__', params={'self': 'DataSender', '*parts': 'Args0'})
extern('DataSender.send', params={'self': 'DataSender', 'io': 'IO'})

for _m, _arg in (('send_data', {'*data': 'Args0'}), ('send_empty_data', {})):
    p = {'self': 'LmtpClient'}
    p.update(_arg)
    contract('LmtpClient.' + _m, module=M, props=['C10', 'C06'],
             params=p, returns='List[Tuple[Any, Reply]]',
             requires=['CLIENT_ok(self)', 'in_timeout_scope()', 'self.rcpttos != None', 'self.extensions != None',
                       'self.rcpttos is not self.reply_queue',
                       'forall(self.rcpttos, lambda t: t[1] != None and allocated(t[1]) and t[1].code is not None)'],
             ensures=['result != None', 'fresh(result)',
                      # one end-of-data reply per ACCEPTED recipient, and the recipient list is consumed: the next
                      # transaction starts from an empty list, with or without PIPELINING
                      'len(self.rcpttos) == 0', 'len(result) <= old(len(self.rcpttos))',
                      'forall(result, lambda t: t[1] != None and fresh(t[1]))'],
             raises={'ConnectionLost': [], 'BadReply': [], 'Timeout': [], 'OSError': []},
             locals={'ret': 'List[Tuple[Any, Reply]]'},
             modifies=['self.rcpttos', 'contents(self.reply_queue)', 'any(Reply).code', 'any(Reply).message',
                       'self.io.next_reply', 'self.last_error', 'fresh'],
             loops={0: dict(modifies=['contents(self.reply_queue)', 'fresh'],
                            inv=['ret != None and fresh(ret) and is_list(ret) and len(ret) <= _k and ret is not self.reply_queue',
                                 'CLIENT_ok(self)',
                                 'forall(ret, lambda t: t[1] != None and fresh(t[1]))',
                                 'forall(self.rcpttos, lambda t: t[1] != None and allocated(t[1]) and t[1].code is not None)'])})

# ---------------------------------------------------------------------------- the other command methods (C10)
# Every command method creates ONE reply object, queues it LAST (so it is paired with the reply that follows the ones
# already owed), sends ONE command, and flushes unless the command is pipelined and the server advertised PIPELINING.
extern('Client._encode', params={'self': 'Client', 'thing': 'Any'}, returns='Bytes', pure=True,
       notes='Client._encode: utf-8 / ascii encoding of an address (opaque; C06 territory)')
extern('Client._xtext', params={'self': 'Client', 'thing': 'Any'}, returns='Bytes', pure=True)
klass('Client', fields={'extensions': 'Extensions'})
CL_RAISES = {'ConnectionLost': [], 'BadReply': [], 'Timeout': [], 'OSError': []}
CL_MOD = ['contents(self.reply_queue)', 'any(Reply).code', 'any(Reply).message', 'self.io.next_reply',
          'self.last_error', 'fresh']
OWN_REPLY = 'result.code == self.io.script[old(self.io.next_reply) + old(len(self.reply_queue))]'
FLUSHED = ['len(self.reply_queue) == 0',
           'self.io.next_reply == old(self.io.next_reply) + old(len(self.reply_queue)) + 1']

for _m, _p in (('get_reply', {'command': 'Bytes'}), ('get_banner', {}), ('data', {}), ('rset', {}), ('quit', {})):
    p = {'self': 'Client'}
    p.update(_p)
    contract('Client.' + _m, module=M, props=['C10'], params=p, returns='Reply',
             defaults={'command': 'b"[TIMEOUT]"'} if _m == 'get_reply' else {},
             requires=['CLIENT_ok(self)', 'in_timeout_scope()'],
             ensures=['result != None', 'fresh(result)', OWN_REPLY] + FLUSHED,
             checks=(['ncalls("IO.send_command") == 0'] if _m in ('get_reply', 'get_banner') else []),
             raises=CL_RAISES, modifies=CL_MOD)

for _m, _p in (('mailfrom', {'address': 'Any', 'data_size': 'Opt[Int]', 'auth': 'Any'}), ('rcptto', {'address': 'Any'})):
    p = {'self': 'Client'}
    p.update(_p)
    contract('Client.' + _m, module=M, props=['C10'], params=p, returns='Reply',
             defaults={'data_size': 'None', 'auth': 'None'} if _m == 'mailfrom' else {},
             requires=['CLIENT_ok(self)', 'in_timeout_scope()', 'self.extensions != None'],
             ensures=['result != None', 'fresh(result)',
                      # pipelined: the reply object waits LAST in the queue, nothing has been read
                      'implies("PIPELINING" in self.extensions, len(self.reply_queue) == old(len(self.reply_queue)) + 1 '
                      '        and same(self.reply_queue[len(self.reply_queue) - 1], result) '
                      '        and self.io.next_reply == old(self.io.next_reply) '
                      '        and forall(range(0, old(len(self.reply_queue))), lambda j: same(self.reply_queue[j], old(seq(self.reply_queue))[j])))',
                      # not pipelined: flushed at once, the object holds the reply to this very command
                      'implies(not ("PIPELINING" in self.extensions), ' + OWN_REPLY + ' and ' + ' and '.join(FLUSHED) + ')'],
             checks=['ncalls("IO.send_command") == 1'],
             raises=CL_RAISES, modifies=CL_MOD)

for _m, _p, _chk in (('send_data', {'*data': 'Args0'}, ['ncalls("DataSender.send") == 1']),
                     ('send_empty_data', {}, ['ncalls("IO.send_command") == 1'])):
    p = {'self': 'Client'}
    p.update(_p)
    contract('Client.' + _m, module=M, props=['C10'], params=p, returns='Reply',
             requires=['CLIENT_ok(self)', 'in_timeout_scope()', 'self.extensions != None'],
             ensures=['result != None', 'fresh(result)',
                      'implies("PIPELINING" in self.extensions, len(self.reply_queue) == old(len(self.reply_queue)) + 1 '
                      '        and same(self.reply_queue[len(self.reply_queue) - 1], result) '
                      '        and self.io.next_reply == old(self.io.next_reply) '
                      '        and forall(range(0, old(len(self.reply_queue))), lambda j: same(self.reply_queue[j], old(seq(self.reply_queue))[j])))',
                      'implies(not ("PIPELINING" in self.extensions), ' + OWN_REPLY + ' and ' + ' and '.join(FLUSHED) + ')'],
             checks=_chk, raises=CL_RAISES, modifies=CL_MOD)

# ---------------------------------------------------------------------------- greeting commands and STARTTLS (C10)
# EHLO / HELO / LHLO are never pipelined: one reply object queued last, one command sent, flushed at once, and the
# object holds the reply to this very command whatever was still owed before.
extern('Extensions.parse_string', params={'self': 'Extensions', 'string': 'Opt[Str]'}, returns='Str', modifies=['self.state'],
       notes='Extensions.parse_string: records the advertised extensions, returns the greeting line (extension parsing: C06 territory)')
for _cls, _m in (('Client', 'ehlo'), ('Client', 'helo'), ('LmtpClient', 'lhlo')):
    contract('%s.%s' % (_cls, _m), module=M, props=['C10'],
             params={'self': _cls, _m + '_as': 'Union[Str, Bytes]'}, returns='Reply',
             requires=['CLIENT_ok(self)', 'in_timeout_scope()', 'self.extensions != None'],
             ensures=['result != None', 'fresh(result)', OWN_REPLY] + FLUSHED +
                     # LMTP: a successful LHLO starts from an empty recipient list
                     (['implies(result.code == "250", self.rcpttos != None and len(self.rcpttos) == 0)'] if _m == 'lhlo' else []),
             checks=['ncalls("IO.send_command") == 1'],
             raises=dict(CL_RAISES, UnicodeEncodeError=[]),
             modifies=CL_MOD + ['self.extensions.state'] + (['self.rcpttos'] if _m == 'lhlo' else []))

extern('Client.encrypt', params={'self': 'Client', 'context': 'Any'}, defaults={'context': 'None'}, yields=True,
       raises={'OSError': [], 'ConnectionLost': [], 'Timeout': []},
       notes='Client.encrypt: TLS handshake on the socket (IO.encrypt_socket_client, C08); no reply is read')
contract('Client.starttls', module=M, props=['C10'],
         params={'self': 'Client', 'context': 'Any'}, defaults={'context': 'None'}, returns='Reply',
         requires=['CLIENT_ok(self)', 'in_timeout_scope()'],
         # the reply object holds the reply to STARTTLS itself; the handshake starts only after every owed reply was read
         ensures=['result != None', 'fresh(result)', OWN_REPLY] + FLUSHED,
         checks=['ncalls("Client.custom_command") == 1',
                 'iff(ncalls("Client.encrypt") == 1, result.code == "220")', 'ncalls("Client.encrypt") <= 1'],
         raises=CL_RAISES, modifies=CL_MOD)

from pyvc.registry import bounded
bounded(['C06'], 'bounded/relay_hop.py',
        'one relay hop end to end over a loopback socket: real StaticSmtpRelay / SmtpRelayClient / smtp.Client against the '
        'real SmtpEdge / SmtpSession / smtp.Server -- 13 sender shapes (null sender, quoted local parts with @ > \\" and '
        'spaces, address literals, parameter look-alikes), 10 recipient shapes and lists of up to 10 (duplicates, order), '
        '3 UTF-8 addresses, 3 header blocks x 12 bodies (dot lines, bare LF, lone CR, no final newline, command look-alikes) '
        '+ 3 raw 8-bit bodies, connection reuse: same sender, same recipients in order, byte-identical header block and body '
        '(modulo the final CRLF), success reported iff exactly one message was queued; 6 extension sets built by '
        'Extensions.build_string are parsed back by parse_string to exactly the advertised names and parameters')
