"""Contracts for slimta/edge/smtp.py (SmtpSession), slimta/edge/wsgi.py (WsgiEdge._enqueue_envelope) and
slimta/queue/proxy.py (ProxyQueue.enqueue): C02, and the edge half of C07/C08."""
import z3
from pyvc.registry import klass, extern, contract, predicate, assume_note, global_object
from pyvc import types as T
from pyvc.core import Val, SeqV, Undecided
from pyvc import exec as E, builtins as B, calls

MS = 'slimta/edge/smtp.py'
MW = 'slimta/edge/wsgi.py'
MPX = 'slimta/queue/proxy.py'

T.alias('EnqResult', 'Union[Str, QueueError, RelayError]')
klass('QueueError', fields={'reply': 'Reply'}, ghost={'reply__set': 'Bool'})
klass('Handoff')
extern('Handoff.__call__', params={'self': 'Handoff', 'envelope': 'Envelope'},
       returns='List[Tuple[Envelope, EnqResult]]', yields=True,
       ensures=['result != None', 'len(result) >= 1',
                # a queue / relay error that carries a reply carries an ERROR reply
                'forall(result, lambda r: implies(isinstance(r[1], QueueError) and cast(r[1], QueueError).reply__set, '
                '   cast(r[1], QueueError).reply != None and is_err_code(cast(r[1], QueueError).reply.code)))',
                'forall(result, lambda r: implies(isinstance(r[1], RelayError), '
                '   cast(r[1], RelayError).reply != None and is_err_code(cast(r[1], RelayError).reply.code)))'],
       notes='Edge.handoff(envelope) -> queue.enqueue: one (envelope, id | QueueError | RelayError) pair per envelope '
             'the queue policies produced (Queue.enqueue has its own contract); error objects carry 4xx/5xx replies')

klass('Validators')
klass('PtrLookup')
extern('PtrLookup.finish', params={'self': 'PtrLookup'}, returns='Any', yields=True)
klass('Envelope', fields={'client': 'Dict[Str, Any]'})
extern('Envelope.parse', params={'self': 'Envelope', 'data': 'Any'})
klass('SmtpSession', module=MS,
      fields={'envelope': 'Envelope', 'handoff': 'Handoff', 'validators': 'Validators', '_ptr_lookup': 'PtrLookup',
              'address': 'Tuple[Str, Int]', 'reverse_address': 'Any', 'ehlo_as': 'Any', 'auth': 'Any',
              'extended_smtp': 'Bool', 'security': 'Any'})
extern('SmtpSession.protocol', params={'self': 'SmtpSession'}, returns='Str', is_property=True, pure=True)


def _call_validator(st, args, kw):
    """SmtpSession._call_validator(command, *args) -- ASSUMED: the application's validator may rewrite the
    Reply it is given at will, EXCEPT the `queued` callback, which is modelled as accepting (the property is
    about the reply the edge itself chose from the enqueue results)."""
    command = args[1]
    rest = args[2:]
    cz = z3.simplify(st.coerce(command, T.STR).z)
    if rest and rest[0].t.kind == 'ref' and rest[0].t.name == 'Reply':
        if not (z3.is_string_value(cz) and cz.as_string() == 'queued'):
            r = rest[0]
            code = st.fresh_val(T.parse_type('Opt[Str]'), 'val_code')
            st.assume(z3.Or(T.PyVal.is_none(code.z),
                            z3.And(T.PyVal.is_s(code.z), z3.Length(T.PyVal.s_v(code.z)) == 3)))
            st.write_field(r.z, 'Reply', 'code', code)
            st.write_field(r.z, 'Reply', 'message', st.fresh_val(T.parse_type('Opt[Str]'), 'val_msg'))
    return E.NONE_VAL()


contract('SmtpSession._call_validator', kind='extern', model=_call_validator,
         notes='SmtpSession._call_validator (getattr dispatch to the application validators) modelled by contract')

klass('WsgiResponse', ['Exception'], fields={'ok': 'Bool'})
extern('_build_http_response', params={'smtp_reply': 'Reply'}, returns='WsgiResponse',
       requires=['smtp_reply != None', 'smtp_reply.code is not None'],
       ensures=['result != None', 'fresh(result)', 'result.ok == str_prefix(cast(smtp_reply.code, Str), "2")'],
       notes='_build_http_response: HTTP status class follows the SMTP reply class (its own mapping: C06)')

ALL_IDS = 'forall(call_result("Handoff.__call__", 0), lambda r: isinstance(r[1], str))'

contract('SmtpSession.HAVE_DATA', module=MS, props=['C02'],
         params={'self': 'SmtpSession', 'reply': 'Reply', 'data': 'Any', 'err': 'Union[None, MessageTooBig, SmtpError]'},
         requires=['reply != None', 'reply.code == "250"', 'self.handoff != None',
                   'self.envelope != None', 'self.envelope.client != None'],
         # a 2xx final reply only if EVERY envelope the policies produced was taken into custody
         checks=['implies(ncalls("Handoff.__call__") == 1 and reply.code is not None and str_prefix(cast(reply.code, Str), "2"), '
                 + ALL_IDS + ')',
                 # and conversely: any failed write / relay makes the reply an error reply
                 'implies(ncalls("Handoff.__call__") == 1 and not (' + ALL_IDS + '), is_err_code(reply.code))',
                 # no custody attempt at all for an oversized message: 552
                 'implies(isinstance(err, MessageTooBig), reply.code == "552" and ncalls("Handoff.__call__") == 0)'],
         raises={'SmtpError': [], 'AssertionError': []},
         modifies=['any(Reply).code', 'any(Reply).message', 'self.reverse_address', 'self.envelope',
                   'contents(self.envelope.client)', 'fresh'],
         loops={0: dict(modifies=[],
                        inv=['forall(range(0, _k), lambda j: isinstance(results[j][1], str))'])})

klass('WsgiEdge', module=MW, fields={'handoff': 'Handoff'})
contract('WsgiEdge._enqueue_envelope', module=MW, props=['C02'],
         params={'self': 'WsgiEdge', 'env': 'Envelope'},
         requires=['self.handoff != None', 'env != None'],
         ensures=['False'],       # always ends by raising the HTTP response
         raises={'WsgiResponse': [
             'implies(exc.ok, ' + ALL_IDS + ')',
             'implies(not (' + ALL_IDS + '), not exc.ok)']},
         modifies=['fresh'],
         loops={0: dict(modifies=[],
                        inv=['forall(range(0, _k), lambda j: isinstance(results[j][1], str))'])})

# ---------------------------------------------------------------------------- ProxyQueue
klass('ProxyQueue', module=MPX, fields={'relay': 'Relay'})
klass('UUID', fields={'hex': 'Str'})
extern('uuid.uuid4', params={}, returns='UUID', ensures=['result != None', 'fresh(result)'])
contract('ProxyQueue.enqueue', module=MPX, props=['C02'],
         params={'self': 'ProxyQueue', 'envelope': 'Envelope'},
         returns='List[Tuple[Envelope, EnqResult]]',
         requires=['self.relay != None', 'envelope != None', 'envelope.recipients != None'],
         ensures=['result != None', 'len(result) == 1', 'result[0][0] is envelope',
                  # an id (success) only if the relay accepted the message for EVERY recipient
                  'implies(isinstance(result[0][1], str), self.relay.last_outcome == 0 or '
                  '   (self.relay.last_outcome == 1 and forall(envelope.recipients, lambda r: '
                  '        settled_ok(dict_get(cast(call_result("Relay._attempt", 0), Dict[Str, RcptResult]), r)))) or '
                  '   (self.relay.last_outcome == 2 and forall(cast(call_result("Relay._attempt", 0), List[RcptResult]), '
                  '        lambda v: settled_ok(v))))',
                  'implies(self.relay.last_outcome == 3 or self.relay.last_outcome == 4, isinstance(result[0][1], RelayError))'],
         raises={'OtherException': []},
         modifies=['self.relay.last_outcome', 'fresh'],
         locals={'failure': 'RcptResult'},
         loops={0: dict(modifies=[],
                        inv=['implies(failure is not None, isinstance(failure, RelayError))',
                             # quantified over KEYS (position of a key in the iteration order: dict_index)
                             'implies(failure is None, forall(Str, lambda r: implies(dict_has(cast(results, Dict[Str, RcptResult]), r) '
                             '        and dict_index(cast(results, Dict[Str, RcptResult]), r) < _k, '
                             '        settled_ok(dict_get(cast(results, Dict[Str, RcptResult]), r)))))']),
                1: dict(modifies=[],
                        inv=['implies(failure is not None, isinstance(failure, RelayError))',
                             'implies(failure is None, forall(range(0, _k), lambda j: settled_ok(_seq1[j])))'])})
predicate('settled_ok(v)', 'v is None or isinstance(v, Reply)')
