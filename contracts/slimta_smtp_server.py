"""Contracts for slimta/smtp/server.py (Server state machine): C07, C08 (AUTH gating / STARTTLS state),
C14 (server-side timeout scopes)."""
import z3
from pyvc.registry import klass, extern, contract, predicate, assume_note, global_object
from pyvc import types as T
from pyvc.core import Val, SeqV, Undecided
from pyvc import exec as E, builtins as B, calls

M = 'slimta/smtp/server.py'

# ---- reply constants of slimta.smtp.reply referenced by name
for _n, _c in [('unknown_command', '500'), ('unknown_parameter', '504'), ('bad_sequence', '503'),
               ('bad_arguments', '501'), ('unhandled_error', '421'), ('tls_failure', '421'),
               ('timed_out', '421'), ('invalid_credentials', '535')]:
    global_object(_n, 'Reply', code=_c)

klass('SmtpError', ['SlimtaError'])
klass('ConnectionLost', ['SmtpError'])
klass('MessageTooBig', ['SmtpError'])
klass('BadReply', ['SmtpError'])
klass('ServerAuthError', ['SmtpError'], fields={'reply': 'Reply'})

klass('IO', ghost={'sent': 'List[Opt[Str]]'}, fields={'recv_buffer': 'Bytes', 'address': 'Tuple[Str, Int]', 'socket': 'Any'})
extern('IO.encrypted', params={'self': 'IO'}, returns='Bool', is_property=True, pure=True, reads=['self.socket'],
       notes='IO.encrypted: isinstance(self.socket, SSLSocket) -- a function of the socket object')
klass('Extensions', ghost={'state': 'Int'})
klass('Handlers')
klass('SSLContext')
klass('AuthSession')
klass('Match')
klass('Timeout', fields={'seconds': 'Opt[Real]'})
extern('Timeout.__init__', params={'self': 'Timeout', 'seconds': 'Opt[Real]', 'exception': 'Any'},
       defaults={'seconds': 'None', 'exception': 'None'}, modifies=['self.seconds'], ensures=['self.seconds == seconds'])

klass('Server', module=M,
      fields={'handlers': 'Handlers', 'extensions': 'Extensions', 'io': 'IO', 'bannered': 'Bool',
              'have_mailfrom': 'Union[None, Bool]', 'have_rcptto': 'Union[None, Bool]',
              'ehlo_as': 'Opt[Str]', 'authed': 'Bool', 'context': 'SSLContext', 'tls_immediately': 'Bool',
              'command_timeout': 'Opt[Real]', 'data_timeout': 'Opt[Real]'},
      ghost={'trace': 'List[Str]'})

# ---- replies on the wire: ghost log io.sent of reply codes, in order
extern('Reply.send', params={'self': 'Reply', 'io': 'IO', 'flush': 'Bool'}, defaults={'flush': 'False'},
       requires=['io != None', 'io.sent != None'],
       modifies=['contents(io.sent)'],
       ensures=['len(io.sent) == old(len(io.sent)) + 1', 'io.sent[len(io.sent) - 1] == self.code',
                'forall(range(0, old(len(io.sent))), lambda j: io.sent[j] == old(seq(io.sent))[j])'],
       notes='Reply.send(io): the reply is written to the session (ghost: its code is appended to io.sent)')
extern('IO.send_reply', params={'self': 'IO', 'reply': 'Reply'},
       requires=['self.sent != None'], modifies=['contents(self.sent)'],
       ensures=['len(self.sent) == old(len(self.sent)) + 1', 'self.sent[len(self.sent) - 1] == reply.code',
                'forall(range(0, old(len(self.sent))), lambda j: self.sent[j] == old(seq(self.sent))[j])'])
extern('IO.flush_send', params={'self': 'IO'}, yields=True)
extern('Reply.copy', params={'self': 'Reply', 'reply': 'Reply'}, returns='Reply',
       modifies=['self.code', 'self.message'], ensures=['self.code == reply.code', 'result is self'])
klass('Reply', fields={'enhanced_status_code': 'Any'})

SENT1 = 'len(self.io.sent) == old(len(self.io.sent)) + 1'
PREFIX = 'forall(range(0, old(len(self.io.sent))), lambda j: self.io.sent[j] == old(seq(self.io.sent))[j])'
LAST = 'self.io.sent[len(self.io.sent) - 1]'
NOCB = 'len(self.trace) == old(len(self.trace))'
ONECB = 'len(self.trace) == old(len(self.trace)) + 1 and self.trace[len(self.trace) - 1] == '
TRACE_PREFIX = 'forall(range(0, old(len(self.trace))), lambda j: self.trace[j] == old(seq(self.trace))[j])'
S_OK = ['self.io != None', 'self.io.sent != None', 'is_list(self.io.sent)', 'self.trace != None',
        'is_list(self.trace)', 'self.handlers != None', 'self.extensions != None']


def _call_custom_handler(st, args, kw):
    """Server._call_custom_handler(which, *args) -- ASSUMED model of `getattr(self.handlers, which)(*args)`:
    the callback named `which` is recorded in the ghost trace, and the application may rewrite the Reply
    passed as first argument at will (any code, any message) -- that is the quantifier over validator
    verdicts {accept, 4xx, 5xx, 421}.  Nothing else of the session is touched."""
    self_v, which = args[0], args[1]
    rest = args[2:]
    tr = st.read_field(self_v.z, 'Server', 'trace')
    et = tr.t.args[0]
    s = st.list_seq(tr.z, et)
    k = z3.Int('k!cch')
    narr = z3.Store(s.arr, s.n, st.coerce(which, T.STR).z)
    st.assume(z3.ForAll([k], z3.Implies(z3.And(0 <= k, k < s.n), z3.Select(narr, k) == z3.Select(s.arr, k)),
                        patterns=[z3.Select(s.arr, k)]))
    st.list_store(tr.z, et, SeqV(narr, s.n + 1))
    if rest and rest[0].t.kind == 'ref' and rest[0].t.name == 'Reply':
        r = rest[0]
        code = st.fresh_val(T.parse_type('Opt[Str]'), 'cb_code')
        # a validator sets a syntactically valid code (Reply.code setter rejects anything else) or leaves it
        cz = T.PyVal.s_v(code.z)
        st.assume(z3.Or(T.PyVal.is_none(code.z), z3.And(T.PyVal.is_s(code.z), z3.Length(cz) == 3)))
        st.write_field(r.z, 'Reply', 'code', code)
        st.write_field(r.z, 'Reply', 'message', st.fresh_val(T.parse_type('Opt[Str]'), 'cb_msg'))
    return E.NONE_VAL()


contract('Server._call_custom_handler', kind='extern', model=_call_custom_handler,
         notes='Server._call_custom_handler modelled as: record callback in ghost trace; validator may rewrite the reply arbitrarily')

extern('Server._check_close_code#doc', params={})
contract('Server._check_close_code', module=M, props=['C07'],
         params={'self': 'Server', 'reply': 'Reply'},
         requires=['reply != None'],
         ensures=['not (reply.code == "221" or reply.code == "421")'],
         raises={'StopIteration': ['reply.code == "221" or reply.code == "421"']},
         modifies=[])

# ---- abstracted string helpers used by the command handlers (their own contracts belong to C06/C09)
extern('Extensions.__contains__', params={'self': 'Extensions', 'name': 'Str'}, returns='Bool', pure=True,
       reads=['self.state'])
extern('Extensions.getparam', params={'self': 'Extensions', 'name': 'Str', 'filter': 'Any'},
       defaults={'filter': 'None'}, returns='Union[None, Int, AuthSession]', pure=True, reads=['self.state'],
       ensures=['implies(name == "SIZE", result is None or is_type(result, Int))',
                'implies(name == "AUTH", result is None or is_type(result, AuthSession))'],
       notes='Extensions.getparam: SIZE is filtered through int (None if absent/invalid), AUTH holds the AuthSession')
extern('Extensions.build_string', params={'self': 'Extensions', 'header': 'Opt[Str]'}, returns='Str', pure=True,
       reads=['self.state'])
extern('Extensions.reset', params={'self': 'Extensions'}, modifies=['self.state'])
extern('Extensions.drop', params={'self': 'Extensions', 'name': 'Str'}, modifies=['self.state'],
       ensures=['not (name in self)'])

CMD_MOD = ['contents(self.io.sent)', 'contents(self.trace)', 'any(Reply).code', 'any(Reply).message']
EXT_MOD = ['self.extensions.state']


# C07 "a 221/421 reply ends the session": a command handler that has sent such a reply does not return normally
# (it leaves through StopIteration, see STOP) -- found missing by the mutation campaign (deleting a _check_close_code
# call survived)
NOCLOSE = ('implies(len(self.io.sent) > old(len(self.io.sent)), '
           'not (self.io.sent[len(self.io.sent) - 1] == "221" or self.io.sent[len(self.io.sent) - 1] == "421"))')


def cmd(name, params=None, **kw):
    p = {'self': 'Server'}
    p.update(params or {'arg': 'Opt[Bytes]'})
    kw['ensures'] = list(kw.get('ensures', [])) + [NOCLOSE]
    return contract('Server._command_' + name, module=M, params=p, **kw)


STOP = {'StopIteration': [SENT1, LAST + ' == "221" or ' + LAST + ' == "421"']}

cmd('BANNER_', props=['C07'],
    requires=S_OK,
    ensures=[SENT1, PREFIX, ONECB + '"BANNER_"', TRACE_PREFIX,
             # the session counts as greeted only if the greeting that was SENT is a 220
             'self.bannered == (old(self.bannered) or ' + LAST + ' == "220")'],
    raises={'StopIteration': [SENT1, ONECB + '"BANNER_"', 'self.bannered == old(self.bannered)']},
    modifies=CMD_MOD + ['self.bannered', 'fresh'])

for _h in ('EHLO', 'HELO'):
    cmd(_h, params={'ehlo_as': 'Opt[Bytes]'}, props=['C07'],
        requires=S_OK,
        ensures=[SENT1, PREFIX, TRACE_PREFIX,
                 # callback only in protocol order: after an accepted greeting and with an argument
                 'implies(not old(self.bannered) or not bool(ehlo_as), ' + NOCB + ' and '
                 '(' + LAST + ' == "503" or ' + LAST + ' == "501"))',
                 'implies(old(self.bannered) and bool(ehlo_as), ' + ONECB + '"%s")' % _h,
                 # accepted: the transaction state is forgotten
                 'implies(' + ONECB + '"%s" and ' % _h + LAST + ' == "250", '
                 '        self.have_mailfrom is None and self.have_rcptto is None and self.ehlo_as is not None)',
                 # not accepted: nothing changes
                 'implies(not (' + LAST + ' == "250") or ' + NOCB + ', self.ehlo_as == old(self.ehlo_as) '
                 '        and self.have_mailfrom == old(self.have_mailfrom) and self.have_rcptto == old(self.have_rcptto))',
                 'self.bannered == old(self.bannered) and self.authed == old(self.authed)'],
        raises={'StopIteration': [SENT1, ONECB + '"%s"' % _h],
                'UnicodeDecodeError': [NOCB, 'len(self.io.sent) == old(len(self.io.sent))']},
        modifies=CMD_MOD + EXT_MOD + ['self.have_mailfrom', 'self.have_rcptto', 'self.ehlo_as', 'fresh'])

cmd('RSET', props=['C07'],
    requires=S_OK,
    ensures=[SENT1, PREFIX, TRACE_PREFIX,
             'implies(bool(arg), ' + NOCB + ' and ' + LAST + ' == "501")',
             'implies(not bool(arg), ' + ONECB + '"RSET")',
             'implies(not bool(arg) and ' + LAST + ' == "250", self.have_mailfrom is None and self.have_rcptto is None)',
             'implies(bool(arg) or not (' + LAST + ' == "250"), self.have_mailfrom == old(self.have_mailfrom) '
             '        and self.have_rcptto == old(self.have_rcptto))',
             'self.ehlo_as == old(self.ehlo_as) and self.bannered == old(self.bannered)'],
    raises={'StopIteration': [SENT1, ONECB + '"RSET"']},
    modifies=CMD_MOD + ['self.have_mailfrom', 'self.have_rcptto', 'fresh'])

cmd('NOOP', props=['C07'],
    requires=S_OK,
    ensures=[SENT1, PREFIX, TRACE_PREFIX, ONECB + '"NOOP"',
             'self.have_mailfrom == old(self.have_mailfrom) and self.have_rcptto == old(self.have_rcptto) '
             'and self.ehlo_as == old(self.ehlo_as)'],
    raises={'StopIteration': [SENT1, ONECB + '"NOOP"']},
    modifies=CMD_MOD + ['fresh'])

cmd('QUIT', props=['C07'],
    requires=S_OK,
    ensures=[SENT1, PREFIX, TRACE_PREFIX,
             'implies(bool(arg), ' + NOCB + ' and ' + LAST + ' == "501")',
             'implies(not bool(arg), ' + ONECB + '"QUIT")'],
    raises={'StopIteration': [SENT1, ONECB + '"QUIT"']},
    modifies=CMD_MOD + ['fresh'])

# ---------------------------------------------------------------------------- MAIL / RCPT / DATA
klass('Pattern')
for _p in ('from_pattern', 'to_pattern', 'param_keyword_pattern', 'param_value_pattern'):
    global_object(_p, 'Pattern')
extern('Pattern.match', params={'self': 'Pattern', 's': 'Bytes', 'pos': 'Int'}, defaults={'pos': '0'},
       returns='Opt[Match]', pure=True)
extern('Match.end', params={'self': 'Match', 'g': 'Int'}, returns='Int', pure=True, ensures=['result >= 0'])
extern('find_outside_quotes', params={'haystack': 'Bytes', 'needle': 'Bytes', 'start_i': 'Int'},
       defaults={'start_i': '0'}, returns='Int', pure=True,
       ensures=['result == -1 or (start_i <= result and result < len(haystack))'],
       notes='find_outside_quotes abstracted here (its own contract: C06)')
extern('Server._gather_params#abstract', params={})
contract('Server._gather_params', kind='extern', params={'self': 'Server', 'remaining': 'Bytes'},
         returns='Dict[Bytes, Union[Bytes, Bool]]', ensures=['result != None', 'fresh(result)'],
         notes='Server._gather_params abstracted at its call sites (its own contract: C06)')


def _py_int(st, args):
    """int(x) for bytes/str: accepted language and value are uninterpreted (validated bounded in C18)."""
    v = args[0]
    if v.t.kind in ('bytes', 'str'):
        ok = z3.Function('py_int_ok', z3.StringSort(), z3.BoolSort())
        val = z3.Function('py_int_val', z3.StringSort(), z3.IntSort())
        E.check_or_raise(st, ok(v.z), 'ValueError')
        return Val(T.INT, val(v.z))
    if v.t.kind == 'real':
        f = z3.Function('py_trunc', z3.RealSort(), z3.IntSort())
        return Val(T.INT, f(v.z))
    raise Undecided('int(%r)' % (v.t,))


calls.SPECFUNS['py_int'] = _py_int

TXN_SAME = 'self.ehlo_as == old(self.ehlo_as) and self.bannered == old(self.bannered) and self.authed == old(self.authed)'

cmd('MAIL', params={'arg': 'Bytes'}, props=['C07'],
    requires=S_OK,
    ensures=[SENT1, PREFIX, TRACE_PREFIX,
             # the MAIL callback runs only in protocol order ...
             'implies(' + ONECB + '"MAIL", bool(old(self.ehlo_as)) and not bool(old(self.have_mailfrom)))',
             '(' + NOCB + ') or (' + ONECB + '"MAIL")',
             # ... and otherwise the command gets an error reply and changes nothing
             'implies(' + NOCB + ', (' + LAST + ' == "501" or ' + LAST + ' == "503" or ' + LAST + ' == "552" or '
             + LAST + ' == "504") and self.have_mailfrom == old(self.have_mailfrom))',
             'implies(not bool(old(self.ehlo_as)) or bool(old(self.have_mailfrom)), ' + NOCB + ')',
             'implies(' + ONECB + '"MAIL", bool(self.have_mailfrom) == (' + LAST + ' == "250"))',
             'self.have_rcptto == old(self.have_rcptto)', TXN_SAME],
    raises={'StopIteration': [SENT1, ONECB + '"MAIL"'],
            'UnicodeDecodeError': [NOCB, 'len(self.io.sent) == old(len(self.io.sent))',
                                   'self.have_mailfrom == old(self.have_mailfrom)']},
    modifies=CMD_MOD + ['self.have_mailfrom', 'fresh'])

cmd('RCPT', params={'arg': 'Bytes'}, props=['C07'],
    requires=S_OK,
    ensures=[SENT1, PREFIX, TRACE_PREFIX,
             'implies(' + ONECB + '"RCPT", bool(old(self.have_mailfrom)))',
             '(' + NOCB + ') or (' + ONECB + '"RCPT")',
             'implies(' + NOCB + ', (' + LAST + ' == "501" or ' + LAST + ' == "503") '
             '        and self.have_rcptto == old(self.have_rcptto))',
             'implies(not bool(old(self.have_mailfrom)), ' + NOCB + ')',
             'implies(' + ONECB + '"RCPT", bool(self.have_rcptto) == (bool(old(self.have_rcptto)) or ' + LAST + ' == "250"))',
             'self.have_mailfrom == old(self.have_mailfrom)', TXN_SAME],
    raises={'StopIteration': [SENT1, ONECB + '"RCPT"'],
            'UnicodeDecodeError': [NOCB, 'len(self.io.sent) == old(len(self.io.sent))',
                                   'self.have_rcptto == old(self.have_rcptto)']},
    modifies=CMD_MOD + ['self.have_rcptto', 'fresh'])

# ---- DATA phase
klass('DataReader')
extern('IO.recv_command', params={'self': 'IO'}, returns='Tuple[Opt[Bytes], Opt[Bytes]]', yields=True,
       requires=['in_timeout_scope()'],
       raises={'ConnectionLost': [], 'Timeout': []},
       notes='IO.recv_command blocks on the peer: G4 requires an enclosing Timeout scope (C14)')

contract('Server._recv_command', module=M, props=['C14'], scope_timeouts=['self.command_timeout'],
         params={'self': 'Server'}, returns='Tuple[Opt[Bytes], Opt[Bytes]]',
         requires=['self.io != None'],
         raises={'ConnectionLost': [], 'Timeout': []},
         modifies=['fresh'])

contract('Server._get_message_data', module=M, props=['C07', 'C14', 'C09'], scope_timeouts=['self.data_timeout'],
         params={'self': 'Server'},
         requires=S_OK,
         ensures=[
             # the message-received callback, then exactly one final reply, then the transaction is forgotten --
             # after every completed OR rejected message
             ONECB + '"HAVE_DATA"', TRACE_PREFIX, SENT1, PREFIX,
             'self.have_mailfrom is None and self.have_rcptto is None', TXN_SAME, NOCLOSE],
         # a 221/421 answer to the message ends the session like any other (the transaction is forgotten first)
         raises={'StopIteration': [SENT1, LAST + ' == "221" or ' + LAST + ' == "421"', ONECB + '"HAVE_DATA"',
                                   'self.have_mailfrom is None and self.have_rcptto is None', PREFIX, TRACE_PREFIX],
                 'ConnectionLost': [NOCB, 'len(self.io.sent) == old(len(self.io.sent))'],
                 'Timeout': [NOCB, 'len(self.io.sent) == old(len(self.io.sent))'], 'OSError': [], 'AssertionError': []},
         modifies=CMD_MOD + ['self.have_mailfrom', 'self.have_rcptto', 'self.io.recv_buffer', 'fresh'])

cmd('DATA', props=['C07'],
    requires=S_OK,
    ensures=[PREFIX, TRACE_PREFIX,
             'implies(bool(arg), ' + NOCB + ' and ' + SENT1 + ' and ' + LAST + ' == "501")',
             'implies(not bool(arg) and (not bool(old(self.have_mailfrom)) or not bool(old(self.have_rcptto))), '
             + NOCB + ' and ' + SENT1 + ' and ' + LAST + ' == "503")',
             # in order: DATA callback, then (only after a 354) the message-received callback
             'implies(not bool(arg) and bool(old(self.have_mailfrom)) and bool(old(self.have_rcptto)), '
             '   len(self.trace) >= old(len(self.trace)) + 1 and self.trace[old(len(self.trace))] == "DATA")',
             'implies(len(self.trace) == old(len(self.trace)) + 2, self.trace[old(len(self.trace)) + 1] == "HAVE_DATA" '
             '   and len(self.io.sent) == old(len(self.io.sent)) + 2 and self.io.sent[old(len(self.io.sent))] == "354" '
             '   and self.have_mailfrom is None and self.have_rcptto is None)',
             'implies(len(self.trace) == old(len(self.trace)) + 1, ' + SENT1 + ' and not (' + LAST + ' == "354"))',
             'len(self.trace) <= old(len(self.trace)) + 2', TXN_SAME],
    # the session ends on a 221/421 answer to DATA itself (one reply, DATA callback only) or to the message (354, then
    # the final reply; both callbacks, transaction forgotten)
    raises={'StopIteration': [LAST + ' == "221" or ' + LAST + ' == "421"',
                              '(' + SENT1 + ' and ' + ONECB + '"DATA") or '
                              '(len(self.io.sent) == old(len(self.io.sent)) + 2 and self.io.sent[old(len(self.io.sent))] == "354" '
                              ' and len(self.trace) == old(len(self.trace)) + 2 and self.trace[old(len(self.trace))] == "DATA" '
                              ' and self.trace[old(len(self.trace)) + 1] == "HAVE_DATA" '
                              ' and self.have_mailfrom is None and self.have_rcptto is None)'],
            'ConnectionLost': [], 'Timeout': [], 'OSError': [], 'AssertionError': []},
    modifies=CMD_MOD + ['self.have_mailfrom', 'self.have_rcptto', 'self.io.recv_buffer', 'fresh'])

cmd('custom', params={'command': 'Str', 'arg': 'Opt[Bytes]'}, props=['C07'],
    requires=S_OK,
    ensures=[SENT1, PREFIX, TRACE_PREFIX, 'len(self.trace) == old(len(self.trace)) + 1',
             'self.have_mailfrom == old(self.have_mailfrom) and self.have_rcptto == old(self.have_rcptto)', TXN_SAME],
    raises={'StopIteration': [SENT1]},
    modifies=CMD_MOD + ['fresh'])

# ---------------------------------------------------------------------------- STARTTLS / AUTH (C08)
klass('IO', fields={'socket': 'Any'})
contract('Server._encrypt_session', module=M, props=['C08', 'C14'],
         params={'self': 'Server'}, returns='Bool',
         # the handshake waits for the peer: it runs under its own Timeout(self.command_timeout) scope (G4), and a
         # handshake that does not finish in time is reported like a failed one
         requires=S_OK + ['self.context != None'],
         raises={'OSError': []},
         ensures=['implies(result, self.io.encrypted)', 'len(self.io.sent) == old(len(self.io.sent))',
                  'implies(result, self.io.recv_buffer == b"")',
                  'implies(not result, ' + NOCB + ')', TRACE_PREFIX, 'len(self.trace) <= old(len(self.trace)) + 2',
                  ],
         modifies=['contents(self.trace)', 'self.io.socket', 'self.io.recv_buffer', 'fresh'])
cmd('STARTTLS', props=['C07', 'C08', 'C14'],
    requires=S_OK + ['self.context != None'],
    ensures=[PREFIX, TRACE_PREFIX,
             'implies(not old("STARTTLS" in self.extensions), ' + NOCB + ' and ' + SENT1 + ' and ' + LAST + ' == "500")',
             'implies(old("STARTTLS" in self.extensions) and bool(arg), ' + NOCB + ' and ' + SENT1 + ' and ' + LAST + ' == "501")',
             'implies(old("STARTTLS" in self.extensions) and not bool(arg) and not bool(old(self.ehlo_as)), '
             + NOCB + ' and ' + SENT1 + ' and ' + LAST + ' == "503")',
             # after a successful handshake the server is back in its just-greeted state
             'implies(self.io.encrypted and not old(self.io.encrypted), self.ehlo_as is None '
             '        and self.have_mailfrom is None and self.have_rcptto is None and ncalls("Extensions.drop") == 1 '
             # ... and nothing received in clear text is left to be parsed as a command
             '        and self.io.recv_buffer == b"")',
             'self.bannered == old(self.bannered) and self.authed == old(self.authed)'],
    raises={'StopIteration': [], 'OSError': [], 'Timeout': []},
    modifies=CMD_MOD + EXT_MOD + ['self.have_mailfrom', 'self.have_rcptto', 'self.ehlo_as', 'self.io.socket',
                                  'self.io.recv_buffer', 'fresh'])

AUTHS = 'cast(self.extensions.getparam("AUTH"), AuthSession)'
GROW = 'len(self.io.sent) >= old(len(self.io.sent)) + 1'
cmd('AUTH', props=['C07', 'C08', 'C14'],
    requires=S_OK + ['implies("AUTH" in self.extensions and self.extensions.getparam("AUTH") is not None, '
                     + AUTHS + '.io is self.io and ' + AUTHS + '.auth != None)'],
    ensures=[PREFIX, TRACE_PREFIX, GROW,
             'implies(not old("AUTH" in self.extensions), ' + NOCB + ' and ' + SENT1 + ' and ' + LAST + ' == "500")',
             # AUTH is refused before EHLO, after a successful AUTH and inside a mail transaction
             'implies(old("AUTH" in self.extensions) and (not bool(old(self.ehlo_as)) or old(self.authed) '
             '        or bool(old(self.have_mailfrom))), ' + NOCB + ' and ' + SENT1 + ' and ' + LAST + ' == "503")',
             '(' + NOCB + ') or (' + ONECB + '"AUTH")',
             # authenticated only after the application accepted the credentials
             'self.authed == (old(self.authed) or ((' + ONECB + '"AUTH") and ' + LAST + ' == "235"))',
             # a malformed AUTH exchange ends with an error reply, not with the session
             'implies(' + NOCB + ', is_err_code(' + LAST + '))',
             'self.have_mailfrom == old(self.have_mailfrom) and self.have_rcptto == old(self.have_rcptto) '
             'and self.ehlo_as == old(self.ehlo_as)'],
    raises={'StopIteration': [GROW, ONECB + '"AUTH"'], 'AssertionError': [], 'ConnectionLost': [], 'Timeout': []},
    modifies=CMD_MOD + ['self.authed', 'fresh'])

# ---------------------------------------------------------------------------- main loop (C07, C14)
extern('Server._handle_command#dispatch', params={})
contract('Server._handle_command', kind='extern',
         params={'self': 'Server', 'which': 'Bytes', 'arg': 'Opt[Bytes]'}, yields=True,
         requires=S_OK,
         modifies=CMD_MOD + EXT_MOD + ['self.have_mailfrom', 'self.have_rcptto', 'self.ehlo_as', 'self.bannered',
                                       'self.authed', 'self.io.socket', 'self.io.recv_buffer', 'fresh'],
         ensures=['len(self.io.sent) >= old(len(self.io.sent)) + 1'] + [x for x in S_OK],
         raises={'StopIteration': S_OK, 'ConnectionLost': S_OK, 'UnicodeDecodeError': S_OK, 'OtherException': S_OK,
                 'Timeout': S_OK},
         notes='Server._handle_command (getattr dispatch to _command_*): assumed at the call site in handle(); '
               'each _command_* handler has its own contract')

contract('Server.handle', module=M, props=['C07', 'C14'],
         params={'self': 'Server'},
         requires=S_OK + ['self.context is None or not self.tls_immediately'],
         ensures=[
             # the loop ends normally only through a closing reply (221/421 -> StopIteration), after the CLOSE callback
             'len(self.trace) >= 1 and self.trace[len(self.trace) - 1] == "CLOSE"'],
         raises={
             # a Timeout anywhere in the loop ends the session with the 421 notice; Timeout itself never escapes
             'ConnectionLost': ['implies(nraised("Timeout") > 0, len(self.io.sent) >= 1 and '
                                'self.io.sent[len(self.io.sent) - 1] == "421")'],
             'UnicodeDecodeError': ['len(self.io.sent) >= 1 and self.io.sent[len(self.io.sent) - 1] == "501"'],
             'OtherException': ['len(self.io.sent) >= 1 and self.io.sent[len(self.io.sent) - 1] == "421"']},
         locals={'command': 'Opt[Bytes]', 'arg': 'Opt[Bytes]'},
         modifies=CMD_MOD + EXT_MOD + ['self.have_mailfrom', 'self.have_rcptto', 'self.ehlo_as', 'self.bannered',
                                       'self.authed', 'self.io.socket', 'self.io.recv_buffer', 'fresh'],
         loops={0: dict(inv=S_OK)})
