"""Contracts for slimta/util/proxyproto.py: C18 (bounded incremental reads over a ghost byte stream, error mapping)."""
import z3
from pyvc.registry import klass, extern, contract, predicate, assume_note, global_object
from pyvc import types as T
from pyvc.core import Val, SeqV, Undecided, FnV
from pyvc import exec as E, builtins as B, calls

M = 'slimta/util/proxyproto.py'

# ---------------------------------------------------------------------------- bytearray / memoryview / recv_into (G1)
klass('bytearray', fields={'data': 'Bytes'})
klass('memoryview', fields={'buf': 'bytearray', 'lo': 'Int', 'hi': 'Int'})
klass('Socket', ghost={'stream': 'Bytes', 'fetched': 'Int'})


def _bytearray(st, args):
    """bytearray(n): n zero bytes; bytearray(b): a mutable copy of b."""
    v = args[0]
    ref = st.new_ref('bytearray')
    if v.t.kind == 'int':
        d = st.fresh(z3.StringSort(), 'zeros')
        st.assume(z3.Length(d) == z3.If(v.z >= 0, v.z, 0))
        st.write_field(ref, 'bytearray', 'data', Val(T.BYTES, d))
    elif v.t.kind == 'bytes':
        st.write_field(ref, 'bytearray', 'data', v)
    else:
        raise Undecided('bytearray(%r)' % (v.t,))
    return Val(T.TRef('bytearray'), ref)


def _memoryview(st, args):
    v = args[0]
    if v.t.kind == 'bytes':
        return v        # a read-only view of an immutable bytes object: slicing and len() as on the bytes
    if v.t.kind != 'ref' or v.t.name != 'bytearray':
        raise Undecided('memoryview(%r)' % (v.t,))
    ref = st.new_ref('memoryview')
    st.write_field(ref, 'memoryview', 'buf', v)
    st.write_field(ref, 'memoryview', 'lo', E.mk_int(0))
    st.write_field(ref, 'memoryview', 'hi', E.mk_int(z3.Length(st.read_field(v.z, 'bytearray', 'data').z)))
    return Val(T.TRef('memoryview'), ref)


calls.SPECFUNS['py_bytearray'] = _bytearray
calls.SPECFUNS['py_memoryview'] = _memoryview


def _mv_getitem(st, args, kw):
    raise Undecided('memoryview index')


def _mv_len(st, args, kw):
    v = args[0]
    return E.mk_int(st.read_field(v.z, 'memoryview', 'hi').z - st.read_field(v.z, 'memoryview', 'lo').z)


extern('memoryview.__len__', model=_mv_len)


def _ba_len(st, args, kw):
    return E.mk_int(z3.Length(st.read_field(args[0].z, 'bytearray', 'data').z))


extern('bytearray.__len__', model=_ba_len)


def _mv_tobytes(st, args, kw):
    v = args[0]
    buf = st.read_field(v.z, 'memoryview', 'buf')
    lo = st.read_field(v.z, 'memoryview', 'lo').z
    hi = st.read_field(v.z, 'memoryview', 'hi').z
    d = st.read_field(buf.z, 'bytearray', 'data').z
    return Val(T.BYTES, z3.SubString(d, lo, hi - lo))


extern('memoryview.tobytes', model=_mv_tobytes)


def _recv_into(st, args, kw):
    """sock.recv_into(view, nbytes) -- ASSUMED (G1): copies stream[fetched:fetched+k] into the view for an
    ARBITRARY 0 <= k <= min(nbytes, len(view)), with k == 0 only at the end of the stream (or for a zero-length
    request); returns k.  May also fail with a socket error."""
    sock, view, n = args[0], args[1], args[2]
    buf = st.read_field(view.z, 'memoryview', 'buf')
    lo = st.read_field(view.z, 'memoryview', 'lo').z
    hi = st.read_field(view.z, 'memoryview', 'hi').z
    stream = st.read_field(sock.z, 'Socket', 'stream').z
    fetched = st.read_field(sock.z, 'Socket', 'fetched').z
    if st.choose(2, 'recv_into outcome') == 1:
        E.raise_exc(st, 'OSError')
    k = st.fresh(z3.IntSort(), 'recvd')
    room = z3.If(n.z < hi - lo, n.z, hi - lo)
    st.assume(z3.And(0 <= k, k <= room, fetched + k <= z3.Length(stream)))
    st.assume(z3.Implies(z3.And(room > 0, fetched < z3.Length(stream)), k >= 1))
    d = st.read_field(buf.z, 'bytearray', 'data').z
    piece = z3.SubString(stream, fetched, k)
    nd = z3.Concat(z3.SubString(d, 0, lo), piece, z3.SubString(d, lo + k, z3.Length(d) - lo - k))
    E.check_frame(st, buf.z, 'bytearray', 'data')
    st.write_field(buf.z, 'bytearray', 'data', Val(T.BYTES, nd))
    st.write_field(sock.z, 'Socket', 'fetched', E.mk_int(fetched + k))
    return E.mk_int(k)


extern('Socket.recv_into', model=_recv_into,
       notes='socket.recv_into (G1 ghost byte stream): an arbitrary non-empty prefix of what is still to come, 0 only at EOF')

klass('ProxyProtocolV1', module=M)
klass('ProxyProtocolV2', module=M)
klass('ProxyProtocol', module=M)
klass('LocalConnection', ['Exception'])

predicate('SOCK_ok(sock)', 'sock != None and 0 <= sock.fetched and sock.fetched <= len(sock.stream)')
# what was consumed by this call is exactly what was returned beyond `initial`
CONSUMED = ('result == initial + substr(sock.stream, old(sock.fetched), sock.fetched - old(sock.fetched)) '
            'and sock.fetched >= old(sock.fetched)')

contract('ProxyProtocolV1.__read_pp_line', module=M, props=['C18'],
         params={'cls': 'Cls', 'sock': 'Socket', 'initial': 'Bytes'}, returns='Bytes',
         requires=['SOCK_ok(sock)', 'len(initial) <= 8'],
         ensures=['SOCK_ok(sock)', CONSUMED,
                  # never more than 107 bytes, and nothing is consumed beyond the first CRLF
                  'len(result) <= 107', 'len(result) >= 8',
                  'implies(str_index(result, b"\\r\\n", 0) >= 0, str_index(result, b"\\r\\n", 0) == len(result) - 2) '
                  'or str_index(result, b"\\r\\n", 0) < 7'],
         raises={'AssertionError': ['SOCK_ok(sock)', 'sock.fetched - old(sock.fetched) + len(initial) <= 107',
                                    'sock.fetched >= old(sock.fetched)'], 'OSError': []},
         modifies=['sock.fetched', 'fresh'],
         loops={0: dict(modifies=['sock.fetched', 'fresh'],
                        inv=['SOCK_ok(sock)', 'buf != None and len(buf.data) == 107 and fresh(buf)',
                             'read == initial + substr(sock.stream, old(sock.fetched), sock.fetched - old(sock.fetched))',
                             'sock.fetched >= old(sock.fetched)', 'len(read) <= 8',
                             'substr(buf.data, 0, len(read)) == read']),
                1: dict(modifies=['sock.fetched', 'fresh'],
                        inv=['SOCK_ok(sock)', 'buf != None and len(buf.data) == 107 and fresh(buf)',
                             'read == initial + substr(sock.stream, old(sock.fetched), sock.fetched - old(sock.fetched))',
                             'sock.fetched >= old(sock.fetched)', '8 <= len(read) and len(read) <= 107',
                             'substr(buf.data, 0, len(read)) == read',
                             # no CRLF has been read yet except possibly inside the first 8 bytes
                             'str_index(read, b"\\r\\n", 7) < 0'])})

contract('ProxyProtocolV2.__read_pp_data', module=M, props=['C18'],
         params={'cls': 'Cls', 'sock': 'Socket', 'length': 'Int', 'initial': 'Bytes'}, returns='bytearray',
         requires=['SOCK_ok(sock)', 'length >= 0', 'len(initial) <= length'],
         # exactly `length` bytes in total: len(initial) already read, the rest consumed from the stream, no more
         ensures=['SOCK_ok(sock)', 'result != None', 'len(result.data) == length',
                  'result.data == initial + substr(sock.stream, old(sock.fetched), length - len(initial))',
                  'sock.fetched == old(sock.fetched) + length - len(initial)'],
         raises={'AssertionError': ['SOCK_ok(sock)', 'sock.fetched <= old(sock.fetched) + length - len(initial)'], 'OSError': []},
         modifies=['sock.fetched', 'fresh'],
         loops={0: dict(modifies=['sock.fetched', 'fresh'],
                        inv=['SOCK_ok(sock)', 'buf != None and len(buf.data) == length and fresh(buf)',
                             'read == initial + substr(sock.stream, old(sock.fetched), sock.fetched - old(sock.fetched))',
                             'sock.fetched >= old(sock.fetched)', 'len(read) <= length',
                             'substr(buf.data, 0, len(read)) == read'])})

contract('ProxyProtocol.__read_pp_initial', module=M, props=['C18'],
         params={'cls': 'Cls', 'sock': 'Socket'}, returns='Bytes',
         requires=['SOCK_ok(sock)'],
         ensures=['SOCK_ok(sock)', 'len(result) == 8', 'result == substr(sock.stream, old(sock.fetched), 8)',
                  'sock.fetched == old(sock.fetched) + 8'],
         raises={'AssertionError': ['SOCK_ok(sock)', 'sock.fetched <= old(sock.fetched) + 8'], 'OSError': []},
         modifies=['sock.fetched', 'fresh'],
         loops={0: dict(modifies=['sock.fetched', 'fresh'],
                        inv=['SOCK_ok(sock)', 'buf != None and len(buf.data) == 8 and fresh(buf)',
                             'read == substr(sock.stream, old(sock.fetched), sock.fetched - old(sock.fetched))',
                             'sock.fetched >= old(sock.fetched)', 'len(read) <= 8',
                             'substr(buf.data, 0, len(read)) == read'])})

# ---------------------------------------------------------------------------- parsing (field validation) and error mapping
T.alias('Addr', 'Tuple[Any, Any]')
extern('socket.inet_pton', params={'family': 'Int', 'ip': 'Str'}, returns='Bytes',
       raises={'OSError': [], 'ValueError': []},
       notes='socket.inet_pton: packed address, OSError for a malformed address, ValueError for an embedded NUL')
extern('socket.inet_ntop', params={'family': 'Int', 'packed': 'Bytes'}, returns='Str', raises={'OSError': [], 'ValueError': []})
extern('struct.unpack', params={'fmt': 'Str', 'data': 'Any'}, returns='Any', raises={'StructError': []},
       notes='struct.unpack: raises struct.error when the data length does not match the format')

contract('ProxyProtocolV1.__get_pp_family', module=M, props=['C18'],
         params={'cls': 'Cls', 'family_string': 'Bytes'}, returns='Int',
         ensures=['(family_string == b"TCP4" and result == 2) or (family_string == b"TCP6" and result == 10)'],
         raises={'AssertionError': ['family_string != b"TCP4" and family_string != b"TCP6"']}, modifies=['fresh'])

contract('ProxyProtocolV1.__get_pp_ip', module=M, props=['C18'],
         params={'cls': 'Cls', 'addr_family': 'Int', 'ip_string': 'Bytes', 'which': 'Str'}, returns='Str',
         # every malformed address ends as AssertionError (-> the "invalid" source address): nothing else escapes
         raises={'AssertionError': []}, modifies=['fresh'])

contract('ProxyProtocolV1.__get_pp_port', module=M, props=['C18'],
         params={'cls': 'Cls', 'port_string': 'Bytes', 'which': 'Str'}, returns='Int',
         # a port is a run of ASCII decimal digits (int() alone also takes '8_0', '+25', ' 25')
         ensures=['0 <= result and result <= 65535', 'py_int_ok(port_string) and result == py_int_val(port_string)',
                  'py_isdigit(port_string)'],
         raises={'AssertionError': ['not py_isdigit(port_string) or not py_int_ok(port_string) or py_int_val(port_string) < 0 '
                                    'or py_int_val(port_string) > 65535']},
         modifies=['fresh'])

extern('ProxyProtocolV1.parse_pp_line', params={'cls': 'Cls', 'line': 'Bytes'}, returns='Tuple[Addr, Addr]',
       raises={'AssertionError': []},
       notes='parse_pp_line (line.split based field extraction): abstracted at its call site; its helpers '
             '__get_pp_family/__get_pp_ip/__get_pp_port are under contract')
extern('ProxyProtocolV2.__parse_pp_data', params={'cls': 'Cls', 'data': 'bytearray'},
       returns='Tuple[Opt[Str], Opt[Int], Opt[Int], Int]', raises={'AssertionError': [], 'StructError': []},
       ensures=['result[3] >= 0 and result[3] <= 65535'],
       notes='__parse_pp_data (bit layout of the 16 byte v2 header): abstracted; addr_len is an unsigned 16 bit value')
extern('ProxyProtocolV2.__parse_pp_addresses', params={'cls': 'Cls', 'family': 'Opt[Int]', 'addr_data': 'bytearray'},
       returns='Tuple[Any, Any]', raises={'StructError': []},
       notes='__parse_pp_addresses: struct.unpack raises struct.error when the address block is shorter than the family '
             'needs; inet_ntop is given exactly 4 / 16 bytes by the unpack format and cannot fail')

contract('ProxyProtocolV1.process_pp_v1', module=M, props=['C18'],
         params={'cls': 'Cls', 'sock': 'Socket', 'initial': 'Bytes'}, returns='Tuple[Addr, Addr]',
         requires=['SOCK_ok(sock)', 'len(initial) <= 8'],
         ensures=['SOCK_ok(sock)', 'sock.fetched - old(sock.fetched) + len(initial) <= 107'],
         raises={'AssertionError': ['SOCK_ok(sock)', 'sock.fetched - old(sock.fetched) + len(initial) <= 107'], 'OSError': []},
         modifies=['sock.fetched', 'fresh'])

contract('ProxyProtocolV2.process_pp_v2', module=M, props=['C18'],
         params={'cls': 'Cls', 'sock': 'Socket', 'initial': 'Bytes'}, returns='Tuple[Any, Any]',
         requires=['SOCK_ok(sock)', 'len(initial) <= 16'],
         # 16 header bytes plus exactly the declared length, no more; every parse failure is an AssertionError
         ensures=['SOCK_ok(sock)'],
         checks=['sock.fetched - old(sock.fetched) + len(initial) == 16 + call_result("ProxyProtocolV2.__parse_pp_data", 0)[3]'],
         raises={'AssertionError': ['SOCK_ok(sock)'], 'LocalConnection': ['SOCK_ok(sock)'], 'OSError': []},
         modifies=['sock.fetched', 'fresh'])

klass('EdgeHandler')
extern('ProxyProtocolV1.handle#super', params={})
for _c in ('ProxyProtocolV1', 'ProxyProtocolV2', 'ProxyProtocol'):
    klass(_c, ['EdgeHandler'])
extern('EdgeHandler.handle', params={'self': 'EdgeHandler', 'sock': 'Socket', 'addr': 'Any'}, yields=True,
       notes='the wrapped EdgeServer.handle(sock, address)')

for _c, _init in (('ProxyProtocolV1', None), ('ProxyProtocolV2', None), ('ProxyProtocol', None)):
    contract(_c + '.handle', module=M, props=['C18'],
             params={'self': _c, 'sock': 'Socket', 'addr': 'Any'},
             requires=['SOCK_ok(sock)'],
             # whatever the header looks like: the edge handler is called (or the LOCAL connection dropped);
             # nothing but socket errors escapes
             ensures=['ncalls("EdgeHandler.handle") <= 1'],
             raises={'OSError': []},
             modifies=['sock.fetched', 'fresh'])


# ---------------------------------------------------------------------------- parse_pp_line body (C18)
# The call sites keep the assumed view above; here the real body is checked: whatever the line holds, the only
# exception that can leave it is AssertionError (never IndexError from a short field list), the address family and
# the two ports come from the validators, and an UNKNOWN header yields the unknown addresses.
def _bytes_split(st, recv, args, kw):
    """b.split(sep): a new list of at least one piece (the pieces themselves are opaque here)"""
    ref = st.new_ref('list')
    s = B.seq_fresh(st, z3.StringSort(), 'split')
    st.assume(s.n >= 1)
    st.list_store(ref, T.BYTES, s)
    return Val(T.TList(T.BYTES), ref)


calls.METHOD_MODELS[('bytes', 'split')] = _bytes_split
contract('ProxyProtocolV1.parse_pp_line#body', qual='ProxyProtocolV1.parse_pp_line', module=M, props=['C18'],
         params={'cls': 'Cls', 'line': 'Bytes'}, returns='Tuple[Addr, Addr]',
         raises={'AssertionError': []},
         checks=['ncalls("ProxyProtocolV1.__get_pp_port") == 0 or ncalls("ProxyProtocolV1.__get_pp_port") == 2',
                 # ports are validated only after the family was accepted and exactly five fields were found
                 'implies(ncalls("ProxyProtocolV1.__get_pp_port") == 2, ncalls("ProxyProtocolV1.__get_pp_family") == 1 '
                 '        and ncalls("ProxyProtocolV1.__get_pp_ip") == 2)'],
         modifies=['fresh'], locals={'parts': 'List[Bytes]'})


_ISDIGIT = z3.Function('py_isdigit', z3.StringSort(), z3.BoolSort())
calls.SPECFUNS['py_isdigit'] = lambda st, args: Val(T.BOOL, _ISDIGIT(args[0].z))
calls.METHOD_MODELS[('bytes', 'isdigit')] = lambda st, recv, args, kw: Val(T.BOOL, _ISDIGIT(recv.z))
calls.METHOD_MODELS[('str', 'isdigit')] = lambda st, recv, args, kw: Val(T.BOOL, _ISDIGIT(recv.z))

from pyvc.registry import bounded
bounded(['C18'], 'bounded/pp_roundtrip.py',
        'the three real handle() methods end to end over a short-reading socket: every generated well-formed v1/v2 '
        'header (TCP4/TCP6/UNKNOWN; PROXY/LOCAL x INET/INET6/UNIX/UNSPEC, 0..9 TLV bytes, boundary addresses and ports) '
        'yields exactly the encoded source address, consumes exactly the header and leaves the payload; all '
        'single-byte corruptions and truncations of a sample: no exception escapes, read bound kept, surely '
        'malformed headers get the invalid address (the part of C18 that split() and the v2 bit layout put out of '
        'the contracts\' reach)')
