"""Contracts for slimta/redisstorage/__init__.py: the redis backend (C15, C03).

RedisStorage keeps one redis hash per message under the key prefix+id with the fields envelope (pickle), timestamp,
attempts, delivered_indexes (pickle of a list), and pushes (timestamp, id) pickles on the list <prefix>queue for
wait().  The redis client is ASSUMED to behave as redis-py's StrictRedis with its default decode_responses=False
(which is how RedisStorage.__init__ builds it): values and KEY NAMES come back as bytes, a missing hash field as
None, HSETNX answers whether it created the field, HINCRBY creates the field at 0, KEYS lists every existing key
matching the pattern whatever its type (an empty list is no key), a hash command on the list key fails (WRONGTYPE).
pickle is a pair of inverse functions (pk_* give the content of a pickle).

Ghost model on the client object (`Redis` ghost fields), indexed by the full key string: which fields a hash has
(`henv`, `hts`, `hatt`, `hd`) and their values; `qkey`/`qn`: name and length of the notification list.

The reference store of C15 is the abstraction: message k exists iff its hash has the envelope field; its attempt
count is the attempts field or 0; its recipients are those of the pickled envelope.  Operations on a message that
does not exist are outside the contracts (redis creates a partial hash where the reference store raises KeyError;
the queue only operates on ids it holds)."""
import z3
from pyvc.registry import klass, extern, contract, predicate, assume_note, global_object
from pyvc import types as T
from pyvc.core import Val
from pyvc import builtins as B, calls

M = 'slimta/redisstorage/__init__.py'
S, I = z3.StringSort(), z3.IntSort()
_PK_ENV_N = z3.Function('pk_env_n', S, I)
_PK_ENV_R = z3.Function('pk_env_r', S, z3.ArraySort(I, S))
_PK_INTS_N = z3.Function('pk_ints_n', S, I)
_PK_INTS = z3.Function('pk_ints', S, z3.ArraySort(I, I))
_PK_KIND = z3.Function('pk_kind', S, I)          # 1 envelope, 2 list of ints, 3 (timestamp, id)
_PK_TS = z3.Function('pk_ts', S, z3.RealSort())
_PK_ID = z3.Function('pk_id', S, S)
_RNUM = z3.Function('redis_real', S, z3.RealSort())
_DECODABLE = z3.Function('py_decodable', S, z3.BoolSort())
calls.SPECFUNS['pk_env_n'] = lambda st, a: Val(T.INT, _PK_ENV_N(a[0].z))
calls.SPECFUNS['pk_env_r'] = lambda st, a: Val(T.parse_type('ArrV[Str]'), _PK_ENV_R(a[0].z))
calls.SPECFUNS['pk_ints_n'] = lambda st, a: Val(T.INT, _PK_INTS_N(a[0].z))
calls.SPECFUNS['pk_ints'] = lambda st, a: Val(T.parse_type('ArrV[Int]'), _PK_INTS(a[0].z))
calls.SPECFUNS['pk_kind'] = lambda st, a: Val(T.INT, _PK_KIND(a[0].z))
calls.SPECFUNS['pk_ts'] = lambda st, a: Val(T.REAL, _PK_TS(a[0].z))
calls.SPECFUNS['pk_id'] = lambda st, a: Val(T.STR, _PK_ID(a[0].z))
calls.SPECFUNS['redis_real'] = lambda st, a: Val(T.REAL, _RNUM(a[0].z))
_FLOAT_OK = z3.Function('py_float_ok', S, z3.BoolSort())
calls.SPECFUNS['float_ok'] = lambda st, a: Val(T.BOOL, _FLOAT_OK(a[0].z))
calls.SPECFUNS['decodable'] = lambda st, a: Val(T.BOOL, _DECODABLE(a[0].z))
B._MODULE_ATTRS[('pickle', 'HIGHEST_PROTOCOL')] = ('int', 5)

T.alias('RKey', 'Union[Str, Bytes]')
T.alias('Unpickled', 'Union[Envelope, List[Int]]')

klass('Redis',
      ghost={'henv': 'SetV[Str]', 'envraw': 'MapV[Str, Bytes]', 'hts': 'SetV[Str]', 'ts': 'MapV[Str, Real]',
             'hatt': 'SetV[Str]', 'att': 'MapV[Str, Int]', 'hd': 'SetV[Str]', 'draw': 'MapV[Str, Bytes]',
             'qkey': 'Str', 'qn': 'Int',
             # position of each listed key name in the list the last KEYS call returned
             'kidx': 'MapV[Str, Int]', 'kpfx': 'Str'})
klass('RedisPipe', fields={'r': 'Redis'})
klass('RedisStorage', ['QueueStorage'], module=M, fields={'redis': 'Redis', 'prefix': 'Str', 'queue_key': 'Str'},
      ghost={'lm': 'MapV[Str, ArrV[Int]]', 'lm_n': 'MapV[Str, Int]', 'lmi': 'MapV[Str, ArrV[Int]]'})

F = ['henv', 'envraw', 'hts', 'ts', 'hatt', 'att', 'hd', 'draw']
ALLF = ['self.' + f for f in F]
UNCHANGED = ['self.%s == old(self.%s)' % (f, f) for f in F] + ['self.qn == old(self.qn)']
# the str name of a key given as str or bytes
predicate('RK(key)', 'ite(is_type(key, Str), cast(key, Str), cast(key, Bytes).decode("ascii"))')
predicate('R_EXISTS(o, k)', 'k in o.henv or k in o.hts or k in o.hatt or k in o.hd or (k == o.qkey and o.qn > 0)')


def _others(var, fields=F, obj='self'):
    parts = []
    for f in fields:
        if f in ('henv', 'hts', 'hatt', 'hd'):
            parts.append('(k in %s.%s) == old(k in %s.%s)' % (obj, f, obj, f))
        else:
            parts.append('%s.%s[k] == old(%s.%s[k])' % (obj, f, obj, f))
    return 'forall(Str, lambda k: implies(k != %s, %s))' % (var, ' and '.join(parts))


def _r(clause):
    return clause.replace('self.', 'self.redis.')


# ---------------------------------------------------------------------------- pickle
def _pickle_dumps(st, args, kw):
    """pickle.dumps(obj, protocol): a non-empty byte string whose content (pk_*) is that of obj -- dispatched on the
    static type of the argument: an Envelope, a list of ints, anything else (the (timestamp, id) notification)."""
    from pyvc import exec as E
    obj = args[0]
    if obj.t.kind == 'union':
        obj = E.concretize(st, obj)
    r = st.fresh_val(T.BYTES, 'pickle')
    st.assume(z3.Length(r.z) > 0)
    k = z3.Int('k!pk%d' % st.nfresh)
    st.nfresh += 1
    if obj.t.kind == 'ref' and obj.t.name == 'Envelope':
        rc = st.read_field(obj.z, 'Envelope', 'recipients')
        seq, et = B.seq_of(st, rc)
        st.assume(_PK_KIND(r.z) == 1)
        st.assume(_PK_ENV_N(r.z) == seq.n)
        st.assume(z3.ForAll([k], z3.Implies(z3.And(0 <= k, k < seq.n), z3.Select(_PK_ENV_R(r.z), k) == z3.Select(seq.arr, k)),
                            patterns=[z3.Select(_PK_ENV_R(r.z), k)]))
    elif obj.t.kind == 'list' and obj.t.args[0].kind == 'int':
        seq, et = B.seq_of(st, obj)
        st.assume(_PK_KIND(r.z) == 2)
        st.assume(_PK_INTS_N(r.z) == seq.n)
        st.assume(z3.ForAll([k], z3.Implies(z3.And(0 <= k, k < seq.n), z3.Select(_PK_INTS(r.z), k) == z3.Select(seq.arr, k)),
                            patterns=[z3.Select(_PK_INTS(r.z), k)]))
    else:
        st.assume(_PK_KIND(r.z) == 3)
    return r


extern('pickle.dumps', model=_pickle_dumps,
       notes='pickle.dumps: a non-empty byte string whose content (pk_*) is that of the object; pickle.loads is its inverse')
extern('pickle.loads', params={'data': 'Bytes'}, returns='Unpickled',
       requires=['pk_kind(data) == 1 or pk_kind(data) == 2'],
       ensures=['implies(pk_kind(data) == 1, is_type(result, Envelope) and cast(result, Envelope) != None and fresh(cast(result, Envelope)) '
                '   and cast(result, Envelope).recipients != None and fresh(cast(result, Envelope).recipients) '
                '   and is_list(cast(result, Envelope).recipients) and len(cast(result, Envelope).recipients) == pk_env_n(data) '
                '   and forall(range(0, pk_env_n(data)), lambda j: cast(result, Envelope).recipients[j] == pk_env_r(data)[j]))',
                'implies(pk_kind(data) == 2, is_type(result, List[Int]) and cast(result, List[Int]) != None and fresh(cast(result, List[Int])) '
                '   and is_list(cast(result, List[Int])) and len(cast(result, List[Int])) == pk_ints_n(data) '
                '   and forall(range(0, pk_ints_n(data)), lambda j: cast(result, List[Int])[j] == pk_ints(data)[j]))'],
       notes='pickle.loads of a pickle written by this module (anything else in the database is outside the model)')

# ---------------------------------------------------------------------------- redis client (assumed)
extern('Redis.hsetnx', params={'self': 'Redis', 'key': 'RKey', 'field': 'Str', 'value': 'Bytes'}, returns='Bool', yields=True,
       requires=['field == "envelope"'], modifies=['self.henv', 'self.envraw'],
       ensures=['result == (not old(RK(key) in self.henv))',
                'self.henv == store(old(self.henv), RK(key), True)',
                'self.envraw == ite(result, store(old(self.envraw), RK(key), value), old(self.envraw))'],
       notes='HSETNX key envelope v: creates the field iff it does not exist and says so')
extern('Redis.pipeline', params={'self': 'Redis'}, returns='RedisPipe',
       ensures=['result != None', 'fresh(result)', 'result.r is self'],
       notes='pipeline(): MULTI/EXEC transaction; the queued commands are modelled as taking effect when queued (no '
             'other client observes the difference: EXEC applies them atomically, and write() issues EXEC before returning)')
extern('RedisPipe.hmset', params={'self': 'RedisPipe', 'key': 'RKey', 'mapping': 'Dict[Str, Union[Int, Real]]'},
       requires=['dict_has(mapping, "timestamp") and dict_has(mapping, "attempts") and len(mapping) == 2',
                 'is_type(dict_get(mapping, "timestamp"), Real) and is_type(dict_get(mapping, "attempts"), Int)'],
       modifies=['self.r.hts', 'self.r.ts', 'self.r.hatt', 'self.r.att'],
       ensures=['self.r.hts == store(old(self.r.hts), RK(key), True)',
                'self.r.ts == store(old(self.r.ts), RK(key), cast(dict_get(mapping, "timestamp"), Real))',
                'self.r.hatt == store(old(self.r.hatt), RK(key), True)',
                'self.r.att == store(old(self.r.att), RK(key), cast(dict_get(mapping, "attempts"), Int))'],
       notes='HMSET key timestamp t attempts n')
extern('RedisPipe.rpush', params={'self': 'RedisPipe', 'key': 'RKey', 'value': 'Bytes'},
       requires=['RK(key) == self.r.qkey'], modifies=['self.r.qn'], ensures=['self.r.qn == old(self.r.qn) + 1'],
       notes='RPUSH on the notification list')
extern('RedisPipe.execute', params={'self': 'RedisPipe'}, yields=True, notes='EXEC')
extern('Redis.hset', params={'self': 'Redis', 'key': 'RKey', 'field': 'Str', 'value': 'Union[Real, Bytes]'}, yields=True,
       requires=['(field == "timestamp" and is_type(value, Real)) or (field == "delivered_indexes" and is_type(value, Bytes))'],
       modifies=['self.hts', 'self.ts', 'self.hd', 'self.draw'],
       ensures=['implies(field == "timestamp", self.hts == store(old(self.hts), RK(key), True) '
                '   and self.ts == store(old(self.ts), RK(key), cast(value, Real)) and self.hd == old(self.hd) and self.draw == old(self.draw))',
                'implies(field == "delivered_indexes", self.hd == store(old(self.hd), RK(key), True) '
                '   and self.draw == store(old(self.draw), RK(key), cast(value, Bytes)) and self.hts == old(self.hts) and self.ts == old(self.ts))'],
       notes='HSET key field value (creates the hash when the key does not exist)')
extern('Redis.hincrby', params={'self': 'Redis', 'key': 'RKey', 'field': 'Str', 'amount': 'Int'}, returns='Int', yields=True,
       requires=['field == "attempts"'], modifies=['self.hatt', 'self.att'],
       ensures=['result == ite(old(RK(key) in self.hatt), old(self.att[RK(key)]), 0) + amount',
                'self.hatt == store(old(self.hatt), RK(key), True)', 'self.att == store(old(self.att), RK(key), result)'],
       notes='HINCRBY key attempts n: a missing field counts as 0; returns the new value')
extern('Redis.hget', params={'self': 'Redis', 'key': 'RKey', 'field': 'Str'}, returns='Opt[Bytes]', yields=True,
       requires=['field == "timestamp" or field == "delivered_indexes"'],
       ensures=['not (RK(key) == self.qkey and self.qn > 0)',
                'implies(field == "timestamp", (result is not None) == (RK(key) in self.hts))',
                'implies(field == "timestamp" and RK(key) in self.hts, len(cast(result, Bytes)) > 0 and float_ok(cast(result, Bytes)) '
                '   and redis_real(cast(result, Bytes)) == self.ts[RK(key)])',
                'implies(field == "delivered_indexes", (result is not None) == (RK(key) in self.hd))',
                'implies(field == "delivered_indexes" and RK(key) in self.hd, cast(result, Bytes) == self.draw[RK(key)])'],
       raises={'ResponseError': ['RK(key) == self.qkey and self.qn > 0']},
       notes='HGET key field: None for a missing field or key, the value as bytes otherwise (a float as its repr, read '
             'back by float()); WRONGTYPE error when the key holds the notification list')
extern('Redis.hmget', params={'self': 'Redis', 'key': 'RKey', 'f1': 'Str', 'f2': 'Str', 'f3': 'Str'},
       returns='Tuple[Opt[Bytes], Opt[Bytes], Opt[Bytes]]', yields=True,
       requires=['f1 == "envelope" and f2 == "attempts" and f3 == "delivered_indexes"'],
       ensures=['(result[0] is not None) == (RK(key) in self.henv)',
                'implies(RK(key) in self.henv, cast(result[0], Bytes) == self.envraw[RK(key)])',
                '(result[1] is not None) == (RK(key) in self.hatt)',
                'implies(RK(key) in self.hatt, len(cast(result[1], Bytes)) > 0 and py_int_ok(cast(result[1], Bytes)) '
                '   and py_int_val(cast(result[1], Bytes)) == self.att[RK(key)])',
                '(result[2] is not None) == (RK(key) in self.hd)',
                'implies(RK(key) in self.hd, cast(result[2], Bytes) == self.draw[RK(key)])'],
       notes='HMGET key envelope attempts delivered_indexes: a list of three values (modelled as a 3-tuple: it is '
             'unpacked at once), None for a missing field')
extern('Redis.keys', params={'self': 'Redis', 'pattern': 'Str'}, returns='List[Bytes]', yields=True,
       modifies=['self.kidx', 'self.kpfx'],
       requires=['len(pattern) >= 1 and substr(pattern, len(pattern) - 1, 1) == "*"'],
       ensures=['result != None', 'fresh(result)', 'is_list(result)',
                # kpfx: the pattern without its final star
                'self.kpfx + "*" == pattern',
                'forall(result, lambda b: decodable(b) and str_prefix(b.decode("ascii"), self.kpfx) and R_EXISTS(self, b.decode("ascii")))',
                'forall(Str, lambda k: implies(str_prefix(k, self.kpfx) and R_EXISTS(self, k), '
                '       0 <= self.kidx[k] and self.kidx[k] < len(result) and result[self.kidx[k]].decode("ascii") == k))',
                'distinct_by(result, lambda b: b.decode("ascii"))'],
       notes='KEYS prefix*: the names, AS BYTES, of all existing keys with that prefix -- hashes with at least one field '
             'and the notification list while it is not empty (the prefix is assumed free of glob characters)')
extern('Redis.delete', params={'self': 'Redis', 'key': 'RKey'}, yields=True,
       modifies=['self.henv', 'self.hts', 'self.hatt', 'self.hd'],
       ensures=['self.henv == store(old(self.henv), RK(key), False)', 'self.hts == store(old(self.hts), RK(key), False)',
                'self.hatt == store(old(self.hatt), RK(key), False)', 'self.hd == store(old(self.hd), RK(key), False)'],
       requires=['RK(key) != self.qkey'],
       notes='DEL key: the hash and all its fields are gone')

# ---------------------------------------------------------------------------- RedisStorage
# the storage object and its client agree on the key names; an id never collides with the list key
predicate('RS_ok(s)', 's.redis != None and s.redis.qkey == s.queue_key and s.queue_key == s.prefix + "queue"')
predicate('RS_KEY(s, id)', 's.prefix + id')
predicate('RS_ATT(o, k)', 'ite(k in o.hatt, o.att[k], 0)')
predicate('RS_N(o, k)', 'pk_env_n(o.envraw[k])')
predicate('RS_DN(o, k)', 'pk_ints_n(o.draw[k])')
predicate('RS_DELIV(o, k, p)', 'k in o.hd and exists(range(0, pk_ints_n(o.draw[k])), lambda j: pk_ints(o.draw[k])[j] == p)')
predicate('RS_NOMARKS(o, k)', 'not (k in o.hd) or pk_ints_n(o.draw[k]) == 0')
predicate('RS_wf(o, k)',
          'implies(k in o.henv, pk_kind(o.envraw[k]) == 1 and pk_env_n(o.envraw[k]) >= 0) and '
          'implies(k in o.hd, pk_kind(o.draw[k]) == 2 and pk_ints_n(o.draw[k]) >= 0 '
          '   and forall(range(0, pk_ints_n(o.draw[k])), lambda j: 0 <= pk_ints(o.draw[k])[j] and pk_ints(o.draw[k])[j] < pk_env_n(o.envraw[k])) '
          '   and forall(pairs(pk_ints_n(o.draw[k])), lambda a, b: pk_ints(o.draw[k])[a] != pk_ints(o.draw[k])[b]))')

RS = dict(module=M)
RF = [_r(f) for f in ALLF]

contract('RedisStorage._get_key', props=['C15'], params={'self': 'RedisStorage', 'id': 'RKey'}, returns='Str',
         ensures=['result == self.prefix + RK(id)'],
         raises={'UnicodeDecodeError': ['is_type(id, Bytes) and not decodable(cast(id, Bytes))']},
         modifies=[], **RS)

contract('RedisStorage.write', props=['C15'], yields=True,
         params={'self': 'RedisStorage', 'envelope': 'Envelope', 'timestamp': 'Real'}, returns='Str',
         requires=['RS_ok(self)', 'envelope != None', 'envelope.recipients != None'],
         ensures=[
             # a distinct id: its hash did not exist; the message is complete when the id is returned
             'not old(RS_KEY(self, result) in self.redis.henv)', 'RS_KEY(self, result) in self.redis.henv',
             'RS_KEY(self, result) != self.queue_key',
             'RS_ATT(self.redis, RS_KEY(self, result)) == 0',
             'RS_KEY(self, result) in self.redis.hts and self.redis.ts[RS_KEY(self, result)] == timestamp',
             'RS_N(self.redis, RS_KEY(self, result)) == len(envelope.recipients)',
             'forall(range(0, len(envelope.recipients)), lambda j: pk_env_r(self.redis.envraw[RS_KEY(self, result)])[j] == envelope.recipients[j])',
             'pk_kind(self.redis.envraw[RS_KEY(self, result)]) == 1',
             'implies(not old(RS_KEY(self, result) in self.redis.hd), not (RS_KEY(self, result) in self.redis.hd))',
             # nothing of another message is touched
             _others('RS_KEY(self, result)', obj='self.redis')],
         modifies=RF + ['self.redis.qn', 'fresh'],
         loops={0: dict(modifies=['self.redis.henv', 'self.redis.envraw', 'fresh'],
                        inv=['RS_ok(self)', 'len(envelope_raw) > 0', 'pk_kind(envelope_raw) == 1',
                             'pk_env_n(envelope_raw) == len(envelope.recipients)',
                             'forall(range(0, len(envelope.recipients)), lambda j: pk_env_r(envelope_raw)[j] == envelope.recipients[j])',
                             # a colliding id changes nothing: HSETNX leaves an existing field alone
                             'self.redis.henv == old(self.redis.henv)', 'self.redis.envraw == old(self.redis.envraw)'])},
         **RS)

_COMMON = ['RS_KEY(self, id) in self.redis.henv', 'self.redis.henv == old(self.redis.henv)', 'self.redis.envraw == old(self.redis.envraw)']
contract('RedisStorage.set_timestamp', props=['C15'], yields=True,
         params={'self': 'RedisStorage', 'id': 'Str', 'timestamp': 'Real'},
         requires=['RS_ok(self)', 'RS_KEY(self, id) in self.redis.henv'],
         ensures=_COMMON + ['RS_KEY(self, id) in self.redis.hts and self.redis.ts[RS_KEY(self, id)] == timestamp',
                            'RS_ATT(self.redis, RS_KEY(self, id)) == old(RS_ATT(self.redis, RS_KEY(self, id)))',
                            'self.redis.hd == old(self.redis.hd)', 'self.redis.draw == old(self.redis.draw)',
                            _others('RS_KEY(self, id)', obj='self.redis')],
         modifies=RF + ['fresh'], **RS)

contract('RedisStorage.increment_attempts', props=['C15'], yields=True,
         params={'self': 'RedisStorage', 'id': 'Str'}, returns='Int',
         requires=['RS_ok(self)', 'RS_KEY(self, id) in self.redis.henv'],
         ensures=_COMMON + ['result == old(RS_ATT(self.redis, RS_KEY(self, id))) + 1',
                            'RS_ATT(self.redis, RS_KEY(self, id)) == result',
                            'self.redis.hts == old(self.redis.hts)', 'self.redis.ts == old(self.redis.ts)',
                            'self.redis.hd == old(self.redis.hd)', 'self.redis.draw == old(self.redis.draw)',
                            _others('RS_KEY(self, id)', obj='self.redis')],
         modifies=RF + ['fresh'], **RS)

contract('RedisStorage.set_recipients_delivered', props=['C15', 'C03'], yields=True,
         params={'self': 'RedisStorage', 'id': 'Str', 'rcpt_indexes': 'Union[Set[Int], List[Int]]'},
         requires=['RS_ok(self)', 'RS_KEY(self, id) in self.redis.henv', 'RS_KEY(self, id) != self.queue_key',
                   'not (rcpt_indexes is None)',
                   'RS_wf(self.redis, RS_KEY(self, id))',
                   # single marking round per message (C15); later rounds: the arithmetic of the open disk finding
                   'RS_NOMARKS(self.redis, RS_KEY(self, id))',
                   'forall(Int, lambda p: implies(IN_IDX(p, rcpt_indexes), 0 <= p and p < RS_N(self.redis, RS_KEY(self, id))))',
                   'implies(is_type(rcpt_indexes, List[Int]), distinct_by(cast(rcpt_indexes, List[Int]), lambda p: p))'],
         # lemma step: prepending the (empty) list of earlier marks changes nothing
         ghost_after={'new_indexes = list(rcpt_indexes)': ['_gni = seq(new_indexes)'],
                      'new_indexes = list(pickle.loads(current)) + new_indexes': [
                          'lemma("len(new_indexes) == len(_gni) and forall(range(0, len(_gni)), lambda j: new_indexes[j] == _gni[j])")'],
                      # lemma step: what is stored is the list built from the given positions
                      "self.redis.hset(self._get_key(id), 'delivered_indexes', pickle.dumps(new_indexes, pickle.HIGHEST_PROTOCOL))": [
                          'lemma("pk_ints_n(self.redis.draw[RS_KEY(self, id)]) == len(_gni) and forall(range(0, len(_gni)), '
                          'lambda j: pk_ints(self.redis.draw[RS_KEY(self, id)])[j] == _gni[j])")']},
         ensures=_COMMON + ['RS_KEY(self, id) in self.redis.hd',
                            # exactly the given positions are marked (one clause per direction)
                            'forall(range(0, RS_N(self.redis, RS_KEY(self, id))), lambda q: '
                            '       implies(RS_DELIV(self.redis, RS_KEY(self, id), q), IN_IDX(q, rcpt_indexes)))',
                            'forall(range(0, RS_N(self.redis, RS_KEY(self, id))), lambda q: '
                            '       implies(IN_IDX(q, rcpt_indexes), RS_DELIV(self.redis, RS_KEY(self, id), q)))',
                            'RS_wf(self.redis, RS_KEY(self, id))',
                            'self.redis.hts == old(self.redis.hts)', 'self.redis.ts == old(self.redis.ts)',
                            'self.redis.hatt == old(self.redis.hatt)', 'self.redis.att == old(self.redis.att)',
                            _others('RS_KEY(self, id)', obj='self.redis')],
         modifies=RF + ['fresh'], **RS)

contract('RedisStorage.load', props=['C15'], yields=True,
         params={'self': 'RedisStorage'}, returns='List[Tuple[Real, RKey]]',
         requires=['RS_ok(self)', 'not (self.queue_key in self.redis.henv)',      # ids are 32 hex digits, never "queue"
                   # every hash under the prefix is a message (has its envelope): operations on absent ids are excluded above
                   'forall(Str, lambda k: implies(k in self.redis.hts or k in self.redis.hatt or k in self.redis.hd, k in self.redis.henv))'],
         ensures=[
             # exactly the live messages, under the ids write() returned (str), with their latest timestamps
             'forall(Str, lambda x: implies(RS_KEY(self, x) in self.redis.henv and RS_KEY(self, x) in self.redis.hts, '
             '       exists(result, lambda e: e[1] == x and e[0] == self.redis.ts[RS_KEY(self, x)])))',
             'forall(Str, lambda x: implies(RS_KEY(self, x) in self.redis.henv, exists(result, lambda e: e[1] == x)))',
             'forall(result, lambda e: is_type(e[1], Str) and RS_KEY(self, cast(e[1], Str)) in self.redis.henv '
             '       and implies(RS_KEY(self, cast(e[1], Str)) in self.redis.hts, e[0] == self.redis.ts[RS_KEY(self, cast(e[1], Str))]))'],
         modifies=['self.redis.kidx', 'self.redis.kpfx', 'fresh'],
         ghost_entry=['_gp = arr_zero()'],
         ghost_after={'yield (float(timestamp), id)': ['_gp = store(_gp, _k, len(_yielded) - 1)'],
                      # lemma step: the id is the key name without the prefix
                      'id = key[len(self.prefix):]': ['abstract(id, "self.prefix + id == key")']},
         loops={0: dict(modifies=['fresh'],
                        inv=['RS_ok(self)', 'self.redis.kpfx == self.prefix',
                             # _gp[j]: where the entry of the j-th listed key stands among the entries yielded so far
                             'forall(range(0, _k), lambda j: implies(_seq0[j].decode("ascii") != self.queue_key, '
                             '       0 <= _gp[j] and _gp[j] < len(_yielded) and is_type(_yielded[_gp[j]][1], Str) '
                             '       and self.prefix + cast(_yielded[_gp[j]][1], Str) == _seq0[j].decode("ascii")))',
                             'forall(_yielded, lambda e: is_type(e[1], Str) and RS_KEY(self, cast(e[1], Str)) in self.redis.henv '
                             '       and implies(RS_KEY(self, cast(e[1], Str)) in self.redis.hts, e[0] == self.redis.ts[RS_KEY(self, cast(e[1], Str))]))'])},
         notes='generator modelled as the list of entries it yields', **RS)

contract('RedisStorage.get', props=['C15', 'C03'], yields=True,
         params={'self': 'RedisStorage', 'id': 'Str'}, returns='Tuple[Envelope, Int]',
         requires=['RS_ok(self)', 'RS_wf(self.redis, RS_KEY(self, id))',
                   'forall(Str, lambda k: implies(k in self.redis.henv, len(self.redis.envraw[k]) > 0))',
                   'forall(Str, lambda k: implies(k in self.redis.hd, len(self.redis.draw[k]) > 0))'],
         ghost_after={'self._remove_delivered_rcpts(envelope, delivered_indexes)': [
             'self.lm = store(self.lm, id, self.rd_map)', 'self.lm_n = store(self.lm_n, id, len(envelope.recipients))',
             'self.lmi = store(self.lmi, id, self.rd_inv)']},
         ghost_entry=['self.lm = store(self.lm, id, arr_ident())', 'self.lmi = store(self.lmi, id, arr_ident())',
                      'self.lm_n = store(self.lm_n, id, RS_N(self.redis, RS_KEY(self, id)))'],
         ensures=['result[0] != None', 'result[0].recipients != None', 'RS_KEY(self, id) in self.redis.henv',
                  'result[1] == RS_ATT(self.redis, RS_KEY(self, id))',
                  'len(result[0].recipients) == self.lm_n[id]',
                  'forall(range(0, self.lm_n[id]), lambda j: result[0].recipients[j] == pk_env_r(self.redis.envraw[RS_KEY(self, id)])[self.lm[id][j]] '
                  '       and 0 <= self.lm[id][j] and self.lm[id][j] < RS_N(self.redis, RS_KEY(self, id)) '
                  '       and not RS_DELIV(self.redis, RS_KEY(self, id), self.lm[id][j]))',
                  'forall(pairs(self.lm_n[id]), lambda a, b: self.lm[id][a] < self.lm[id][b])',
                  'forall(range(0, RS_N(self.redis, RS_KEY(self, id))), lambda p: implies(not RS_DELIV(self.redis, RS_KEY(self, id), p), '
                  '       0 <= self.lmi[id][p] and self.lmi[id][p] < self.lm_n[id] and self.lm[id][self.lmi[id][p]] == p))',
                  'self.lm_n[id] == RS_N(self.redis, RS_KEY(self, id)) - ite(RS_KEY(self, id) in self.redis.hd, RS_DN(self.redis, RS_KEY(self, id)), 0)'],
         raises={'KeyError': ['RS_KEY(self, id) not in self.redis.henv']},
         modifies=['self.lm', 'self.lm_n', 'self.lmi', 'self.rd_map', 'self.rd_inv', 'self.rd_n0', 'fresh'],
         locals={'envelope': 'Envelope'}, **RS)

contract('RedisStorage.remove', props=['C15'], yields=True,
         params={'self': 'RedisStorage', 'id': 'Str'},
         requires=['RS_ok(self)', 'id != "queue"'],
         # gone for good: no field of the hash survives, so neither get() nor load() sees the id again
         ensures=['not R_EXISTS(self.redis, RS_KEY(self, id)) or RS_KEY(self, id) == self.queue_key',
                  'RS_KEY(self, id) not in self.redis.henv',
                  'forall(Str, lambda k: implies(k != RS_KEY(self, id), (k in self.redis.henv) == old(k in self.redis.henv) '
                  '       and (k in self.redis.hts) == old(k in self.redis.hts) and (k in self.redis.hatt) == old(k in self.redis.hatt) '
                  '       and (k in self.redis.hd) == old(k in self.redis.hd)))'],
         modifies=['self.redis.henv', 'self.redis.hts', 'self.redis.hatt', 'self.redis.hd', 'fresh'], **RS)
