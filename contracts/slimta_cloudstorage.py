"""Contracts for slimta/cloudstorage/__init__.py: the cloud backend (C15, C03).

CloudStorage is glue over an object store (the repository's own one is aws.SimpleStorageService over boto, which is
not installed here and outside the anchors).  The object store is ASSUMED to behave as SimpleStorageService reads:
a message = pickled envelope + three metadata slots (timestamp, attempts, delivered_indexes); `write_message` leaves
the attempts and delivered_indexes slots EMPTY and `get_message_meta` / `get_message` leave an empty slot OUT of the
dict they return; `set_message_meta` overwrites exactly the slots it is given; every call on an unknown id raises
KeyError.  Ghost model on the object store (`ObjStore` ghost fields): which ids exist (`has`), the stored recipient
list, timestamp, and which optional slots are filled (`hatt`, `hd`) with what.

The reference store of C15 is the abstraction  attempts(id) = att[id] if the slot is filled else 0."""
import z3
from pyvc.registry import klass, extern, contract, predicate, assume_note, global_object
from pyvc import types as T

M = 'slimta/cloudstorage/__init__.py'
T.alias('DMeta', 'Dict[Str, Union[Int, Real, List[Int]]]')      # same as in slimta_diskstorage.py (loaded later)

klass('ObjStore',
      ghost={'has': 'SetV[Str]', 'rcpts': 'MapV[Str, ArrV[Str]]', 'n': 'MapV[Str, Int]', 'ts': 'MapV[Str, Real]',
             'hatt': 'SetV[Str]', 'att': 'MapV[Str, Int]',
             'hd': 'SetV[Str]', 'd': 'MapV[Str, ArrV[Int]]', 'dn': 'MapV[Str, Int]'})
klass('MsgQueue')
klass('CloudStorage', ['QueueStorage'], module=M, fields={'obj_store': 'ObjStore', 'msg_queue': 'Opt[MsgQueue]'},
      ghost={'lm': 'MapV[Str, ArrV[Int]]', 'lm_n': 'MapV[Str, Int]', 'lmi': 'MapV[Str, ArrV[Int]]'})

F = ['has', 'rcpts', 'n', 'ts', 'hatt', 'att', 'hd', 'd', 'dn']
ALLF = ['self.' + f for f in F]
METAF = ['self.' + f for f in ('ts', 'hatt', 'att', 'hd', 'd', 'dn')]
UNCHANGED = ['self.%s == old(self.%s)' % (f, f) for f in F]


def _others(var='id', fields=F):
    parts = []
    for f in fields:
        if f in ('has', 'hatt', 'hd'):
            parts.append('(k in self.%s) == old(k in self.%s)' % (f, f))
        else:
            parts.append('self.%s[k] == old(self.%s[k])' % (f, f))
    return 'forall(Str, lambda k: implies(k != %s, %s))' % (var, ' and '.join(parts))


def _os(clause):
    return clause.replace('self.', 'self.obj_store.')


META_RESULT = [
    'result != None', 'fresh(result)',
    'dict_has(result, "timestamp") and is_type(dict_get(result, "timestamp"), Real) '
    'and cast(dict_get(result, "timestamp"), Real) == self.ts[id]',
    'dict_has(result, "attempts") == (id in self.hatt)',
    'implies(id in self.hatt, is_type(dict_get(result, "attempts"), Int) and cast(dict_get(result, "attempts"), Int) == self.att[id])',
    'dict_has(result, "delivered_indexes") == (id in self.hd)',
    'implies(id in self.hd, is_type(dict_get(result, "delivered_indexes"), List[Int]) '
    '   and fresh(cast(dict_get(result, "delivered_indexes"), List[Int])) '
    '   and is_list(cast(dict_get(result, "delivered_indexes"), List[Int])) '
    '   and len(cast(dict_get(result, "delivered_indexes"), List[Int])) == self.dn[id] '
    '   and forall(range(0, self.dn[id]), lambda j: cast(dict_get(result, "delivered_indexes"), List[Int])[j] == self.d[id][j]))']

extern('ObjStore.write_message', params={'self': 'ObjStore', 'envelope': 'Envelope', 'timestamp': 'Real'}, returns='Str',
       yields=True, requires=['envelope != None', 'envelope.recipients != None'], modifies=ALLF,
       ensures=['not old(result in self.has)', 'self.has == store(old(self.has), result, True)',
                'self.n[result] == len(envelope.recipients)',
                'forall(range(0, len(envelope.recipients)), lambda j: self.rcpts[result][j] == envelope.recipients[j])',
                'self.ts[result] == timestamp', 'result not in self.hatt', 'result not in self.hd',
                _others('result')],
       raises={'Exception': UNCHANGED},
       notes='object store write_message (as aws.SimpleStorageService): new key prefix+uuid4, pickled envelope, '
             'timestamp slot filled, attempts and delivered_indexes slots empty; uuid4 collisions not considered')
extern('ObjStore.get_message_meta', params={'self': 'ObjStore', 'id': 'Str'}, returns='DMeta', yields=True,
       ensures=['id in self.has'] + META_RESULT,
       raises={'KeyError': ['id not in self.has']},
       notes='object store get_message_meta: an empty metadata slot is left out of the returned dict; KeyError for an unknown id')
extern('ObjStore.get_message', params={'self': 'ObjStore', 'id': 'Str'}, returns='Tuple[Envelope, DMeta]', yields=True,
       ensures=['id in self.has', 'result[0] != None', 'fresh(result[0])', 'result[0].recipients != None',
                'fresh(result[0].recipients)', 'is_list(result[0].recipients)', 'len(result[0].recipients) == self.n[id]',
                'forall(range(0, self.n[id]), lambda j: result[0].recipients[j] == self.rcpts[id][j])'] +
               [c.replace('result', 'result[1]') for c in META_RESULT],
       raises={'KeyError': ['id not in self.has']},
       notes='object store get_message: (unpickled envelope, meta dict as get_message_meta)')
extern('ObjStore.set_message_meta',
       params={'self': 'ObjStore', 'id': 'Str', 'timestamp': 'Opt[Real]', 'attempts': 'Opt[Int]',
               'delivered_indexes': 'Opt[List[Int]]'},
       defaults={'timestamp': 'None', 'attempts': 'None', 'delivered_indexes': 'None'}, yields=True,
       modifies=METAF,
       ensures=['id in self.has',
                'self.ts[id] == ite(timestamp is None, old(self.ts[id]), cast(timestamp, Real))',
                '(id in self.hatt) == (old(id in self.hatt) or attempts is not None)',
                'self.att[id] == ite(attempts is None, old(self.att[id]), cast(attempts, Int))',
                '(id in self.hd) == (old(id in self.hd) or delivered_indexes is not None)',
                'implies(delivered_indexes is None, self.dn[id] == old(self.dn[id]) and self.d[id] == old(self.d[id]))',
                'implies(delivered_indexes is not None, self.dn[id] == len(cast(delivered_indexes, List[Int])) '
                '   and forall(range(0, self.dn[id]), lambda j: self.d[id][j] == cast(delivered_indexes, List[Int])[j]))',
                _others('id', ['ts', 'hatt', 'att', 'hd', 'd', 'dn'])],
       raises={'KeyError': ['id not in self.has'] + UNCHANGED},
       notes='object store set_message_meta: overwrites exactly the slots given (not None), keeps the others')
extern('ObjStore.delete_message', params={'self': 'ObjStore', 'id': 'Str'}, yields=True, modifies=['self.has'],
       ensures=['old(id in self.has)', 'self.has == store(old(self.has), id, False)'],
       raises={'KeyError': ['id not in self.has', 'self.has == old(self.has)']},
       notes='object store delete_message')
extern('ObjStore.list_messages', params={'self': 'ObjStore'}, returns='List[Entry]', yields=True,
       ensures=['result != None', 'fresh(result)',
                'forall(Str, lambda x: implies(x in self.has, exists(result, lambda e: e[1] == x and e[0] == self.ts[x])))',
                'forall(result, lambda e: e[1] in self.has and e[0] == self.ts[e[1]])'],
       notes='object store list_messages: (timestamp, id) of every stored message (the aws implementation of this call '
             'is outside the anchors and not examined)')
extern('MsgQueue.queue_message', params={'self': 'MsgQueue', 'storage_id': 'Str', 'timestamp': 'Real'}, yields=True,
       raises={'Exception': []}, notes='message queue notification: no effect on the object store')

# ---------------------------------------------------------------------------- CloudStorage
predicate('CL_wf(s, id)',
          'implies(id in s.obj_store.hd, s.obj_store.dn[id] >= 0 '
          '   and forall(range(0, s.obj_store.dn[id]), lambda j: 0 <= s.obj_store.d[id][j] and s.obj_store.d[id][j] < s.obj_store.n[id]) '
          '   and forall(pairs(s.obj_store.dn[id]), lambda a, b: s.obj_store.d[id][a] != s.obj_store.d[id][b]))')
predicate('CL_NOMARKS(o, id)', 'not (id in o.hd) or o.dn[id] == 0')
predicate('CL_DELIV(o, id, p)', 'id in o.hd and exists(range(0, o.dn[id]), lambda j: o.d[id][j] == p)')
# the attempt count the reference store would report
predicate('CL_ATT(o, id)', 'ite(id in o.hatt, o.att[id], 0)')

CS = dict(module=M)
OSF = [_os(f) for f in ALLF]
OSMETAF = [_os(f) for f in METAF]

contract('CloudStorage.write', props=['C15'], yields=True,
         params={'self': 'CloudStorage', 'envelope': 'Envelope', 'timestamp': 'Real'}, returns='Str',
         requires=['self.obj_store != None', 'envelope != None', 'envelope.recipients != None'],
         ensures=['not old(result in self.obj_store.has)', 'result in self.obj_store.has',
                  'CL_ATT(self.obj_store, result) == 0', 'self.obj_store.ts[result] == timestamp',
                  'result not in self.obj_store.hd',
                  'self.obj_store.n[result] == len(envelope.recipients)',
                  'forall(range(0, len(envelope.recipients)), lambda j: self.obj_store.rcpts[result][j] == envelope.recipients[j])',
                  _os(_others('result'))],
         raises={'Exception': [_os(c) for c in UNCHANGED]},
         modifies=OSF + ['fresh'], **CS)

contract('CloudStorage.set_timestamp', props=['C15'], yields=True,
         params={'self': 'CloudStorage', 'id': 'Str', 'timestamp': 'Real'},
         requires=['self.obj_store != None'],
         ensures=['id in self.obj_store.has', 'self.obj_store.ts[id] == timestamp',
                  'CL_ATT(self.obj_store, id) == old(CL_ATT(self.obj_store, id))',
                  '(id in self.obj_store.hd) == old(id in self.obj_store.hd)',
                  'self.obj_store.dn[id] == old(self.obj_store.dn[id])', 'self.obj_store.d[id] == old(self.obj_store.d[id])',
                  _os(_others('id', ['ts', 'hatt', 'att', 'hd', 'd', 'dn'])), 'self.obj_store.has == old(self.obj_store.has)'],
         raises={'KeyError': ['id not in self.obj_store.has'] + [_os(c) for c in UNCHANGED]},
         modifies=OSMETAF + ['fresh'], **CS)

contract('CloudStorage.increment_attempts', props=['C15'], yields=True,
         params={'self': 'CloudStorage', 'id': 'Str'}, returns='Int',
         requires=['self.obj_store != None'],
         # C15: "an attempt count that starts at 0 and grows by one per increment" -- also for a message whose
         # attempts slot was never filled
         ensures=['id in self.obj_store.has', 'result == old(CL_ATT(self.obj_store, id)) + 1',
                  'CL_ATT(self.obj_store, id) == result',
                  'self.obj_store.ts[id] == old(self.obj_store.ts[id])',
                  '(id in self.obj_store.hd) == old(id in self.obj_store.hd)',
                  'self.obj_store.dn[id] == old(self.obj_store.dn[id])', 'self.obj_store.d[id] == old(self.obj_store.d[id])',
                  _os(_others('id', ['ts', 'hatt', 'att', 'hd', 'd', 'dn'])), 'self.obj_store.has == old(self.obj_store.has)'],
         # the only error is the one the reference store gives too: the message does not exist
         raises={'KeyError': ['id not in self.obj_store.has'] + [_os(c) for c in UNCHANGED]},
         modifies=OSMETAF + ['fresh'], locals={'meta': 'DMeta'}, **CS)

contract('CloudStorage.set_recipients_delivered', props=['C15', 'C03'], yields=True,
         params={'self': 'CloudStorage', 'id': 'Str', 'rcpt_indexes': 'Union[Set[Int], List[Int]]'},
         requires=['self.obj_store != None', 'not (rcpt_indexes is None)', 'CL_wf(self, id)',
                   # single marking round per message (C15); later rounds: same arithmetic as the disk backend, see
                   # the open finding recorded for DiskStorage.set_recipients_delivered
                   'CL_NOMARKS(self.obj_store, id)',
                   'forall(Int, lambda p: implies(IN_IDX(p, rcpt_indexes), 0 <= p and p < self.obj_store.n[id]))',
                   'implies(is_type(rcpt_indexes, List[Int]), distinct_by(cast(rcpt_indexes, List[Int]), lambda p: p))'],
         ensures=['id in self.obj_store.has', 'id in self.obj_store.hd',
                  'forall(range(0, self.obj_store.n[id]), lambda q: CL_DELIV(self.obj_store, id, q) == IN_IDX(q, rcpt_indexes))',
                  'CL_wf(self, id)',
                  'self.obj_store.ts[id] == old(self.obj_store.ts[id])',
                  'CL_ATT(self.obj_store, id) == old(CL_ATT(self.obj_store, id))',
                  _os(_others('id', ['ts', 'hatt', 'att', 'hd', 'd', 'dn'])), 'self.obj_store.has == old(self.obj_store.has)'],
         raises={'KeyError': ['id not in self.obj_store.has'] + [_os(c) for c in UNCHANGED]},
         modifies=OSMETAF + ['fresh'], locals={'meta': 'DMeta'}, **CS)

contract('CloudStorage.load', props=['C15'], yields=True,
         params={'self': 'CloudStorage'}, returns='List[Entry]',
         requires=['self.obj_store != None'],
         ensures=['forall(Str, lambda x: implies(x in self.obj_store.has, '
                  '       exists(result, lambda e: e[1] == x and e[0] == self.obj_store.ts[x])))',
                  'forall(result, lambda e: e[1] in self.obj_store.has and e[0] == self.obj_store.ts[e[1]])'],
         modifies=['fresh'], **CS)

contract('CloudStorage.get', props=['C15', 'C03'], yields=True,
         params={'self': 'CloudStorage', 'id': 'Str'}, returns='Tuple[Envelope, Int]',
         requires=['self.obj_store != None', 'CL_wf(self, id)'],
         ghost_after={'self._remove_delivered_rcpts(envelope, delivered_rcpts)': [
             'self.lm = store(self.lm, id, self.rd_map)', 'self.lm_n = store(self.lm_n, id, len(envelope.recipients))',
             'self.lmi = store(self.lmi, id, self.rd_inv)']},
         ensures=['result[0] != None', 'result[0].recipients != None', 'id in self.obj_store.has',
                  'result[1] == CL_ATT(self.obj_store, id)',
                  'len(result[0].recipients) == self.lm_n[id]',
                  'forall(range(0, self.lm_n[id]), lambda j: result[0].recipients[j] == self.obj_store.rcpts[id][self.lm[id][j]] '
                  '       and 0 <= self.lm[id][j] and self.lm[id][j] < self.obj_store.n[id] '
                  '       and not CL_DELIV(self.obj_store, id, self.lm[id][j]))',
                  'forall(pairs(self.lm_n[id]), lambda a, b: self.lm[id][a] < self.lm[id][b])',
                  'forall(range(0, self.obj_store.n[id]), lambda p: implies(not CL_DELIV(self.obj_store, id, p), '
                  '       0 <= self.lmi[id][p] and self.lmi[id][p] < self.lm_n[id] and self.lm[id][self.lmi[id][p]] == p))',
                  'self.lm_n[id] == self.obj_store.n[id] - ite(id in self.obj_store.hd, self.obj_store.dn[id], 0)'],
         # a removed (or never written) message: the reference store's error
         raises={'KeyError': ['id not in self.obj_store.has']},
         modifies=['self.lm', 'self.lm_n', 'self.lmi', 'self.rd_map', 'self.rd_inv', 'self.rd_n0', 'fresh'],
         locals={'meta': 'DMeta'}, **CS)

contract('CloudStorage.remove', props=['C15'], yields=True,
         params={'self': 'CloudStorage', 'id': 'Str'},
         requires=['self.obj_store != None'],
         ensures=['id not in self.obj_store.has',
                  'forall(Str, lambda k: implies(k != id, (k in self.obj_store.has) == old(k in self.obj_store.has)))'],
         raises={'KeyError': ['id not in self.obj_store.has', 'self.obj_store.has == old(self.obj_store.has)']},
         modifies=['self.obj_store.has'], **CS)
