"""Contracts for slimta/queue/dict.py (DictStorage) and QueueStorage._remove_delivered_rcpts: C15 / C03 backend side."""
import z3
from pyvc.registry import klass, extern, contract, predicate, assume_note, global_object
from pyvc import types as T
from pyvc.core import Val, SeqV, Undecided
from pyvc import exec as E, builtins as B, calls

MD = 'slimta/queue/dict.py'
MQ = 'slimta/queue/__init__.py'

T.alias('Meta', 'Dict[Str, Union[Int, Real]]')
klass('DictStorage', ['QueueStorage'], module=MD,
      fields={'env_db': 'Dict[Str, Envelope]', 'meta_db': 'Dict[Str, Meta]'})
extern('uuid.uuid4', params={}, returns='UUID', ensures=['result != None', 'fresh(result)'],
       notes='uuid.uuid4(): a new UUID object (its hex string is arbitrary; freshness of ids is checked by the loop in write())')

predicate('DICT_ok(s)',
          's.env_db != None and s.meta_db != None and s.env_db is not s.meta_db '
          'and forall(dict_keys(s.meta_db), lambda k: dict_get(s.meta_db, k) != None '
          '           and dict_has(dict_get(s.meta_db, k), "timestamp") and dict_has(dict_get(s.meta_db, k), "attempts") '
          '           and is_type(dict_get(dict_get(s.meta_db, k), "attempts"), Int)) '
          'and forall(dict_keys(s.env_db), lambda k: dict_get(s.env_db, k) != None)')

contract('DictStorage.write', module=MD, props=['C15'],
         params={'self': 'DictStorage', 'envelope': 'Envelope', 'timestamp': 'Real'}, returns='Str',
         requires=['DICT_ok(self)', 'envelope != None'],
         ensures=['DICT_ok(self)',
                  # a distinct id: it was not in use before; the attempt count starts at zero
                  'not old(dict_has(self.env_db, result))', 'dict_has(self.env_db, result) and dict_has(self.meta_db, result)',
                  'dict_get(self.env_db, result) is envelope',
                  'dict_get(dict_get(self.meta_db, result), "attempts") == 0',
                  'dict_get(dict_get(self.meta_db, result), "timestamp") == timestamp',
                  # operations on one message never disturb another
                  'forall(Str, lambda k: implies(k != result, dict_has(self.env_db, k) == old(dict_has(self.env_db, k)) '
                  '       and implies(dict_has(self.env_db, k), dict_get(self.env_db, k) is old(dict_get(self.env_db, k)))))'],
         modifies=['contents(self.env_db)', 'contents(self.meta_db)', 'fresh'],
         loops={0: dict(modifies=['fresh'], inv=['DICT_ok(self)'])})

contract('DictStorage.increment_attempts', module=MD, props=['C15'],
         params={'self': 'DictStorage', 'id': 'Str'}, returns='Int',
         requires=['DICT_ok(self)'],
         ensures=['result == old(cast(dict_get(dict_get(self.meta_db, id), "attempts"), Int)) + 1',
                  'dict_get(dict_get(self.meta_db, id), "attempts") == result',
                  'forall(Str, lambda k: dict_has(self.meta_db, k) == old(dict_has(self.meta_db, k)))'],
         raises={'KeyError': ['not dict_has(self.meta_db, id)']},
         modifies=['contents(self.meta_db)', 'contents(dict_get(self.meta_db, id))'])

contract('DictStorage.get', module=MD, props=['C15'],
         params={'self': 'DictStorage', 'id': 'Str'}, returns='Tuple[Envelope, Union[Int, Real]]',
         requires=['DICT_ok(self)'],
         ensures=['result[0] is dict_get(self.env_db, id)', 'result[1] == dict_get(dict_get(self.meta_db, id), "attempts")'],
         raises={'KeyError': ['not dict_has(self.meta_db, id) or not dict_has(self.env_db, id)']},
         modifies=[])

contract('DictStorage.remove', module=MD, props=['C15'],
         params={'self': 'DictStorage', 'id': 'Str'},
         requires=['DICT_ok(self)'],
         # a removed message is gone for good; the others are untouched
         ensures=['not dict_has(self.env_db, id) and not dict_has(self.meta_db, id)',
                  'forall(Str, lambda k: implies(k != id, dict_has(self.env_db, k) == old(dict_has(self.env_db, k)) '
                  '       and dict_has(self.meta_db, k) == old(dict_has(self.meta_db, k))))'],
         modifies=['contents(self.env_db)', 'contents(self.meta_db)'])

contract('QueueStorage._remove_delivered_rcpts', module=MQ, props=['C15', 'C03'],
         params={'self': 'QueueStorage', 'envelope': 'Envelope', 'rcpt_indexes': 'Set[Int]'},
         requires=['envelope != None', 'envelope.recipients != None', 'is_list(envelope.recipients)', 'rcpt_indexes != None',
                   'forall(Int, lambda p: implies(p in rcpt_indexes, 0 <= p and p < len(envelope.recipients)))'],
         # every position below the smallest marked index keeps its recipient, and exactly |indexes| recipients go
         ensures=['len(envelope.recipients) == old(len(envelope.recipients)) - len(rcpt_indexes)',
                  'forall(range(0, len(envelope.recipients)), lambda p: implies(forall(Int, lambda q: implies(q in rcpt_indexes, q > p)), '
                  '       envelope.recipients[p] == old(seq(envelope.recipients))[p]))'],
         modifies=['contents(envelope.recipients)'],
         loops={0: dict(modifies=['contents(envelope.recipients)'],
                        inv=['len(envelope.recipients) == old(len(envelope.recipients)) - _k',
                             'forall(range(0, _k), lambda j: _seq0[j] >= len(envelope.recipients) - 0 or True)',
                             'forall(range(0, len(envelope.recipients)), lambda p: implies(forall(range(0, _k), lambda j: _seq0[j] > p), '
                             '       envelope.recipients[p] == old(seq(envelope.recipients))[p]))',
                             'forall(range(_k, len(_seq0)), lambda j: _seq0[j] < len(envelope.recipients))'])},
         notes='full position-wise specification (new == old without the marked positions) is checked by the bounded '
               'stand-in bounded/remove_delivered.py')


def _py_sorted(st, args):
    """sorted(iterable_of_ints, reverse=...): a fresh list with the same elements, each once per occurrence,
    ordered (descending when reverse).  For a set argument: length == cardinality, elements == the set."""
    v, rev = args
    ref = st.new_ref('list')
    et = T.INT
    r = B.seq_fresh(st, z3.IntSort(), 'sorted')
    st.assume(r.n >= 0)
    k = z3.Int('k!srt')
    j = z3.Int('j!srt')
    desc = rev is not None and z3.is_true(z3.simplify(E.truthy(st, rev)))
    if v.t.kind == 'set':
        sv, set_et = B.set_value(st, v)
        if set_et != T.INT:
            raise Undecided('sorted() of a set of %r' % (set_et,))
        st.assume(r.n == st.set_card(v.z, set_et))
        wit = z3.Function('srtidx!%d' % st.nfresh, z3.IntSort(), z3.IntSort())
        x = z3.Int('x!srt')
        st.assume(z3.ForAll([k], z3.Implies(z3.And(0 <= k, k < r.n), z3.Select(sv, z3.Select(r.arr, k))),
                            patterns=[z3.Select(r.arr, k)]))
        st.assume(z3.ForAll([x], z3.Implies(z3.Select(sv, x), z3.And(0 <= wit(x), wit(x) < r.n,
                                                                     z3.Select(r.arr, wit(x)) == x)),
                            patterns=[z3.Select(sv, x)]))
        strict = True
    else:
        raise Undecided('sorted() of %r' % (v.t,))
    a, b = z3.Select(r.arr, k), z3.Select(r.arr, j)
    order = (a > b) if desc else (a < b)
    st.assume(z3.ForAll([k, j], z3.Implies(z3.And(0 <= k, k < j, j < r.n), order),
                        patterns=[z3.MultiPattern(a, b)]))
    st.list_store(ref, et, r)
    return Val(T.TList(et), ref)


calls.SPECFUNS['py_sorted'] = _py_sorted

from pyvc.registry import bounded
bounded(['C15', 'C03'], 'bounded/remove_delivered.py',
        'position-wise specification of _remove_delivered_rcpts and DictStorage.set_recipients_delivered+get '
        '(lists <= 6, all subsets of positions, set/list in every order)')
