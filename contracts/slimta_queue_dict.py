"""Contracts for slimta/queue/dict.py (DictStorage) and QueueStorage._remove_delivered_rcpts: C15 / C03 backend side."""
import z3
from pyvc.registry import klass, extern, contract, predicate, assume_note, global_object
from pyvc import types as T
from pyvc.core import Val, SeqV, Undecided
from pyvc import exec as E, builtins as B, calls

MD = 'slimta/queue/dict.py'
MQ = 'slimta/queue/__init__.py'

T.alias('Meta', 'Dict[Str, Union[Int, Real]]')
klass('DictStorage', ['QueueStorage'], module=MD,
      fields={'env_db': 'Dict[Str, Envelope]', 'meta_db': 'Dict[Str, Meta]'})
extern('uuid.uuid4', params={}, returns='UUID', ensures=['result != None', 'fresh(result)', 'len(result.hex) == 32'],
       notes='uuid.uuid4(): a new UUID object (its hex string is an arbitrary string of 32 characters; freshness of ids is checked by the loop in write())')

predicate('DICT_ok(s)',
          's.env_db != None and s.meta_db != None and s.env_db is not s.meta_db '
          'and forall(dict_keys(s.meta_db), lambda k: dict_get(s.meta_db, k) != None '
          '           and dict_has(dict_get(s.meta_db, k), "timestamp") and dict_has(dict_get(s.meta_db, k), "attempts") '
          '           and is_type(dict_get(dict_get(s.meta_db, k), "attempts"), Int)) '
          'and forall(dict_keys(s.env_db), lambda k: dict_get(s.env_db, k) != None)')

contract('DictStorage.write', module=MD, props=['C15'],
         params={'self': 'DictStorage', 'envelope': 'Envelope', 'timestamp': 'Real'}, returns='Str',
         requires=['DICT_ok(self)', 'envelope != None'],
         ensures=['DICT_ok(self)',
                  # a distinct id: it was not in use before; the attempt count starts at zero
                  'not old(dict_has(self.env_db, result))', 'dict_has(self.env_db, result) and dict_has(self.meta_db, result)',
                  'dict_get(self.env_db, result) is envelope',
                  'dict_get(dict_get(self.meta_db, result), "attempts") == 0',
                  'dict_get(dict_get(self.meta_db, result), "timestamp") == timestamp',
                  # operations on one message never disturb another
                  'forall(Str, lambda k: implies(k != result, dict_has(self.env_db, k) == old(dict_has(self.env_db, k)) '
                  '       and implies(dict_has(self.env_db, k), dict_get(self.env_db, k) is old(dict_get(self.env_db, k)))))'],
         modifies=['contents(self.env_db)', 'contents(self.meta_db)', 'fresh'],
         loops={0: dict(modifies=['fresh'], inv=['DICT_ok(self)'])})

contract('DictStorage.increment_attempts', module=MD, props=['C15'],
         params={'self': 'DictStorage', 'id': 'Str'}, returns='Int',
         requires=['DICT_ok(self)'],
         ensures=['result == old(cast(dict_get(dict_get(self.meta_db, id), "attempts"), Int)) + 1',
                  'dict_get(dict_get(self.meta_db, id), "attempts") == result',
                  'forall(Str, lambda k: dict_has(self.meta_db, k) == old(dict_has(self.meta_db, k)))'],
         raises={'KeyError': ['not dict_has(self.meta_db, id)']},
         modifies=['contents(self.meta_db)', 'contents(dict_get(self.meta_db, id))'])

contract('DictStorage.get', module=MD, props=['C15'],
         params={'self': 'DictStorage', 'id': 'Str'}, returns='Tuple[Envelope, Union[Int, Real]]',
         requires=['DICT_ok(self)'],
         ensures=['result[0] is dict_get(self.env_db, id)', 'result[1] == dict_get(dict_get(self.meta_db, id), "attempts")'],
         raises={'KeyError': ['not dict_has(self.meta_db, id) or not dict_has(self.env_db, id)']},
         modifies=[])

contract('DictStorage.remove', module=MD, props=['C15'],
         params={'self': 'DictStorage', 'id': 'Str'},
         requires=['DICT_ok(self)'],
         # a removed message is gone for good; the others are untouched
         ensures=['not dict_has(self.env_db, id) and not dict_has(self.meta_db, id)',
                  'forall(Str, lambda k: implies(k != id, dict_has(self.env_db, k) == old(dict_has(self.env_db, k)) '
                  '       and dict_has(self.meta_db, k) == old(dict_has(self.meta_db, k))))'],
         modifies=['contents(self.env_db)', 'contents(self.meta_db)'])

# ghost result of the last _remove_delivered_rcpts call: rd_map[j] = position in the OLD recipient list of the
# recipient now at position j (strictly increasing), rd_inv its inverse on the surviving positions
klass('QueueStorage', ghost={'rd_map': 'ArrV[Int]', 'rd_inv': 'ArrV[Int]', 'rd_n0': 'Int'})


def _arr_ident(st, args):
    st.nfresh += 1
    a = st.fresh(z3.ArraySort(z3.IntSort(), z3.IntSort()), 'ident')
    j = z3.Int('j!id%d' % st.nfresh)
    st.assume(z3.ForAll([j], z3.Select(a, j) == j, patterns=[z3.Select(a, j)]))
    return Val(T.parse_type('ArrV[Int]'), a)


def _arr_shift(st, args):
    """arr_shift(a, i)[j] = a[j] for j < i, a[j+1] for j >= i   (the index map after `del l[i]`)"""
    a, i = args[0].z, args[1].z
    st.nfresh += 1
    r = st.fresh(z3.ArraySort(z3.IntSort(), z3.IntSort()), 'shift')
    j = z3.Int('j!sh%d' % st.nfresh)
    st.assume(z3.ForAll([j], z3.Select(r, j) == z3.If(j < i, z3.Select(a, j), z3.Select(a, j + 1)),
                        patterns=[z3.Select(r, j)]))
    return Val(T.parse_type('ArrV[Int]'), r)


def _arr_unshift(st, args):
    """arr_unshift(a, i)[p] = a[p] for p < i, -1 for p == i, a[p] - 1 for p > i   (inverse index map after
    `del l[i]`: negative = that old position is gone)"""
    a, i = args[0].z, args[1].z
    st.nfresh += 1
    r = st.fresh(z3.ArraySort(z3.IntSort(), z3.IntSort()), 'unshift')
    p = z3.Int('p!us%d' % st.nfresh)
    st.assume(z3.ForAll([p], z3.Select(r, p) == z3.If(p < i, z3.Select(a, p), z3.If(p == i, -1, z3.Select(a, p) - 1)),
                        patterns=[z3.Select(r, p)]))
    return Val(T.parse_type('ArrV[Int]'), r)


calls.SPECFUNS['arr_ident'] = _arr_ident
calls.SPECFUNS['arr_shift'] = _arr_shift
calls.SPECFUNS['arr_unshift'] = _arr_unshift

predicate('IN_IDX(x, c)', '(is_type(c, Set[Int]) and x in cast(c, Set[Int])) or (is_type(c, List[Int]) and x in seq(cast(c, List[Int])))')

# _gb: the smallest position deleted so far (the list length before the first deletion)
RD_INV = [
    'len(envelope.recipients) == old(len(envelope.recipients)) - _k',
    '0 <= _gb and _gb <= len(envelope.recipients)',
    'implies(_k > 0, _gb == _seq0[_k - 1])', 'implies(_k == 0, _gb == old(len(envelope.recipients)))',
    # every surviving recipient is the old one at position _gmap[j]; below the last deleted position nothing moved
    'forall(range(0, len(envelope.recipients)), lambda j: envelope.recipients[j] == old(seq(envelope.recipients))[_gmap[j]] '
    '       and 0 <= _gmap[j] and _gmap[j] < old(len(envelope.recipients)))',
    'forall(pairs(len(envelope.recipients)), lambda a, b: _gmap[a] < _gmap[b])',
    'forall(range(0, _gb), lambda j: _gmap[j] == j and _ginv[j] == j)',
    # _ginv is the inverse of _gmap on the surviving positions and negative on the deleted ones: no survivor sits
    # at a deleted position, and every position that was not deleted survives
    'forall(range(0, len(envelope.recipients)), lambda j: _ginv[_gmap[j]] == j)',
    'forall(range(0, _k), lambda t: _ginv[_seq0[t]] < 0)',
    'forall(range(0, old(len(envelope.recipients))), lambda p: implies(forall(range(0, _k), lambda t: _seq0[t] != p), '
    '       0 <= _ginv[p] and _ginv[p] < len(envelope.recipients) and _gmap[_ginv[p]] == p))',
]

contract('QueueStorage._remove_delivered_rcpts', module=MQ, props=['C15', 'C03'],
         params={'self': 'QueueStorage', 'envelope': 'Envelope', 'rcpt_indexes': 'Union[Set[Int], List[Int]]'},
         requires=['envelope != None', 'envelope.recipients != None', 'is_list(envelope.recipients)',
                   'implies(is_type(rcpt_indexes, Set[Int]), forall(Int, lambda p: implies(p in cast(rcpt_indexes, Set[Int]), '
                   '        0 <= p and p < len(envelope.recipients))))',
                   'implies(is_type(rcpt_indexes, List[Int]), forall(cast(rcpt_indexes, List[Int]), lambda p: '
                   '        0 <= p and p < len(envelope.recipients)) and distinct_by(cast(rcpt_indexes, List[Int]), lambda p: p))',
                   'not (rcpt_indexes is None)'],
         ghost_entry=['_gmap = arr_ident()', '_ginv = arr_ident()', '_gb = len(envelope.recipients)', '_gn0 = len(envelope.recipients)'],
         ghost_after={'del envelope.recipients[index]': ['_gmap = arr_shift(_gmap, index)', '_ginv = arr_unshift(_ginv, index)',
                                                         '_gb = index']},
         ghost_exit=['self.rd_map = _gmap', 'self.rd_inv = _ginv', 'self.rd_n0 = _gn0'],
         # exactly the recipients at the given positions are gone, the others keep their relative order:
         # new[j] == old[rd_map[j]] with rd_map strictly increasing onto the positions that were not given
         ensures=['self.rd_n0 == old(len(envelope.recipients))',
                  'forall(range(0, len(envelope.recipients)), lambda j: envelope.recipients[j] == old(seq(envelope.recipients))[self.rd_map[j]] '
                  '       and 0 <= self.rd_map[j] and self.rd_map[j] < self.rd_n0 and not IN_IDX(self.rd_map[j], rcpt_indexes))',
                  'forall(pairs(len(envelope.recipients)), lambda a, b: self.rd_map[a] < self.rd_map[b])',
                  'forall(range(0, self.rd_n0), lambda p: implies(not IN_IDX(p, rcpt_indexes), '
                  '       0 <= self.rd_inv[p] and self.rd_inv[p] < len(envelope.recipients) and self.rd_map[self.rd_inv[p]] == p))',
                  'implies(is_type(rcpt_indexes, Set[Int]), len(envelope.recipients) == self.rd_n0 - len(cast(rcpt_indexes, Set[Int])))',
                  'implies(is_type(rcpt_indexes, List[Int]), len(envelope.recipients) == self.rd_n0 - len(cast(rcpt_indexes, List[Int])))',
                  # nothing moves below the smallest given position (in particular: no positions, no change)
                  'forall(range(0, len(envelope.recipients)), lambda j: implies(forall(range(0, self.rd_n0), lambda q: '
                  '       implies(IN_IDX(q, rcpt_indexes), q > j)), self.rd_map[j] == j))'],
         modifies=['contents(envelope.recipients)', 'self.rd_map', 'self.rd_inv', 'self.rd_n0'],
         loops={0: dict(modifies=['contents(envelope.recipients)'],
                        inv=RD_INV + ['_gn0 == old(len(envelope.recipients))',
                                      'forall(range(_k, len(_seq0)), lambda t: _seq0[t] < _gb)'])})


def _py_sorted(st, args):
    """sorted(iterable_of_ints, reverse=...): a fresh list with the same elements, each once per occurrence,
    ordered (descending when reverse).  For a set argument: length == cardinality, elements == the set."""
    v, rev = args
    if v.t.kind == 'union':
        v = E.concretize(st, v)
    ref = st.new_ref('list')
    et = T.INT
    r = B.seq_fresh(st, z3.IntSort(), 'sorted')
    st.assume(r.n >= 0)
    k = z3.Int('k!srt')
    j = z3.Int('j!srt')
    desc = rev is not None and z3.is_true(z3.simplify(E.truthy(st, rev)))
    if v.t.kind == 'set':
        sv, set_et = B.set_value(st, v)
        if set_et != T.INT:
            raise Undecided('sorted() of a set of %r' % (set_et,))
        st.assume(r.n == st.set_card(v.z, set_et))
        wit = z3.Function('srtidx!%d' % st.nfresh, z3.IntSort(), z3.IntSort())
        x = z3.Int('x!srt')
        st.assume(z3.ForAll([k], z3.Implies(z3.And(0 <= k, k < r.n), z3.Select(sv, z3.Select(r.arr, k))),
                            patterns=[z3.Select(r.arr, k)]))
        st.assume(z3.ForAll([x], z3.Implies(z3.Select(sv, x), z3.And(0 <= wit(x), wit(x) < r.n,
                                                                     z3.Select(r.arr, wit(x)) == x)),
                            patterns=[z3.Select(sv, x)]))
        strict = True
    elif v.t.kind == 'list' and v.t.args and v.t.args[0] == T.INT:
        # a list WITHOUT repeated elements (proved here): the result is a permutation of it, strictly ordered
        src, _ = B.seq_of(st, v)
        a1, a2 = z3.Int('a!srt'), z3.Int('b!srt')
        st.prove('call[sorted]@%d/distinct-elements' % st.lineno,
                 z3.ForAll([a1, a2], z3.Implies(z3.And(0 <= a1, a1 < a2, a2 < src.n),
                                                z3.Select(src.arr, a1) != z3.Select(src.arr, a2)),
                           patterns=[z3.MultiPattern(z3.Select(src.arr, a1), z3.Select(src.arr, a2))]), kind='pre')
        st.assume(r.n == src.n)
        fw = z3.Function('srtfw!%d' % st.nfresh, z3.IntSort(), z3.IntSort())   # position in src of r[k]
        bw = z3.Function('srtbw!%d' % st.nfresh, z3.IntSort(), z3.IntSort())   # position in r of src[k]
        st.assume(z3.ForAll([k], z3.Implies(z3.And(0 <= k, k < r.n),
                                            z3.And(0 <= fw(k), fw(k) < src.n, z3.Select(src.arr, fw(k)) == z3.Select(r.arr, k))),
                            patterns=[z3.Select(r.arr, k)]))
        st.assume(z3.ForAll([k], z3.Implies(z3.And(0 <= k, k < src.n),
                                            z3.And(0 <= bw(k), bw(k) < r.n, z3.Select(r.arr, bw(k)) == z3.Select(src.arr, k))),
                            patterns=[z3.Select(src.arr, k)]))
        strict = True
    else:
        raise Undecided('sorted() of %r' % (v.t,))
    a, b = z3.Select(r.arr, k), z3.Select(r.arr, j)
    order = (a > b) if desc else (a < b)
    st.assume(z3.ForAll([k, j], z3.Implies(z3.And(0 <= k, k < j, j < r.n), order),
                        patterns=[z3.MultiPattern(a, b)]))
    st.list_store(ref, et, r)
    return Val(T.TList(et), ref)


calls.SPECFUNS['py_sorted'] = _py_sorted

from pyvc.registry import bounded
bounded(['C15', 'C03'], 'bounded/remove_delivered.py',
        'position-wise specification of _remove_delivered_rcpts and DictStorage.set_recipients_delivered+get '
        '(lists <= 6, all subsets of positions, set/list in every order)')
