"""Contracts for slimta/queue/__init__.py"""
from pyvc.registry import klass, extern, contract, predicate, assume_note
from pyvc import types as T

M = 'slimta/queue/__init__.py'

klass('Queue', module=M,
      fields={'queued': 'List[Entry]', 'queued_ids': 'Set[Id]', 'active_ids': 'Set[Id]',
              'wake': 'Event', 'queued_lock': 'Semaphore'},
      ghost={'pending_dequeue': 'Set[Id]'})

predicate('INV_timetable(q)',
          'q.queued != None and q.queued_ids != None and q.active_ids != None and q.wake != None '
          'and q.queued_ids is not q.active_ids '
          'and setv(q.queued_ids) == set_of(q.queued, lambda e: e[1]) '
          'and sorted_by(q.queued, lambda e: e[0]) and distinct_by(q.queued, lambda e: e[1])')


def _pool_spawn(st, args, kw):
    """Queue._pool_spawn(which, func, *args): assumed (gevent spawn: schedules the call,
    returns at once, no yield for an unbounded pool).  Ghost: a spawned _dequeue(id) puts id
    into pending_dequeue."""
    import z3
    from pyvc.core import Val
    from pyvc import exec as E
    self_v, which, func = args[0], args[1], args[2]
    rest = args[3:]
    f = func.z
    if f.kind == 'bound' and f.name == '_dequeue':
        cur = st.read_field(self_v.z, 'Queue', 'pending_dequeue')
        et = cur.t.args[0]
        st.set_store(cur.z, et, z3.Store(st.set_val(cur.z, et), st.coerce(rest[0], et).z, True))
    return E.NONE_VAL()


contract('Queue._pool_spawn', kind='extern', model=_pool_spawn,
         notes='Queue._pool_spawn modelled as gevent.spawn (trusted)')

contract('Queue._add_queued', module=M, props=['C12', 'C03'],
         params={'self': 'Queue', 'entry': 'Entry'},
         requires=['INV_timetable(self)'],
         ensures=['INV_timetable(self)',
                  'implies(old(entry[1] not in self.queued_ids and entry[1] not in self.active_ids), '
                  '        entry[1] in self.queued_ids and self.wake.flag)',
                  'forall(old(self.queued), lambda e: e[1] in self.queued_ids)',
                  'setv(self.active_ids) == old(setv(self.active_ids))'],
         modifies=['contents(self.queued)', 'contents(self.queued_ids)', 'self.wake.flag'])

contract('Queue._check_ready', module=M, props=['C12', 'C03'],
         params={'self': 'Queue', 'now': 'Real'},
         requires=['INV_timetable(self)', 'self.pending_dequeue != None',
                   'self.pending_dequeue is not self.queued_ids', 'self.pending_dequeue is not self.active_ids'],
         ensures=['INV_timetable(self)',
                  # never early: only due entries were handed to _dequeue, and every due entry was
                  'forall(old(self.queued), lambda e: implies(e[0] <= now, e[1] in self.pending_dequeue and e[1] not in self.queued_ids))',
                  'forall(old(self.queued), lambda e: implies(e[0] > now, e[1] in self.queued_ids))',
                  'forall(Str, lambda x: implies(x in self.pending_dequeue and not old(x in self.pending_dequeue), '
                  '       exists(old(self.queued), lambda e: e[1] == x and e[0] <= now)))',
                  'forall(self.queued, lambda e: e[0] > now)'],
         modifies=['self.queued', 'self.queued_ids', 'contents(self.pending_dequeue)'],
         loops={0: dict(inv=['last_i == _k',
                             'forall(range(0, _k), lambda j: self.queued[j][0] <= now and self.queued[j][1] in self.pending_dequeue)',
                             'forall(Str, lambda x: implies(x in self.pending_dequeue and not old(x in self.pending_dequeue), '
                             '       exists(range(0, _k), lambda j: self.queued[j][1] == x)))',
                             ],
                        modifies=['contents(self.pending_dequeue)'])})

contract('Queue.flush', module=M, props=['C12'],
         params={'self': 'Queue'},
         requires=['INV_timetable(self)', 'self.pending_dequeue != None', 'self.queued_lock != None',
                   'self.pending_dequeue is not self.queued_ids', 'self.pending_dequeue is not self.active_ids'],
         ensures=['INV_timetable(self)', 'len(self.queued) == 0',
                  'forall(old(self.queued), lambda e: e[1] in self.pending_dequeue)'],
         modifies=['self.queued', 'self.queued_ids', 'contents(self.queued_ids)', 'self.wake.flag',
                   'self.queued_lock.counter', 'contents(self.pending_dequeue)'],
         loops={0: dict(inv=['forall(range(0, _k), lambda j: self.queued[j][1] in self.pending_dequeue)'],
                        modifies=['contents(self.pending_dequeue)'])})
