"""Contracts for slimta/queue/__init__.py (Queue) and the abstract reference store RS."""
import z3
from pyvc.registry import klass, extern, contract, predicate, assume_note, global_object, monitor
from pyvc import types as T
from pyvc.core import Val, SeqV, Undecided
from pyvc import exec as E, builtins as B, calls

M = 'slimta/queue/__init__.py'

T.alias('RcptResult', 'Union[None, Reply, PermanentRelayError, TransientRelayError]')

# ---------------------------------------------------------------------------- data classes
klass('Reply', fields={'code': 'Opt[Str]', 'message': 'Opt[Str]'}, eq=['code', 'message'],
      truthy='self.code is not None')
extern('Reply.__init__', params={'self': 'Reply', 'code': 'Opt[Str]', 'message': 'Union[None, Str, Bytes]',
                                  'command': 'Any', 'address': 'Any'},
       defaults={'code': 'None', 'message': 'None', 'command': 'None', 'address': 'None'},
       modifies=['self.code', 'self.message'],
       ensures=['self.code == code', 'not is_type(message, Bytes)'],
       raises={'TypeError': ['is_type(message, Bytes)']},
       notes='Reply(code, message): code stored as given (3-digit validation not modelled here), message opaque')

klass('SlimtaError', ['Exception'])
klass('RelayError', ['SlimtaError'], fields={'reply': 'Reply'})
klass('PermanentRelayError', ['RelayError'])
klass('TransientRelayError', ['RelayError'])
klass('QueueError', ['SlimtaError'], module=M)

klass('Envelope', fields={'sender': 'Opt[Str]', 'recipients': 'List[Str]'})


klass('Bounce', ['Envelope'])

# ---------------------------------------------------------------------------- reference store RS
klass('QueueStorage', module=M,
      ghost={'rs_has': 'SetV[Str]', 'rs_rcpts': 'MapV[Str, ArrV[Str]]', 'rs_nrcpts': 'MapV[Str, Int]',
             'rs_attempts': 'MapV[Str, Int]', 'rs_ts': 'MapV[Str, Real]'})
predicate('rs_out(s, id)', 'mkseq(s.rs_rcpts[id], s.rs_nrcpts[id])')

extern('QueueStorage.increment_attempts', params={'self': 'QueueStorage', 'id': 'Str'}, returns='Int',
       yields=True, modifies=['self.rs_attempts'],
       ensures=['result == old(self.rs_attempts[id]) + 1',
                'self.rs_attempts == store(old(self.rs_attempts), id, result)'])
extern('QueueStorage.set_timestamp', params={'self': 'QueueStorage', 'id': 'Str', 'timestamp': 'Real'},
       yields=True, modifies=['self.rs_ts'], ensures=['self.rs_ts == store(old(self.rs_ts), id, timestamp)'])
extern('QueueStorage.remove', params={'self': 'QueueStorage', 'id': 'Str'}, yields=True,
       modifies=['self.rs_has'], ensures=['self.rs_has == store(old(self.rs_has), id, False)'])
klass('QueueStorage', ghost={'last_marks': 'SetV[Int]', 'last_marked_id': 'Opt[Str]', 'n_marks': 'Int'})
extern('QueueStorage.set_recipients_delivered',
       params={'self': 'QueueStorage', 'id': 'Str', 'rcpt_indexes': 'Set[Int]'}, yields=True,
       modifies=['self.rs_rcpts', 'self.rs_nrcpts', 'self.last_marks', 'self.last_marked_id', 'self.n_marks'],
       requires=['rcpt_indexes != None',
                 # idx-in-range: positions of the envelope last returned by get()
                 'forall(Int, lambda p: implies(p in rcpt_indexes, 0 <= p and p < self.rs_nrcpts[id]))'],
       ensures=['self.last_marks == setv(rcpt_indexes)', 'self.last_marked_id == id',
                'self.n_marks == old(self.n_marks) + 1'],
       notes='RS semantics: the given positions of the envelope last returned by get() are removed; the Queue '
             'passes a set (the backends must cope with that: their own obligation, C03/C15)')
extern('QueueStorage.get', params={'self': 'QueueStorage', 'id': 'Str'},
       returns='Tuple[Envelope, Int]', yields=True,
       ensures=['result[0] != None', 'result[0].recipients != None', 'is_list(result[0].recipients)',
                'fresh(result[0])', 'fresh(result[0].recipients)',
                'seq(result[0].recipients) == rs_out(self, id)', 'result[1] == self.rs_attempts[id]',
                'id in self.rs_has'],
       raises={'KeyError': ['id not in self.rs_has']})

klass('Relay', ghost={})
extern('Relay._attempt', params={'self': 'Relay', 'envelope': 'Envelope', 'attempts': 'Int'},
       returns='Union[None, Reply, Dict[Str, RcptResult], List[RcptResult]]', yields=True,
       raises={'TransientRelayError': ['exc.reply != None'], 'PermanentRelayError': ['exc.reply != None'],
               'OtherException': []},
       ensures=['implies(is_type(result, Dict[Str, RcptResult]), '
                '  forall(envelope.recipients, lambda r: dict_has(cast(result, Dict[Str, RcptResult]), r)) '
                '  and forall(dict_keys(cast(result, Dict[Str, RcptResult])), lambda r: r in seq(envelope.recipients)))',
                'implies(is_type(result, List[RcptResult]), len(cast(result, List[RcptResult])) == len(envelope.recipients))'],
       notes='relay result contract (Relay.attempt docstring + C01): None | Reply | mapping keyed by exactly the '
             'recipients | sequence of equal length; raises Transient/Permanent RelayError or anything else')

extern('logging.log_exception', params={'name': 'Str', 'kwargs': 'Kwargs'}, notes='logging: no effect on verified state')

# ---------------------------------------------------------------------------- Queue
klass('Queue', module=M,
      fields={'queued': 'List[Entry]', 'queued_ids': 'Set[Id]', 'active_ids': 'Set[Id]',
              'wake': 'Event', 'queued_lock': 'Semaphore', 'store': 'QueueStorage', 'relay': 'Relay',
              'bounce_queue': 'Queue'},
      ghost={'pending_dequeue': 'Set[Id]',          # ids for which a _dequeue greenlet was spawned
             'attempting': 'Set[Id]',               # ids for which an _attempt greenlet was spawned (in flight)
             'pending_retry': 'Set[Id]',            # ids for which a _retry_later greenlet was spawned
             'removed': 'Set[Id]',                  # ids for which store.remove was spawned
             'bounces': 'List[Tuple[Envelope, Reply]]',   # (envelope, reply) handed to a _bounce greenlet
             'permfails': 'List[Tuple[Envelope, Reply]]'  # (envelope, reply) of every _perm_fail call
             })

predicate('INV_timetable(q)',
          'q.queued != None and q.queued_ids != None and q.active_ids != None and q.wake != None '
          'and q.queued_ids is not q.active_ids and is_list(q.queued) '
          'and setv(q.queued_ids) == set_of(q.queued, lambda e: e[1]) '
          'and sorted_by(q.queued, lambda e: e[0]) and distinct_by(q.queued, lambda e: e[1])')

predicate('GHOST_ok(q)',
          'q.pending_dequeue != None and q.attempting != None and q.pending_retry != None and q.removed != None '
          'and q.bounces != None and q.permfails != None and is_list(q.bounces) and is_list(q.permfails) '
          'and q.pending_dequeue is not q.queued_ids and q.pending_dequeue is not q.active_ids '
          'and q.attempting is not q.queued_ids and q.attempting is not q.active_ids '
          'and q.attempting is not q.pending_dequeue and q.pending_retry is not q.queued_ids '
          'and q.pending_retry is not q.active_ids and q.pending_retry is not q.pending_dequeue '
          'and q.pending_retry is not q.attempting and q.removed is not q.queued_ids '
          'and q.removed is not q.active_ids and q.removed is not q.pending_dequeue '
          'and q.removed is not q.attempting and q.removed is not q.pending_retry '
          'and q.bounces is not q.permfails and q.store != None')


predicate('INV_flight(q)', 'subset(q.attempting, q.active_ids)')

# G2: what must hold whenever a Queue method can be descheduled, and what the other greenlets may change meanwhile
monitor('Queue',
        inv=['INV_timetable(self)', 'GHOST_ok(self)', 'INV_flight(self)'],
        shared=['contents(self.queued)', 'contents(self.queued_ids)', 'self.queued', 'self.queued_ids',
                'contents(self.active_ids)', 'self.wake.flag', 'contents(self.pending_dequeue)',
                'contents(self.attempting)', 'contents(self.pending_retry)'])
# what the other greenlets guarantee to the greenlet that owns the attempt for `id` (only the owner releases it,
# and _add_queued refuses ids that are active)
OWNER_RELY = ['implies(old(id in self.attempting), id in self.attempting and id in self.active_ids '
              'and id not in self.queued_ids)']


def _set_add_ghost(st, self_v, field, x):
    cur = st.read_field(self_v.z, 'Queue', field)
    et = cur.t.args[0]
    st.set_store(cur.z, et, z3.Store(st.set_val(cur.z, et), st.coerce(x, et).z, True))


def _pool_spawn(st, args, kw):
    """Queue._pool_spawn(which, func, *args): assumed (gevent spawn on an UNBOUNDED pool: schedules the
    call, returns at once, does not yield).  Ghost bookkeeping by target; the spawn of _attempt is the
    C03 'one attempt in flight' obligation."""
    self_v, which, func = args[0], args[1], args[2]
    rest = args[3:]
    f = func.z
    line = st.lineno
    if f.kind != 'bound':
        raise Undecided('_pool_spawn of %r' % (f,))
    if f.name == '_dequeue':
        _set_add_ghost(st, self_v, 'pending_dequeue', rest[0])
    elif f.name == '_attempt':
        att = st.read_field(self_v.z, 'Queue', 'attempting')
        act = st.read_field(self_v.z, 'Queue', 'active_ids')
        idz = st.coerce(rest[0], T.STR).z
        st.prove('spawn[_attempt]@%d/not-already-in-flight' % line,
                 z3.Not(z3.Select(st.set_val(att.z, T.STR), idz)), kind='pre')
        st.prove('spawn[_attempt]@%d/marked-active' % line,
                 z3.Select(st.set_val(act.z, T.STR), idz), kind='pre')
        _set_add_ghost(st, self_v, 'attempting', rest[0])
    elif f.name == '_retry_later':
        _set_add_ghost(st, self_v, 'pending_retry', rest[0])
    elif f.name == 'remove':
        _set_add_ghost(st, self_v, 'removed', rest[0])
    elif f.name == '_bounce':
        cur = st.read_field(self_v.z, 'Queue', 'bounces')
        et = cur.t.args[0]
        s = st.list_seq(cur.z, et)
        tup = E.make_tuple(st, [st.coerce(rest[0], T.TRef('Envelope')), st.coerce(rest[1], T.TRef('Reply'))])
        st.list_store(cur.z, et, SeqV(z3.Store(s.arr, s.n, tup.z), s.n + 1))
    elif f.name in ('_load_all', '_wait_store'):
        pass
    else:
        raise Undecided('_pool_spawn of unknown target %s' % f.name)
    return E.NONE_VAL()


contract('Queue._pool_spawn', kind='extern', model=_pool_spawn,
         notes='Queue._pool_spawn modelled as gevent.spawn on an unbounded pool (no yield); bounded pools not decided')
assume_note('store_pool / relay_pool unbounded: Pool.spawn does not block (bounded pools are outside what is decided)')

GH = ['contents(self.pending_dequeue)', 'contents(self.attempting)', 'contents(self.pending_retry)',
      'contents(self.removed)', 'contents(self.bounces)', 'self.sbr_gidx', 'self.sbr_gpos', 'contents(self.permfails)']

contract('Queue._add_queued', module=M, props=['C12', 'C03'],
         params={'self': 'Queue', 'entry': 'Entry'},
         requires=['INV_timetable(self)'],
         ensures=['INV_timetable(self)',
                  'implies(old(entry[1] not in self.queued_ids and entry[1] not in self.active_ids), '
                  '        entry[1] in self.queued_ids and self.wake.flag '
                  '        and exists(self.queued, lambda e: e[1] == entry[1] and e[0] == entry[0]))',
                  'implies(old(entry[1] in self.queued_ids or entry[1] in self.active_ids), '
                  '        seq(self.queued) == old(seq(self.queued)))',
                  'forall(old(self.queued), lambda e: e[1] in self.queued_ids)',
                  'setv(self.active_ids) == old(setv(self.active_ids))'],
         modifies=['contents(self.queued)', 'contents(self.queued_ids)', 'self.wake.flag'])

contract('Queue._check_ready', module=M, props=['C12', 'C03'],
         params={'self': 'Queue', 'now': 'Real'},
         requires=['INV_timetable(self)', 'GHOST_ok(self)'],
         ensures=['INV_timetable(self)', 'GHOST_ok(self)',
                  # every due entry was handed to _dequeue and left the timetable; nothing else was
                  'forall(old(self.queued), lambda e: implies(e[0] <= now, e[1] in self.pending_dequeue and e[1] not in self.queued_ids))',
                  'forall(old(self.queued), lambda e: implies(e[0] > now, e[1] in self.queued_ids))',
                  # never early
                  'forall(Str, lambda x: implies(x in self.pending_dequeue and not old(x in self.pending_dequeue), '
                  '       exists(old(self.queued), lambda e: e[1] == x and e[0] <= now)))',
                  'forall(self.queued, lambda e: e[0] > now)',
                  'setv(self.active_ids) == old(setv(self.active_ids))'],
         modifies=['self.queued', 'self.queued_ids', 'contents(self.pending_dequeue)'],
         loops={0: dict(inv=['last_i == _k',
                             'forall(range(0, _k), lambda j: self.queued[j][0] <= now and self.queued[j][1] in self.pending_dequeue)',
                             'forall(Str, lambda x: implies(x in self.pending_dequeue and not old(x in self.pending_dequeue), '
                             '       exists(range(0, _k), lambda j: self.queued[j][1] == x)))'],
                        modifies=['contents(self.pending_dequeue)'])})

contract('Queue.flush', module=M, props=['C12'], yields=True,
         params={'self': 'Queue'},
         requires=['QUEUE_ok(self)', 'self.queued_lock != None'],
         # _gq: the timetable at the moment the lock has been taken (other greenlets ran while flush waited for it)
         ghost_after={'self.queued_lock.acquire()': ['_gq = self.queued[0:len(self.queued)]']},
         ensures=['INV_timetable(self)', 'GHOST_ok(self)', 'INV_flight(self)', 'len(self.queued) == 0'],
         checks=['forall(_gq, lambda e: e[1] in self.pending_dequeue)'],
         modifies=['contents(self.queued)', 'contents(self.queued_ids)', 'self.queued', 'self.queued_ids', 'contents(self.active_ids)', 'self.wake.flag', 'contents(self.pending_dequeue)', 'contents(self.attempting)', 'contents(self.pending_retry)', 'self.queued_lock.counter', 'self.queued_lock.held', 'fresh'],
         loops={0: dict(inv=['forall(range(0, _k), lambda j: self.queued[j][1] in self.pending_dequeue)',
                             '_gq != None and fresh(_gq) and _gq is not self.queued and seq(_gq) == seq(self.queued)',
                             'GHOST_ok(self)', 'INV_flight(self)', 'INV_timetable(self)'],
                        modifies=['contents(self.pending_dequeue)'])})

extern('QueueStorage.load', params={'self': 'QueueStorage'}, returns='List[Entry]', yields=True,
       ensures=['result != None', 'fresh(result)'],
       notes='load(): the generator is modelled as the list of entries it yields (consumed to exhaustion)')
extern('QueueStorage.wait', params={'self': 'QueueStorage'}, returns='List[Entry]', yields=True,
       ensures=['result != None', 'fresh(result)'], raises={'NotImplementedError': []})

contract('Queue._load_all', module=M, props=['C12'], yields=True,
         params={'self': 'Queue'},
         requires=['QUEUE_ok(self)', 'self.store != None'],
         ensures=['INV_timetable(self)', 'GHOST_ok(self)', 'INV_flight(self)'],
         modifies=['contents(self.queued)', 'contents(self.queued_ids)', 'self.queued', 'self.queued_ids', 'contents(self.active_ids)', 'self.wake.flag', 'contents(self.pending_dequeue)', 'contents(self.attempting)', 'contents(self.pending_retry)'],
         loops={0: dict(inv=['INV_timetable(self)', 'GHOST_ok(self)', 'INV_flight(self)',
                             'forall(range(0, _k), lambda j: _seq0[j][1] in self.queued_ids or _seq0[j][1] in self.active_ids)'],
                        modifies=['contents(self.queued)', 'contents(self.queued_ids)', 'self.wake.flag'])})

contract('Queue._wait_store', module=M, props=['C12'], yields=True,
         params={'self': 'Queue'},
         requires=['QUEUE_ok(self)', 'self.store != None'],
         ensures=['INV_timetable(self)', 'GHOST_ok(self)', 'INV_flight(self)'],
         modifies=['contents(self.queued)', 'contents(self.queued_ids)', 'self.queued', 'self.queued_ids', 'contents(self.active_ids)', 'self.wake.flag', 'contents(self.pending_dequeue)', 'contents(self.attempting)', 'contents(self.pending_retry)'],
         loops={0: dict(inv=['INV_timetable(self)', 'GHOST_ok(self)', 'INV_flight(self)', 'self.store != None']),
                1: dict(inv=['INV_timetable(self)', 'GHOST_ok(self)', 'INV_flight(self)',
                             'forall(range(0, _k), lambda j: _seq1[j][1] in self.queued_ids or _seq1[j][1] in self.active_ids)'],
                        modifies=['contents(self.queued)', 'contents(self.queued_ids)', 'self.wake.flag'])})

# ---------------------------------------------------------------------------- scheduler loop (C12)
# ghost: the scheduler greenlet currently holds the timetable lock that flush() needs
klass('Pool')
klass('Queue', fields={'store_pool': 'Pool', 'relay_pool': 'Pool', 'bounce_pool': 'Pool'})
QSHARED = ['contents(self.queued)', 'contents(self.queued_ids)', 'self.queued', 'self.queued_ids',
           'contents(self.active_ids)', 'self.wake.flag', 'contents(self.pending_dequeue)',
           'contents(self.attempting)', 'contents(self.pending_retry)']

contract('Queue._wait_ready', module=M, props=['C12'], yields=True,
         params={'self': 'Queue', 'now': 'Real'},
         requires=['QUEUE_ok(self)',
                   # lock discipline ("flush() returns without waiting on the scheduler loop"): the scheduler must
                   # not go to sleep while it holds the lock flush() has to take
                   'self.queued_lock != None', 'not self.queued_lock.held'],
         ensures=['INV_timetable(self)', 'GHOST_ok(self)', 'INV_flight(self)'],
         checks=['ncalls("Event.wait") <= 1',
                 # sleeps until the first entry is due, not a moment longer; an empty timetable sleeps until woken
                 'implies(old(len(self.queued)) > 0 and old(self.queued[0][0]) > now, ncalls("Event.wait") == 1 '
                 '        and call_arg("Event.wait", 0, 1) == old(self.queued[0][0]) - now)',
                 'implies(old(len(self.queued)) > 0 and old(self.queued[0][0]) <= now, ncalls("Event.wait") == 0)',
                 'implies(old(len(self.queued)) == 0, ncalls("Event.wait") == 1 and call_arg("Event.wait", 0, 1) is None)'],
         modifies=QSHARED)

contract('Queue._run', module=M, props=['C12'], yields=True,
         params={'self': 'Queue'},
         requires=['QUEUE_ok(self)', 'self.queued_lock != None', 'self.store != None', 'not self.queued_lock.held'],
         ensures=['self.relay == None'],
         modifies=QSHARED + ['self.queued_lock.counter', 'self.queued_lock.held', 'fresh'],
         loops={0: dict(inv=['INV_timetable(self)', 'GHOST_ok(self)', 'INV_flight(self)', 'not self.queued_lock.held'],
                        modifies=QSHARED + ['self.queued_lock.counter', 'self.queued_lock.held', 'fresh'])})

contract('Queue._remove', module=M, props=['C01', 'C03', 'C13'],
         params={'self': 'Queue', 'id': 'Str'},
         requires=['GHOST_ok(self)', 'self.queued_ids != None', 'self.active_ids != None',
                   'self.queued_ids is not self.active_ids'],
         # the attempt for `id` ends here (ghost: it leaves `attempting` together with active_ids)
         ghost_after={'self.active_ids.discard(id)': ['self.attempting.discard(id)']},
         ensures=['id in self.removed', 'id not in self.queued_ids', 'id not in self.active_ids',
                  'id not in self.attempting',
                  'setv(self.removed) == store(old(setv(self.removed)), id, True)',
                  'setv(self.queued_ids) == store(old(setv(self.queued_ids)), id, False)',
                  'setv(self.active_ids) == store(old(setv(self.active_ids)), id, False)',
                  'setv(self.attempting) == store(old(setv(self.attempting)), id, False)'],
         modifies=['contents(self.removed)', 'contents(self.queued_ids)', 'contents(self.active_ids)',
                   'contents(self.attempting)'])

contract('Queue._perm_fail', module=M, props=['C01', 'C13'],
         params={'self': 'Queue', 'id': 'Opt[Str]', 'envelope': 'Envelope', 'reply': 'Reply'},
         requires=['GHOST_ok(self)', 'self.queued_ids != None', 'self.active_ids != None',
                   'self.queued_ids is not self.active_ids', 'envelope != None'],
         ensures=[
             # exactly one bounce greenlet iff the sender is non-empty (null-sender guard)
             'implies(bool(envelope.sender), len(self.bounces) == old(len(self.bounces)) + 1 '
             '        and self.bounces[len(self.bounces) - 1] == (envelope, reply))',
             'implies(not bool(envelope.sender), len(self.bounces) == old(len(self.bounces)))',
             'forall(range(0, old(len(self.bounces))), lambda j: same(self.bounces[j], old(seq(self.bounces))[j]))',
             'implies(id is not None, cast(id, Str) in self.removed and cast(id, Str) not in self.active_ids)',
             'implies(id is None, setv(self.removed) == old(setv(self.removed)) '
             '        and setv(self.active_ids) == old(setv(self.active_ids)) '
             '        and setv(self.queued_ids) == old(setv(self.queued_ids)) '
             '        and setv(self.attempting) == old(setv(self.attempting)))',
             'implies(id is not None, cast(id, Str) not in self.attempting '
             '        and setv(self.queued_ids) == store(old(setv(self.queued_ids)), cast(id, Str), False) '
             '        and setv(self.active_ids) == store(old(setv(self.active_ids)), cast(id, Str), False) '
             '        and setv(self.attempting) == store(old(setv(self.attempting)), cast(id, Str), False))'],
         modifies=['contents(self.removed)', 'contents(self.queued_ids)', 'contents(self.active_ids)',
                   'contents(self.bounces)', 'contents(self.attempting)'])

# ---------------------------------------------------------------------------- bounce grouping (C13)
predicate('GROUPS_ok(groups, envelope, n)',
          # n = number of (recipient, reply) positions already distributed
          'groups != None and is_list(groups) '
          'and forall(groups, lambda g: g[0] != None and g[1] != None and fresh(g[1]) and g[1].recipients != None '
          '           and fresh(g[1].recipients) and is_list(g[1].recipients) and g[1].sender == envelope.sender '
          '           and len(g[1].recipients) >= 1) '
          'and forall(pairs(len(groups)), lambda a, b: groups[a][1] is not groups[b][1] '
          '           and groups[a][1].recipients is not groups[b][1].recipients '
          '           and not (groups[a][0] == groups[b][0]))')

def _arr_zero(st, args):
    return Val(T.parse_type('ArrV[Int]'), z3.K(z3.IntSort(), z3.IntVal(0)))


calls.SPECFUNS['arr_zero'] = _arr_zero
# ghost result of the last _split_by_reply call: recipient position -> index of the group it was put into
klass('Queue', ghost={'sbr_gidx': 'ArrV[Int]', 'sbr_gpos': 'ArrV[Int]'})

contract('Queue._split_by_reply', module=M, props=['C13', 'C01'],
         params={'self': 'Queue', 'envelope': 'Envelope', 'replies': 'Union[Reply, List[Reply]]'},
         returns='List[Tuple[Reply, Envelope]]',
         requires=['envelope != None', 'envelope.recipients != None',
                   'implies(is_type(replies, List[Reply]), '
                   '  len(cast(replies, List[Reply])) >= len(envelope.recipients) '
                   '  and forall(cast(replies, List[Reply]), lambda r: r != None))',
                   'implies(is_type(replies, Reply), cast(replies, Reply) != None)'],
         ensures=['result != None', 'fresh(result)', 'is_list(result)',
                  'implies(is_type(replies, Reply), len(result) == 1 and result[0] == (cast(replies, Reply), envelope))',
                  # one group per distinct reply, fresh unshared envelopes, same sender
                  'implies(is_type(replies, List[Reply]), GROUPS_ok(result, envelope, len(envelope.recipients)))',
                  # every failed recipient is named in the group of its own reply
                  'implies(is_type(replies, List[Reply]), forall(range(0, len(envelope.recipients)), lambda i: '
                  '   implies(trig(i), exists(result, lambda g: g[0] == cast(replies, List[Reply])[i] '
                  '          and envelope.recipients[i] in seq(g[1].recipients))), trigger=lambda i: trig(i)))',
                  # and nobody else: every recipient named in a group failed with that group's reply
                  'implies(is_type(replies, List[Reply]), forall(result, lambda g: forall(g[1].recipients, lambda r: '
                  '   exists(range(0, len(envelope.recipients)), lambda i: envelope.recipients[i] == r '
                  '          and cast(replies, List[Reply])[i] == g[0]))))',
                  'implies(len(envelope.recipients) > 0, len(result) > 0)',
                  # ghost: the group recipient i was put into
                  'implies(is_type(replies, List[Reply]), forall(range(0, len(envelope.recipients)), lambda i: '
                  '   0 <= self.sbr_gidx[i] and self.sbr_gidx[i] < len(result) '
                  '   and result[self.sbr_gidx[i]][0] == cast(replies, List[Reply])[i] '
                  '   and 0 <= self.sbr_gpos[i] and self.sbr_gpos[i] < len(result[self.sbr_gidx[i]][1].recipients) '
                  '   and result[self.sbr_gidx[i]][1].recipients[self.sbr_gpos[i]] == envelope.recipients[i]))',
                  'implies(is_type(replies, Reply), forall(Int, lambda i: self.sbr_gidx[i] == 0 and self.sbr_gpos[i] == i))',
                  # the group replies are the caller's reply objects themselves
                  'implies(is_type(replies, List[Reply]), forall(result, lambda g: '
                  '   exists(range(0, len(envelope.recipients)), lambda i: same(g[0], cast(replies, List[Reply])[i]))))',
                  'seq(envelope.recipients) == old(seq(envelope.recipients))'],
         modifies=['self.sbr_gidx', 'self.sbr_gpos'], locals={'groups': 'List[Tuple[Reply, Envelope]]'},
         # (ghost FIELDS, not ghost locals: the inner loop would havoc ghost locals)
         ghost_entry=['self.sbr_gidx = arr_zero()', 'self.sbr_gpos = arr_ident()'],
         ghost_after={'group_env.recipients.append(rcpt)': ['self.sbr_gidx = store(self.sbr_gidx, i, _k1)',
                                                            'self.sbr_gpos = store(self.sbr_gpos, i, len(group_env.recipients) - 1)'],
                      'groups.append((replies[i], group_env))': ['self.sbr_gidx = store(self.sbr_gidx, i, len(groups) - 1)',
                                                                 'self.sbr_gpos = store(self.sbr_gpos, i, 0)']},
         loops={0: dict(modifies=['fresh', 'self.sbr_gidx', 'self.sbr_gpos'],
                        inv=['GROUPS_ok(groups, envelope, _k)',
                             'fresh(groups)', 'implies(_k > 0, len(groups) > 0)',
                             # where recipient i went (explicit witness for the forall-exists clauses below)
                             'forall(range(0, _k), lambda i: 0 <= self.sbr_gidx[i] and self.sbr_gidx[i] < len(groups))',
                             'forall(range(0, _k), lambda i: groups[self.sbr_gidx[i]][0] == replies[i])',
                             'forall(range(0, _k), lambda i: 0 <= self.sbr_gpos[i] and self.sbr_gpos[i] < len(groups[self.sbr_gidx[i]][1].recipients))',
                             'forall(range(0, _k), lambda i: groups[self.sbr_gidx[i]][1].recipients[self.sbr_gpos[i]] == envelope.recipients[i])',
                             'forall(range(0, _k), lambda i: implies(trig(i), exists(groups, lambda g: g[0] == replies[i] '
                             '       and envelope.recipients[i] in seq(g[1].recipients))), trigger=lambda i: trig(i))',
                             'forall(groups, lambda g: forall(g[1].recipients, lambda r: '
                             '   exists(range(0, _k), lambda i: envelope.recipients[i] == r and replies[i] == g[0])))',
                             'forall(groups, lambda g: exists(range(0, _k), lambda i: same(g[0], replies[i])))']),
                1: dict(modifies=[],
                        inv=['forall(range(0, _k), lambda j: not (replies[i] == groups[j][0]))'])})

# ---------------------------------------------------------------------------- retry / exhaustion
klass('Backoff')
extern('Backoff.__call__', params={'self': 'Backoff', 'envelope': 'Envelope', 'attempts': 'Int'},
       returns='Opt[Real]', notes='backoff(envelope, attempts): any number of seconds or None (C01/C12 quantify over it)')
klass('Queue', fields={'backoff': 'Backoff'})

predicate('QUEUE_ok(q)', 'INV_timetable(q) and GHOST_ok(q) and INV_flight(q) and q.backoff != None')

contract('Queue._retry_later', module=M, props=['C01', 'C12', 'C13', 'C03'], yields=True,
         params={'self': 'Queue', 'id': 'Str', 'envelope': 'Envelope', 'replies': 'Union[Reply, List[Reply]]',
                 'delivered': 'Opt[Set[Int]]'},
         defaults={'delivered': 'None'},
         returns='Bool',
         requires=['QUEUE_ok(self)', 'envelope != None', 'envelope.recipients != None',
                   'id in self.attempting', 'id in self.active_ids', 'id not in self.queued_ids',
                   # the settled positions to persist (partial delivery): positions of the envelope get() returned
                   'implies(delivered is not None, forall(Int, lambda p: implies(p in cast(delivered, Set[Int]), '
                   '        0 <= p and p < self.store.rs_nrcpts[id])))',
                   'implies(is_type(replies, List[Reply]), '
                   '  len(cast(replies, List[Reply])) >= len(envelope.recipients) '
                   '  and forall(cast(replies, List[Reply]), lambda r: r != None and r.message is not None))',
                   'implies(is_type(replies, Reply), cast(replies, Reply) != None and cast(replies, Reply).message is not None)'],
         rely=OWNER_RELY,
         # C03 marks-before-release: the settled positions are persisted while this attempt still owns the id
         # (otherwise an attempt started during the yielding store call would see them again)
         call_requires={'QueueStorage.set_recipients_delivered': ['id in self.active_ids', 'id in self.attempting']},
         # ghost: snapshots taken after the last yield point of the exhausted branch; the attempt ends (leaves
         # `attempting`) where the code releases the id
         ghost_after={'wait = self.backoff(envelope, attempts)': ['_gact = set(self.active_ids)', '_gqid = set(self.queued_ids)',
                                                                  '_grem = set(self.removed)', '_gatt = set(self.attempting)'],
                      'self.active_ids.discard(id)': ['self.attempting.discard(id)']},
         ensures=['INV_timetable(self)', 'GHOST_ok(self)', 'INV_flight(self)',
                  # retry granted: the message is released and scheduled, with the time stamp that was stored
                  'implies(result, id in self.queued_ids and id not in self.active_ids and id not in self.attempting '
                  '        and len(self.bounces) == old(len(self.bounces)))',
                  'implies(result, setv(self.removed) == old(setv(self.removed)))',
                  'implies(result, exists(self.queued, lambda e: e[1] == id and e[0] == self.store.rs_ts[id]))',
                  # ... and, for a partial delivery, with exactly the given positions marked -- once
                  'implies(result and delivered is not None, self.store.last_marked_id == id '
                  '        and self.store.last_marks == setv(cast(delivered, Set[Int])) and self.store.n_marks == old(self.store.n_marks) + 1)',
                  'implies(not result or delivered is None, self.store.n_marks == old(self.store.n_marks))',
                  # retries exhausted: removed, and bounced -- never silently dropped
                  'implies(not result, id in self.removed and id not in self.active_ids and id not in self.attempting '
                  '        and id not in self.queued_ids)',
                  'implies(not result and bool(envelope.sender) and len(envelope.recipients) > 0, '
                  '        len(self.bounces) > old(len(self.bounces)))',
                  'implies(not result and not bool(envelope.sender), len(self.bounces) == old(len(self.bounces)))',
                  # every outstanding recipient is named in a bounce to the original sender -- in the bounce of its own
                  # reply group (sbr_gidx: ghost result of _split_by_reply)
                  'implies(not result and bool(envelope.sender), forall(range(0, len(envelope.recipients)), lambda i: '
                  '   old(len(self.bounces)) + self.sbr_gidx[i] < len(self.bounces) and 0 <= self.sbr_gidx[i] '
                  '   and 0 <= self.sbr_gpos[i] '
                  '   and self.sbr_gpos[i] < len(self.bounces[old(len(self.bounces)) + self.sbr_gidx[i]][0].recipients) '
                  '   and self.bounces[old(len(self.bounces)) + self.sbr_gidx[i]][0].recipients[self.sbr_gpos[i]] == envelope.recipients[i] '
                  '   and self.bounces[old(len(self.bounces)) + self.sbr_gidx[i]][0].sender == envelope.sender))',
                  'forall(range(0, old(len(self.bounces))), lambda j: same(self.bounces[j], old(seq(self.bounces))[j]))'],
         modifies=['contents(self.queued)', 'contents(self.queued_ids)', 'self.queued', 'self.queued_ids', 'contents(self.active_ids)', 'self.wake.flag', 'contents(self.pending_dequeue)', 'contents(self.attempting)', 'contents(self.pending_retry)', 'contents(self.removed)', 'contents(self.bounces)', 'self.sbr_gidx', 'self.sbr_gpos',
                   'self.store.rs_attempts', 'self.store.rs_ts', 'self.store.rs_rcpts', 'self.store.rs_nrcpts',
                   'self.store.last_marks', 'self.store.last_marked_id', 'self.store.n_marks', 'any(Reply).message', 'fresh'],
         loops={0: dict(modifies=['contents(self.bounces)', 'any(Reply).message', 'contents(self.removed)',
                                  'contents(self.queued_ids)', 'contents(self.active_ids)', 'contents(self.attempting)'],
                        inv=['forall(_seq0, lambda g: g[0] != None and g[0].message is not None)',
                             'INV_timetable(self)', 'GHOST_ok(self)', 'INV_flight(self)',
                             '_gact != None and _gqid != None and _grem != None and _gatt != None',
                             'setv(self.removed) == setv(_grem) and setv(self.queued_ids) == setv(_gqid) '
                             'and setv(self.active_ids) == setv(_gact) and setv(self.attempting) == setv(_gatt)',
                             'id in self.attempting and id in self.active_ids and id not in self.queued_ids',
                             'implies(not bool(envelope.sender), len(self.bounces) == old(len(self.bounces)))',
                             'implies(bool(envelope.sender), len(self.bounces) == old(len(self.bounces)) + _k)',
                             'implies(bool(envelope.sender), forall(range(old(len(self.bounces)), len(self.bounces)), lambda b: '
                             '       self.bounces[b][0] is _seq0[b - old(len(self.bounces))][1], trigger=lambda b: self.bounces[b]))',
                             'forall(range(0, old(len(self.bounces))), lambda j: same(self.bounces[j], old(seq(self.bounces))[j]))'])})


# ---------------------------------------------------------------------------- per-recipient results
predicate('settled(v)', 'v is None or isinstance(v, Reply) or isinstance(v, PermanentRelayError)')
predicate('transient(v)', 'isinstance(v, TransientRelayError)')
predicate('permanent(v)', 'isinstance(v, PermanentRelayError)')
predicate('RESULTS_ok(results, envelope)',
          'results != None and envelope != None and envelope.recipients != None '
          'and forall(envelope.recipients, lambda r: dict_has(results, r)) '
          'and forall(dict_keys(results), lambda r: r in seq(envelope.recipients)) '
          'and forall(dict_keys(results), lambda r: implies(isinstance(dict_get(results, r), RelayError), '
          '      allocated(cast(dict_get(results, r), RelayError)) and allocated(cast(dict_get(results, r), RelayError).reply) '
          '      and cast(dict_get(results, r), RelayError).reply != None '
          '      and cast(dict_get(results, r), RelayError).reply.message is not None))')

predicate('MARKED0(q)', 'q.store.n_marks == old(q.store.n_marks)')
predicate('MARKED1(q)', 'q.store.n_marks == old(q.store.n_marks) + 1')
contract('Queue._handle_partial_relay', module=M, props=['C01', 'C03', 'C13'], yields=True,
         params={'self': 'Queue', 'id': 'Str', 'envelope': 'Envelope', 'attempts': 'Int',
                 'results': 'Dict[Str, RcptResult]'},
         requires=['QUEUE_ok(self)', 'RESULTS_ok(results, envelope)',
                   'id in self.attempting', 'id in self.active_ids', 'id not in self.queued_ids',
                   'distinct_by(envelope.recipients, lambda r: r)',
                   'seq(envelope.recipients) == rs_out(self.store, id)'],
         rely=OWNER_RELY,
         # C03 marks-before-release: the settled positions are persisted by _retry_later, which is given them and
         # carries the same obligation; should this function ever mark directly again, it must still own the id
         call_requires={'QueueStorage.set_recipients_delivered': ['id in self.active_ids']},
         ensures=['INV_timetable(self)', 'GHOST_ok(self)', 'INV_flight(self)',
                  'implies(not bool(envelope.sender), len(self.bounces) == old(len(self.bounces)))',
                  'implies(bool(envelope.sender) and exists(envelope.recipients, lambda r: permanent(dict_get(results, r))), '
                  '        len(self.bounces) > old(len(self.bounces)))'],
         checks=[
             # C03 marks-exact: when the message stays queued, exactly the settled positions were marked
             'implies(MARKED1(self), self.store.last_marked_id == id and forall(range(0, len(envelope.recipients)), lambda p: '
             '        (p in self.store.last_marks) == settled(dict_get(results, envelope.recipients[p]))))',
             # C01: otherwise the message has been removed (store.remove called or spawned) ...
             'implies(MARKED0(self), id in self.removed or ncalls("QueueStorage.remove") == 1)',
             # ... and then nobody is left outstanding silently
             'implies(MARKED0(self) and bool(envelope.sender) and exists(envelope.recipients, lambda r: transient(dict_get(results, r))), '
             '        len(self.bounces) > old(len(self.bounces)))',
             'implies(MARKED0(self) and bool(envelope.sender) and exists(envelope.recipients, lambda r: permanent(dict_get(results, r))) '
             '        and exists(envelope.recipients, lambda r: transient(dict_get(results, r))), '
             '        len(self.bounces) > old(len(self.bounces)) + 1)',
             # a message is marked at most once per attempt, and only when some recipient is still outstanding
             'MARKED0(self) or MARKED1(self)',
             'implies(MARKED1(self), exists(envelope.recipients, lambda r: transient(dict_get(results, r))))'],
         modifies=['contents(self.queued)', 'contents(self.queued_ids)', 'self.queued', 'self.queued_ids', 'contents(self.active_ids)', 'self.wake.flag', 'contents(self.pending_dequeue)', 'contents(self.attempting)', 'contents(self.pending_retry)', 'contents(self.removed)', 'contents(self.bounces)', 'self.sbr_gidx', 'self.sbr_gpos', 'self.store.rs_attempts', 'self.store.rs_ts', 'self.store.rs_has', 'self.store.rs_rcpts', 'self.store.rs_nrcpts', 'self.store.last_marks', 'self.store.last_marked_id', 'self.store.n_marks', 'any(Reply).message', 'fresh'],
         locals={'delivered': 'Set[Int]', 'tempfails': 'List[Tuple[Str, Reply]]',
                 'permfails': 'List[Tuple[Str, Reply]]'},
         loops={0: dict(modifies=['fresh'],
                        inv=['delivered != None and tempfails != None and permfails != None',
                             'fresh(delivered) and fresh(tempfails) and fresh(permfails)',
                             'is_list(tempfails) and is_list(permfails) and tempfails is not permfails',
                             'forall(Int, lambda p: (p in delivered) == (0 <= p and p < len(envelope.recipients) '
                             '   and dict_index(results, envelope.recipients[p]) < _k '
                             '   and settled(dict_get(results, envelope.recipients[p]))))',
                             'forall(tempfails, lambda t: t[1] != None and preexisting(t[1]) and t[1].message is not None '
                             '   and dict_has(results, t[0]) and transient(dict_get(results, t[0])))',
                             'forall(permfails, lambda t: t[1] != None and preexisting(t[1]) and t[1].message is not None '
                             '   and dict_has(results, t[0]) and permanent(dict_get(results, t[0])))',
                             'forall(range(0, _k), lambda j: implies(transient(dict_get(results, dict_keys(results)[j])), len(tempfails) > 0))',
                             'forall(range(0, _k), lambda j: implies(permanent(dict_get(results, dict_keys(results)[j])), len(permfails) > 0))',
                             'implies(len(tempfails) > 0, exists(range(0, _k), lambda j: transient(dict_get(results, dict_keys(results)[j]))))']),
                1: dict(modifies=['contents(self.bounces)', 'contents(self.removed)',
                                  'contents(self.queued_ids)', 'contents(self.active_ids)', 'contents(self.attempting)'],
                        inv=['INV_timetable(self)', 'GHOST_ok(self)', 'INV_flight(self)',
                             'id in self.attempting and id in self.active_ids and id not in self.queued_ids',
                             'setv(self.removed) == old(setv(self.removed))',
                             'implies(not bool(envelope.sender), len(self.bounces) == old(len(self.bounces)))',
                             'implies(bool(envelope.sender), len(self.bounces) == old(len(self.bounces)) + _k)',
                             'implies(bool(envelope.sender), forall(range(old(len(self.bounces)), len(self.bounces)), lambda b: '
                             '       self.bounces[b][0] is _seq1[b - old(len(self.bounces))][1], trigger=lambda b: self.bounces[b]))',
                             'forall(range(0, old(len(self.bounces))), lambda j: same(self.bounces[j], old(seq(self.bounces))[j]))'])})

# ---------------------------------------------------------------------------- one delivery attempt (C01)
klass('Relay', ghost={'last_outcome': 'Int'})
# outcome codes of the last Relay._attempt call: 0 None/Reply, 1 mapping, 2 sequence, 3 transient, 4 permanent, 5 other exception
extern('Relay._attempt', params={'self': 'Relay', 'envelope': 'Envelope', 'attempts': 'Int'},
       returns='Union[None, Reply, Dict[Str, RcptResult], List[RcptResult]]', yields=True,
       modifies=['self.last_outcome'],
       raises={'TransientRelayError': ['exc.reply != None', 'exc.reply.message is not None', 'self.last_outcome == 3'],
               'PermanentRelayError': ['exc.reply != None', 'exc.reply.message is not None', 'self.last_outcome == 4'],
               'OtherException': ['self.last_outcome == 5']},
       ensures=['implies(result is None or is_type(result, Reply), self.last_outcome == 0)',
                'implies(is_type(result, Dict[Str, RcptResult]), self.last_outcome == 1 '
                '   and RESULTS_ok(cast(result, Dict[Str, RcptResult]), envelope) and dict_wf(cast(result, Dict[Str, RcptResult])))',
                'implies(is_type(result, List[RcptResult]), self.last_outcome == 2 '
                '   and len(cast(result, List[RcptResult])) == len(envelope.recipients) '
                '   and forall(cast(result, List[RcptResult]), lambda v: implies(isinstance(v, RelayError), '
                '        allocated(cast(v, RelayError)) and allocated(cast(v, RelayError).reply) '
                '        and cast(v, RelayError).reply != None and cast(v, RelayError).reply.message is not None)))',
                'seq(envelope.recipients) == old(seq(envelope.recipients))', 'envelope.sender == old(envelope.sender)'],
       notes='relay result contract (Relay.attempt docstring + C01): None | Reply | mapping keyed by exactly the '
             'recipients | sequence of equal length; raises Transient/Permanent RelayError (with a reply) or '
             'anything else; a RelayError is never the top-level return value; relay policies leave the '
             'recipient list unchanged during the attempt')


def _py_dict(st, args):
    """dict(zip(keys, values)): a fresh dict whose key set is {keys[i] | i < n} and that maps each key
    to the value paired with its LAST occurrence (n = min of the two lengths)."""
    from pyvc import loops
    it = loops.as_iter(st, args[0])
    st.nfresh += 1
    k = z3.Int('k!pd%d' % st.nfresh)
    probe = it.item(k)
    if probe.t.kind != 'xtuple' or len(probe.z) != 2:
        raise Undecided('dict(...) of non-pairs')
    kv, vv = probe.z
    kt, vt = kv.t, vv.t
    ks = T.sort_of(kt)
    ref = st.new_ref('dict')
    d = Val(T.TDict(kt, vt), ref)
    keys = B.seq_fresh(st, ks, 'dk')
    mp = st.fresh(z3.ArraySort(ks, T.sort_of(vt)), 'dm')
    has = st.fresh(z3.ArraySort(ks, z3.BoolSort()), 'dh')
    st.dict_store(ref, kt, vt, keys, mp, has)
    st.assume(st.dict_wf(ref, kt, vt))
    last = z3.Function('last!%d' % st.nfresh, ks, z3.IntSort())
    x = z3.Const('x!pd', ks)
    key_at = lambda kk: z3.substitute(kv.z, (k, kk))
    val_at = lambda kk: z3.substitute(vv.z, (k, kk))
    st.assume(z3.ForAll([k], z3.Implies(z3.And(0 <= k, k < it.n),
                                        z3.And(z3.Select(has, key_at(k)), k <= last(key_at(k)))),
                        patterns=[key_at(k)]))
    st.assume(z3.ForAll([x], z3.Implies(z3.Select(has, x),
                                        z3.And(0 <= last(x), last(x) < it.n, key_at(last(x)) == x,
                                               z3.Select(mp, x) == val_at(last(x)))),
                        patterns=[z3.Select(has, x)]))
    return d


calls.SPECFUNS['py_dict'] = _py_dict


contract('Queue._attempt', module=M, props=['C01', 'C03', 'C13'], yields=True,
         params={'self': 'Queue', 'id': 'Str', 'envelope': 'Envelope', 'attempts': 'Int'},
         requires=['QUEUE_ok(self)', 'self.relay != None', 'envelope != None', 'envelope.recipients != None',
                   'id in self.attempting', 'id in self.active_ids', 'id not in self.queued_ids',
                   'distinct_by(envelope.recipients, lambda r: r)',
                   'seq(envelope.recipients) == rs_out(self.store, id)'],
         rely=OWNER_RELY,
         ensures=['INV_timetable(self)', 'GHOST_ok(self)', 'INV_flight(self)',
             # success for everybody: removed, nothing bounced
             'implies(self.relay.last_outcome == 0, id in self.removed and len(self.bounces) == old(len(self.bounces)))',
             # transient failure: a retry is pending, the message is not removed, nothing is bounced yet
             'implies(self.relay.last_outcome == 3, id in self.pending_retry and len(self.bounces) == old(len(self.bounces)) '
             '        and setv(self.removed) == old(setv(self.removed)))',
             # permanent failure: removed, and bounced iff there is a sender
             'implies(self.relay.last_outcome == 4, id in self.removed '
             '        and len(self.bounces) == old(len(self.bounces)) + ite(bool(envelope.sender), 1, 0))',
             'implies(self.relay.last_outcome == 4 and bool(envelope.sender), '
             '        self.bounces[len(self.bounces) - 1][0] is envelope)'],
         raises={'OtherException': [
             # unexpected exception: treated as transient (retry pending), then propagated
             'self.relay.last_outcome == 5', 'id in self.pending_retry',
             'setv(self.removed) == old(setv(self.removed))', 'len(self.bounces) == old(len(self.bounces))']},
         modifies=['contents(self.queued)', 'contents(self.queued_ids)', 'self.queued', 'self.queued_ids', 'contents(self.active_ids)', 'self.wake.flag', 'contents(self.pending_dequeue)', 'contents(self.attempting)', 'contents(self.pending_retry)', 'contents(self.removed)', 'contents(self.bounces)', 'self.sbr_gidx', 'self.sbr_gpos', 'self.relay.last_outcome',
                   'self.store.rs_attempts', 'self.store.rs_ts', 'self.store.rs_has', 'self.store.rs_rcpts', 'self.store.rs_nrcpts', 'self.store.last_marks', 'self.store.last_marked_id', 'self.store.n_marks', 'any(Reply).message', 'fresh'])

contract('Queue._dequeue', module=M, props=['C03', 'C12'], yields=True,
         params={'self': 'Queue', 'id': 'Str'},
         requires=['QUEUE_ok(self)', 'self.store != None'],
         ensures=['INV_timetable(self)', 'GHOST_ok(self)', 'INV_flight(self)'],
         checks=[
             # an attempt is started only for a message that still exists, at most once, and its id is marked
             # active in the same atomic block (the spawn obligations `not-already-in-flight` / `marked-active`
             # are proved at the _pool_spawn call)
             'ncalls("Queue._pool_spawn") <= 1',
             'implies(ncalls("Queue._pool_spawn") == 1, id in self.attempting and id in self.active_ids)'],
         modifies=['contents(self.queued)', 'contents(self.queued_ids)', 'self.queued', 'self.queued_ids', 'contents(self.active_ids)', 'self.wake.flag', 'contents(self.pending_dequeue)', 'contents(self.attempting)', 'contents(self.pending_retry)', 'fresh'])

# ---------------------------------------------------------------------------- enqueue (C02, C03)
T.alias('WriteResult', 'Union[Str, QueueError, OtherException]')
klass('QueuePolicy')
klass('Queue', fields={'queue_policies': 'List[QueuePolicy]'},
      ghost={'last_written': 'List[Envelope]'})


extern('Queue._run_policies#call', params={'self': 'Queue', 'envelope': 'Envelope'})

contract('Queue.enqueue', module=M, props=['C02', 'C03'], yields=True,
         params={'self': 'Queue', 'envelope': 'Envelope'},
         returns='List[Tuple[Envelope, WriteResult]]',
         requires=['QUEUE_ok(self)', 'envelope != None', 'self.store != None',
                   'self.queue_policies != None', 'forall(self.queue_policies, lambda p: p != None)',
                   'INV_flight(self)'],
         ensures=['result != None',
                  # outcomes are ids or QueueErrors (anything else was re-raised)
                  'forall(range(0, len(result)), lambda k: isinstance(result[k][1], str) or isinstance(result[k][1], QueueError))',
                  # C03: an attempt is started only for ids not already active, and the id is marked active
                  'forall(range(0, len(result)), lambda k: implies(isinstance(result[k][1], str) and self.relay != None, '
                  '       cast(result[k][1], Str) in self.active_ids))',
                  'INV_flight(self)'],
         checks=[
             # one result per envelope the policies produced, each envelope paired with the outcome of ITS write
             'len(result) == len(call_result("Queue._run_policies", 0))',
             'forall(range(0, len(result)), lambda k: result[k][0] is call_result("Queue._run_policies", 0)[k] '
             '       and result[k][1] == call_result("Queue._pool_imap", 0)[k])',
             'same(call_arg("Queue._pool_imap", 0, 3), call_result("Queue._run_policies", 0))'
             if False else 'True'],
         raises={'OtherException': []},
         modifies=['contents(self.queued)', 'contents(self.queued_ids)', 'self.queued', 'self.queued_ids', 'contents(self.active_ids)', 'self.wake.flag', 'contents(self.pending_dequeue)', 'contents(self.attempting)', 'contents(self.pending_retry)', 'envelope.*', 'fresh', 'any(SpawnedGreenlet).done'],
         loops={0: dict(modifies=['contents(self.active_ids)', 'contents(self.attempting)'],
                        inv=['INV_flight(self)',
                             'forall(range(0, _k), lambda k: isinstance(results[k][1], str) or isinstance(results[k][1], QueueError))',
                             'forall(range(0, _k), lambda k: implies(isinstance(results[k][1], str) and self.relay != None, '
                             '       cast(results[k][1], Str) in self.active_ids))',
                             'GHOST_ok(self)', 'INV_timetable(self)'])})


# ---------------------------------------------------------------------------- queue policies chain (C16)
extern('QueuePolicy.apply', params={'self': 'QueuePolicy', 'envelope': 'Envelope'},
       returns='Opt[List[Envelope]]', modifies=['envelope.*', 'fresh'],
       ensures=['implies(result != None, fresh(result) and is_list(result) and distinct_by(result, lambda e: e) '
                '        and forall(result, lambda e: e != None and (e is envelope or fresh(e))))'],
       notes='abstract queue policy (C16 proves this contract for each built-in policy): returns a falsy value, or a '
             'new list of envelopes each of which is the input envelope or a new object')

contract('Queue._run_policies.recurse', module=M, props=['C16'],
         params={'current': 'Envelope', 'i': 'Int', 'self': 'Queue', 'results': 'List[Envelope]'},
         requires=['results != None', 'is_list(results)', 'current != None', 'current in seq(results)',
                   'forall(results, lambda e: allocated(e))',
                   'self.queue_policies != None', 'forall(self.queue_policies, lambda p: p != None)', 'i >= 0',
                   'self.queue_policies is not results'],
         ensures=[
             # only `current` may be replaced: every other envelope already produced stays in the result list
             'forall(range(0, old(len(results))), lambda k: implies(old(seq(results))[k] is not current, '
             '       old(seq(results))[k] in seq(results)))',
             'forall(results, lambda e: allocated(e))'],
         modifies=['contents(results)', 'current.*', 'fresh'],
         loops={0: dict(modifies=['contents(results)', 'current.*', 'fresh'],
                        inv=['results != None and is_list(results) and ret != None and ret is not results',
                             'forall(range(0, old(len(results))), lambda k: implies(old(seq(results))[k] is not current, '
                             '       old(seq(results))[k] in seq(results)))',
                             'forall(range(_k, len(ret)), lambda j: ret[j] in seq(results))',
                             'forall(ret, lambda e: e != None and (e is current or fresh(e)))',
                             'forall(results, lambda e: allocated(e))',
                             'distinct_by(ret, lambda e: e)',
                             'self.queue_policies != None and forall(self.queue_policies, lambda p: p != None) '
                             'and self.queue_policies is not results'])})

contract('Queue._run_policies', module=M, props=['C16', 'C02'],
         params={'self': 'Queue', 'envelope': 'Envelope'},
         returns='List[Envelope]',
         requires=['envelope != None', 'self.queue_policies != None', 'forall(self.queue_policies, lambda p: p != None)'],
         ensures=['result != None', 'fresh(result)', 'is_list(result)',
                  'forall(result, lambda e: allocated(e))'],
         modifies=['envelope.*', 'fresh'])


# ---------------------------------------------------------------------------- bounce hand-over (C13)
klass('BounceFactory')
extern('BounceFactory.__call__', params={'self': 'BounceFactory', 'envelope': 'Envelope', 'reply': 'Reply'},
       returns='Opt[Envelope]', ensures=['implies(result != None, fresh(result))'],
       notes='bounce_factory(envelope, reply): a new Bounce (an Envelope) or None (C13 quantifies over custom factories)')
klass('Queue', fields={'bounce_factory': 'BounceFactory'})
klass('AnyQueue')
extern('AnyQueue.enqueue', params={'self': 'AnyQueue', 'envelope': 'Envelope'}, returns='Any', yields=True,
       notes='bounce_queue.enqueue(bounce): the normal enqueue path of the configured bounce queue (Queue.enqueue has its own contract)')
klass('Queue', fields={'bounce_queue': 'AnyQueue'})

contract('Queue._bounce', module=M, props=['C13'], yields=True,
         params={'self': 'Queue', 'envelope': 'Envelope', 'reply': 'Reply'},
         returns='Any',
         requires=['QUEUE_ok(self)', 'self.bounce_factory != None', 'self.bounce_queue != None'],
         ensures=['ncalls("BounceFactory.__call__") == 1',
                  'same(call_arg("BounceFactory.__call__", 0, 1), envelope) and same(call_arg("BounceFactory.__call__", 0, 2), reply)',
                  # handed to the configured bounce queue exactly once iff the factory produced a bounce
                  'ncalls("AnyQueue.enqueue") == ite(call_result("BounceFactory.__call__", 0) != None, 1, 0)',
                  'implies(ncalls("AnyQueue.enqueue") == 1, '
                  '   same(call_arg("AnyQueue.enqueue", 0, 0), self.bounce_queue) '
                  '   and same(call_arg("AnyQueue.enqueue", 0, 1), call_result("BounceFactory.__call__", 0)))'],
         modifies=['contents(self.queued)', 'contents(self.queued_ids)', 'self.queued', 'self.queued_ids', 'contents(self.active_ids)', 'self.wake.flag', 'contents(self.pending_dequeue)', 'contents(self.attempting)', 'contents(self.pending_retry)'])

# ---------------------------------------------------------------------------- _pool_imap (C02: waits for every write)
klass('Spawner')
global_object('gevent', 'Spawner')
klass('SpawnedGreenlet', ghost={'index': 'Int', 'done': 'Bool'},
      fields={'exception': 'Union[None, QueueError, OtherException]', 'value': 'Str'})
extern('SpawnedGreenlet.join', params={'self': 'SpawnedGreenlet'}, yields=True, modifies=['self.done'],
       ensures=['self.done'], notes='Greenlet.join(): returns when the greenlet has finished; value/exception are then final')
extern('gevent.iwait', params={'objects': 'List[SpawnedGreenlet]'}, returns='List[SpawnedGreenlet]', yields=True,
       modifies=['any(SpawnedGreenlet).done'],
       ensures=['result != None', 'fresh(result)', 'len(result) == len(objects)',
                'forall(result, lambda g: g != None and g.done and g in seq(objects))'],
       notes='gevent.iwait(objects): yields the objects in COMPLETION order')


def _py_map(st, args):
    f = args[0]
    if f.t.kind != 'fn' or f.z.kind != 'bound' or f.z.name != 'spawn':
        raise Undecided('map() of %r' % (f,))
    from pyvc import loops
    its = [a for a in args[1:] if a.t.kind != 'repeat']
    if len(its) != 1:
        raise Undecided('map(spawn, ...) with %d finite iterables' % len(its))
    src, _ = B.seq_of(st, its[0])
    gt = T.TRef('SpawnedGreenlet')
    r = B.seq_fresh(st, T.sort_of(gt), 'threads')
    k = z3.Int('k!map')
    j = z3.Int('j!map')
    g = z3.Select(r.arr, k)
    st.assume(r.n == src.n)
    idx = st.H('SpawnedGreenlet.index', z3.ArraySort(z3.IntSort(), z3.IntSort()))
    st.assume(z3.ForAll([k], z3.Implies(z3.And(0 <= k, k < r.n),
                                        z3.And(g >= st.alloc, z3.Select(idx, g) == k,
                                               B.TYPEOF(g) == R_CLASSES()['SpawnedGreenlet'].tag)),
                        patterns=[g]))
    st.assume(z3.ForAll([k, j], z3.Implies(z3.And(0 <= k, k < j, j < r.n), z3.Select(r.arr, k) != z3.Select(r.arr, j)),
                        patterns=[z3.MultiPattern(z3.Select(r.arr, k), z3.Select(r.arr, j))]))
    st.bump_alloc()
    st.assume(z3.ForAll([k], z3.Implies(z3.And(0 <= k, k < r.n), g < st.alloc), patterns=[g]))
    ref = st.new_ref('list')
    st.list_store(ref, gt, r)
    return Val(T.TList(gt), ref)


def R_CLASSES():
    from pyvc import registry
    return registry.CLASSES


calls.SPECFUNS['py_map'] = _py_map

contract('Queue._pool_imap', module=M, props=['C02'], yields=True,
         params={'self': 'Queue', 'which': 'Str', 'func': 'Fn', '*iterables': 'Tuple[List[Envelope]]'},
         returns='List[WriteResult]',
         requires=['iterables[0] != None', 'QUEUE_ok(self)'],
         ensures=['result != None', 'fresh(result)', 'len(result) == len(iterables[0])',
                  'INV_timetable(self)', 'GHOST_ok(self)', 'INV_flight(self)'],
         checks=[
             # every write was joined before returning, and element k is the outcome of the k-th write
             'forall(range(0, len(result)), lambda k: threads[k].done and threads[k].index == k)',
             'forall(range(0, len(result)), lambda k: result[k] == (threads[k].value if threads[k].exception is None '
             '       else threads[k].exception))'],
         locals={'ret': 'List[WriteResult]'},
         modifies=['fresh', 'any(SpawnedGreenlet).done', 'contents(self.queued)', 'contents(self.queued_ids)', 'self.queued', 'self.queued_ids', 'contents(self.active_ids)', 'self.wake.flag', 'contents(self.pending_dequeue)', 'contents(self.attempting)', 'contents(self.pending_retry)'],
         loops={0: dict(modifies=['fresh', 'any(SpawnedGreenlet).done', 'contents(self.queued)', 'contents(self.queued_ids)', 'self.queued', 'self.queued_ids', 'contents(self.active_ids)', 'self.wake.flag', 'contents(self.pending_dequeue)', 'contents(self.attempting)', 'contents(self.pending_retry)'],
                        inv=['INV_timetable(self)', 'GHOST_ok(self)', 'INV_flight(self)',
                             'ret != None and fresh(ret) and is_list(ret) and len(ret) == _k and threads is not ret',
                             'forall(range(0, len(threads)), lambda k: threads[k] != None and threads[k].index == k)',
                             'forall(range(0, _k), lambda k: threads[k].done)',
                             'forall(range(0, _k), lambda k: ret[k] == (threads[k].value if threads[k].exception is None '
                             '       else threads[k].exception))'])})
extern('Spawner.spawn', params={'self': 'Spawner', 'func': 'Fn', '*args': 'Args0'}, returns='SpawnedGreenlet')
