"""Back ends: one SMT query per obligation.  z3 (Python API) first, then cvc5
(CLI, SMT-LIB text) for what z3 leaves unknown.  `unknown` / timeouts are never
mapped to a violation and never to a pass."""
import os
import subprocess
import tempfile
import time

import z3

Z3_TIMEOUT_MS = int(os.environ.get('PYVC_Z3_MS', '8000'))
CVC5_TIMEOUT_MS = int(os.environ.get('PYVC_CVC5_MS', '15000'))
CVC5 = '/usr/bin/cvc5'


def _solver(timeout, mbqi=True):
    s = z3.Solver()
    s.set('timeout', timeout)
    if not mbqi:
        s.set('smt.mbqi', False)
        s.set('auto_config', False)
    return s


def uses_strings(terms):
    seen = set()
    todo = list(terms)
    while todo:
        x = todo.pop()
        i = x.get_id()
        if i in seen:
            continue
        seen.add(i)
        if z3.is_quantifier(x):
            todo.append(x.body())
            continue
        try:
            if x.sort().kind() in (z3.Z3_SEQ_SORT, z3.Z3_RE_SORT):
                return True
        except Exception:
            pass
        todo.extend(x.children())
    return False


def discharge(ob, tier='quick'):
    """Sets ob.status in {'proved','refuted','unknown','trivial'}, ob.backend, ob.time, ob.model."""
    if ob.status == 'trivial':
        ob.backend = 'simplifier'
        return ob
    scale = {'quick': 1, 'thorough': 4, 'retry': 3}.get(tier, 1)
    t0 = time.time()
    neg = z3.Not(ob.goal)
    attempts = [('z3', True, Z3_TIMEOUT_MS * scale), ('z3-ematch', False, Z3_TIMEOUT_MS * scale)]
    last_model = None
    for name, mbqi, to in attempts:
        s = _solver(to, mbqi)
        for p in ob.pc:
            s.add(p)
        s.add(neg)
        r = s.check()
        if r == z3.unsat:
            ob.status, ob.backend = 'proved', name
            ob.time = time.time() - t0
            return ob
        if r == z3.sat:
            ob.status, ob.backend = 'refuted', name
            try:
                ob.model = s.model()
            except Exception:
                ob.model = None
            ob.time = time.time() - t0
            return ob
        ob.detail = s.reason_unknown()
    # cvc5 on the SMT-LIB rendering
    r = run_cvc5(ob.pc + [neg], CVC5_TIMEOUT_MS * scale)
    if r == 'unsat':
        ob.status, ob.backend = 'proved', 'cvc5'
    elif r == 'sat':
        ob.status, ob.backend = 'refuted', 'cvc5'
    else:
        ob.status, ob.backend = 'unknown', 'z3+cvc5'
    ob.time = time.time() - t0
    return ob


def to_smt2(assertions):
    s = z3.Solver()
    for a in assertions:
        s.add(a)
    txt = s.to_smt2()
    return '(set-logic ALL)\n' + txt


def run_cvc5(assertions, timeout_ms):
    try:
        txt = to_smt2(assertions)
    except Exception:
        return 'unknown'
    if 'PyVal' in txt and False:
        return 'unknown'
    with tempfile.NamedTemporaryFile('w', suffix='.smt2', delete=False, dir=os.environ.get('PYVC_TMP', None)) as f:
        f.write(txt)
        path = f.name
    try:
        args = [CVC5, '--strings-exp', '--tlimit=%d' % timeout_ms, path]
        p = subprocess.run(args, capture_output=True, text=True, timeout=timeout_ms / 1000.0 + 5)
        out = p.stdout.strip().split('\n')[0] if p.stdout.strip() else ''
        if out in ('sat', 'unsat'):
            return out
        return 'unknown'
    except Exception:
        return 'unknown'
    finally:
        try:
            os.unlink(path)
        except OSError:
            pass


def smt2_head(ob, limit=1200):
    try:
        txt = to_smt2(ob.pc + [z3.Not(ob.goal)])
    except Exception as e:
        return 'unprintable: %s' % e
    return txt[-limit:]
