"""Back ends: one SMT query per obligation.  z3 (Python API) first, then cvc5
(CLI, SMT-LIB text) for what z3 leaves unknown.  `unknown` / timeouts are never
mapped to a violation and never to a pass."""
import os
import subprocess
import tempfile
import time

import z3

Z3_TIMEOUT_MS = int(os.environ.get('PYVC_Z3_MS', '10000'))
CVC5_TIMEOUT_MS = int(os.environ.get('PYVC_CVC5_MS', '20000'))
CVC5 = '/usr/bin/cvc5'


def _solver(timeout, mbqi=True, seed=0):
    s = z3.Solver()
    s.set('timeout', timeout)
    if seed:
        s.set('random_seed', seed)
        s.set('smt.random_seed', seed)
    if not mbqi:
        s.set('smt.mbqi', False)
        s.set('auto_config', False)
    return s


def uses_strings(terms):
    seen = set()
    todo = list(terms)
    while todo:
        x = todo.pop()
        i = x.get_id()
        if i in seen:
            continue
        seen.add(i)
        if z3.is_quantifier(x):
            todo.append(x.body())
            continue
        try:
            if x.sort().kind() in (z3.Z3_SEQ_SORT, z3.Z3_RE_SORT):
                return True
        except Exception:
            pass
        todo.extend(x.children())
    return False


import re as _re

_COMMON = {'typeof', 'alloc0'}


def _symbols(t, cache):
    i = t.get_id()
    if i in cache:
        return cache[i]
    out = set()
    seen = set()
    todo = [t]
    while todo:
        x = todo.pop()
        xi = x.get_id()
        if xi in seen:
            continue
        seen.add(xi)
        if z3.is_quantifier(x):
            todo.append(x.body())
            continue
        if z3.is_app(x):
            d = x.decl()
            if d.kind() == z3.Z3_OP_UNINTERPRETED:
                nm = _re.sub(r'^H\d+_', 'H_', d.name())
                nm = _re.sub(r'!\d+$', '', nm) if nm.startswith(('hv', 'alloc', 'new_', 'ret_')) else nm
                if nm not in _COMMON:
                    out.add(nm)
            todo.extend(x.children())
    cache[i] = out
    return out


def _has_q(e):
    seen = set()
    todo = [e]
    while todo:
        x = todo.pop()
        if z3.is_quantifier(x):
            return True
        if x.get_id() in seen:
            continue
        seen.add(x.get_id())
        todo.extend(x.children())
    return False


def relevant_subsets(pc, goal, levels=(1, 2, 3)):
    """Subsets of the hypotheses: ALL quantifier-free ones plus the quantified ones within a given distance
    of the goal in the symbol co-occurrence graph (heap arrays identified up to their havoc epoch; symbols that
    occur in most quantified hypotheses do not count as links).  Proving from a SUBSET of the hypotheses is
    sound; it only lets the solver ignore invariants that were re-assumed at every yield point but have nothing
    to do with the goal."""
    cache = {}
    qidx = [i for i, p in enumerate(pc) if _has_q(p)]
    if len(qidx) < 8:
        return []
    qf = [i for i in range(len(pc)) if i not in set(qidx)]
    syms = {i: _symbols(pc[i], cache) for i in qidx}
    freq = {}
    for i in qidx:
        for x in syms[i]:
            freq[x] = freq.get(x, 0) + 1
    hubs = set(x for x, n in freq.items() if n > 0.3 * len(qidx))
    hubs |= set(x for x in freq if x.startswith(('self!', 'hv', 'alloc', 'new_', 'ret_', 'H_$llen', 'H_$larr', 'H_$set',
                                                 'H_$dlen', 'H_$dkeys', 'H_$dmap', 'H_$dhas')))
    cur = set(_symbols(goal, cache)) - hubs
    if z3.is_false(goal):
        # "this path is infeasible": the facts that matter are the latest branch decisions
        for p in pc[-6:]:
            cur |= set(_symbols(p, cache)) - hubs
    # frame / length axioms of the shared container arrays mention hub symbols only: always kept
    chosen = [i for i in qidx if not (syms[i] - hubs)]
    out = []
    for lvl in range(max(levels)):
        new = [i for i in qidx if i not in chosen and (syms[i] - hubs) & cur]
        if not new:
            break
        chosen.extend(new)
        for i in new:
            cur |= (syms[i] - hubs)
        if (lvl + 1) in levels and len(chosen) < len(qidx):
            out.append(sorted(qf + chosen))
    return out


def discharge(ob, tier='quick'):
    """Sets ob.status in {'proved','refuted','unknown','trivial'}, ob.backend, ob.time, ob.model."""
    if ob.status == 'trivial':
        ob.backend = 'simplifier'
        return ob
    scale = {'quick': 1, 'thorough': 4, 'retry': 2}.get(tier, 1)
    t0 = time.time()
    neg = z3.Not(ob.goal)
    full = Z3_TIMEOUT_MS * scale
    if tier == 'expected-fail':
        s = _solver(Z3_TIMEOUT_MS, True)
        for p in ob.pc:
            s.add(p)
        s.add(neg)
        r = s.check()
        ob.status = 'proved' if r == z3.unsat else ('refuted' if r == z3.sat else 'unknown')
        ob.backend = 'z3'
        if r == z3.sat:
            try:
                ob.model = s.model()
            except Exception:
                ob.model = None
        ob.time = time.time() - t0
        return ob
    quickto = max(1000, full // 3)
    subsets = relevant_subsets(ob.pc, ob.goal) if len(ob.pc) > 40 else []
    # a short attempt on the whole path condition first (most obligations need well under a second), then the
    # relevance-filtered hypothesis sets, then the whole path condition again with the full budget
    attempts = [('z3', True, quickto if subsets else full)]
    last_model = None
    first = True
    for name, mbqi, to in attempts:
        s = _solver(to, mbqi)
        for p in ob.pc:
            s.add(p)
        s.add(neg)
        r = s.check()
        if r == z3.unsat:
            ob.status, ob.backend = 'proved', name
            ob.time = time.time() - t0
            return ob
        if r == z3.sat:
            ob.status, ob.backend = 'refuted', name
            try:
                ob.model = s.model()
            except Exception:
                ob.model = None
            ob.time = time.time() - t0
            return ob
        ob.detail = s.reason_unknown()
    # a retry additionally varies the solver's random seed: an `unknown` is a search that did not finish,
    # and a different search order over the same (sub)set of hypotheses is as sound as the first
    tried_cvc5 = False
    if uses_strings(ob.pc + [ob.goal]):
        # string / sequence reasoning: cvc5 decides most of what z3's seq solver leaves open -- ask it early
        tried_cvc5 = True
        r = run_cvc5(ob.pc + [neg], CVC5_TIMEOUT_MS * scale)
        if r == 'unsat':
            ob.status, ob.backend = 'proved', 'cvc5'
            ob.time = time.time() - t0
            return ob
    for sub, seed in [(sub, seed) for seed in ((0, 11) if tier == 'retry' else (0,)) for sub in subsets]:
        s = _solver(max(quickto, full // 2), True, seed)
        for i in sub:
            s.add(ob.pc[i])
        s.add(neg)
        if s.check() == z3.unsat:
            ob.status, ob.backend = 'proved', 'z3-relevant'
            ob.hyps = (len(sub), len(ob.pc))
            ob.time = time.time() - t0
            return ob
    attempts = ([('z3', True, full)] if subsets else []) + [('z3-ematch', False, full)]
    for name, mbqi, to in attempts:
        s = _solver(to, mbqi)
        for p in ob.pc:
            s.add(p)
        s.add(neg)
        r = s.check()
        if r == z3.unsat:
            ob.status, ob.backend = 'proved', name
            ob.time = time.time() - t0
            return ob
        if r == z3.sat:
            ob.status, ob.backend = 'refuted', name
            try:
                ob.model = s.model()
            except Exception:
                ob.model = None
            ob.time = time.time() - t0
            return ob
        ob.detail = s.reason_unknown()
    # cvc5 on the SMT-LIB rendering
    r = run_cvc5(ob.pc + [neg], CVC5_TIMEOUT_MS * scale) if not tried_cvc5 else 'unknown'
    if r == 'unsat':
        ob.status, ob.backend = 'proved', 'cvc5'
    elif r == 'sat':
        ob.status, ob.backend = 'refuted', 'cvc5'
    else:
        ob.status, ob.backend = 'unknown', 'z3+cvc5'
        if z3.is_false(ob.goal):
            # a discipline obligation (missing timeout scope, yield inside a function declared atomic, write
            # outside every frame): violated iff the path is reachable.  The executor only follows branches whose
            # quantifier-free condition is satisfiable; confirm that once more and report the path as reachable.
            s = _solver(Z3_TIMEOUT_MS, True)
            for p in ob.pc:
                if not _has_q(p):
                    s.add(p)
            if s.check() == z3.sat:
                ob.status, ob.backend = 'refuted', 'z3 (path reachable: quantifier-free path condition satisfiable)'
                try:
                    ob.model = s.model()
                except Exception:
                    ob.model = None
    ob.time = time.time() - t0
    return ob


def to_smt2(assertions):
    s = z3.Solver()
    for a in assertions:
        s.add(a)
    txt = s.to_smt2()
    return '(set-logic ALL)\n' + txt


def run_cvc5(assertions, timeout_ms):
    try:
        txt = to_smt2(assertions)
    except Exception:
        return 'unknown'
    if 'PyVal' in txt and False:
        return 'unknown'
    with tempfile.NamedTemporaryFile('w', suffix='.smt2', delete=False, dir=os.environ.get('PYVC_TMP', None)) as f:
        f.write(txt)
        path = f.name
    try:
        args = [CVC5, '--strings-exp', '--tlimit=%d' % timeout_ms, path]
        p = subprocess.run(args, capture_output=True, text=True, timeout=timeout_ms / 1000.0 + 5)
        out = p.stdout.strip().split('\n')[0] if p.stdout.strip() else ''
        if out in ('sat', 'unsat'):
            return out
        return 'unknown'
    except Exception:
        return 'unknown'
    finally:
        try:
            os.unlink(path)
        except OSError:
            pass


def smt2_head(ob, limit=1200):
    try:
        txt = to_smt2(ob.pc + [z3.Not(ob.goal)])
    except Exception as e:
        return 'unprintable: %s' % e
    return txt[-limit:]
