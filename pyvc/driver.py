"""Property-level driver: runs every function under contract that a property
depends on, classifies the outcome, writes evidence and replay files.

Exit codes: 0 held / 1 VIOLATION / 2 undecided / 3 checker error."""
import importlib
import json
import multiprocessing
import os
import re
import subprocess
import sys
import time
import hashlib
import glob

HERE = os.path.dirname(os.path.dirname(os.path.abspath(__file__)))
sys.path.insert(0, HERE)

from . import registry as R
from . import frontend as F
from . import monitor as _monitor  # installs the G2 yield hook

CONTRACT_MODULES = None


def load_contracts():
    global CONTRACT_MODULES
    if CONTRACT_MODULES is not None:
        return
    CONTRACT_MODULES = []
    R.CURRENT_FILE[0] = 'prelude'
    import contracts.prelude  # noqa
    for path in sorted(glob.glob(os.path.join(HERE, 'contracts', '*.py'))):
        name = os.path.basename(path)[:-3]
        if name in ('__init__', 'prelude'):
            continue
        R.CURRENT_FILE[0] = name
        CONTRACT_MODULES.append(importlib.import_module('contracts.' + name))
    R.CURRENT_FILE[0] = None
    # a verified (repo) contract silently replaced by a later file would drop its obligations: refuse that
    bad = [o for o in R.OVERRIDES if o[3] == 'repo']
    if bad:
        raise RuntimeError('contract files override verified contracts: %r' % (bad,))


_OBS = []      # (function index, Obligation) -- inherited by the forked discharge workers


def _explore(key, tier, extra):
    from . import verify
    c = R.CONTRACTS[key]
    saved = list(c.free_requires)
    if extra:
        c.free_requires = saved + list(extra)
    try:
        return verify.verify_function(key, tier, keep_terms=True, discharge=False)
    finally:
        c.free_requires = saved


def _discharge(i):
    from . import smt, verify
    fi, ob, tier = _OBS[i]
    smt.discharge(ob, tier)
    return i, verify.obligation_record(ob)


def _explore_proc(args):
    """Exploration + discharge of one function inside a worker (used when there are many functions)."""
    key, tier, extra = args
    from . import verify, smt
    r = _explore(key, tier, extra)
    recs = []
    for ob in (r.raw or []):
        smt.discharge(ob, tier)
        recs.append(verify.obligation_record(ob))
    return _pack(r, recs)


def _pack(r, recs):
    return dict(key=r.key, status=r.status, reason=r.reason, obligations=recs,
                paths=r.paths, exits=r.exits, sha=r.sha, file=r.file, lineno=r.lineno,
                time=round(r.time, 3), used=list(getattr(r, 'used', []) or []),
                partial=getattr(r, 'partial', None))


def verify_record(ob):
    from . import verify
    return verify.obligation_record(ob)


def run_functions(keys, tier, extra=None, procs=None, expected_fail=()):
    """Explore every function (sequential, seconds), then discharge all obligations of all
    functions on a pool of forked workers that inherit the z3 terms: one query per obligation."""
    global _OBS
    extra = extra or {}
    results = []
    _OBS = []
    for fi, k in enumerate(keys):
        r = _explore(k, tier, extra.get(k))
        results.append(r)
        for ob in (r.raw or []):
            # obligations recorded as open known findings are expected to stay unproved: one short attempt
            # (if the defect is repaired they prove at once), no escalation, no retry
            exp = any(fk == k and re.fullmatch(pat, ob.label) for fk, pat in expected_fail)
            _OBS.append((fi, ob, 'expected-fail' if exp else tier))
    recs = [[] for _ in keys]
    procs = procs or 16
    todo = [i for i, (fi, ob, t) in enumerate(_OBS) if ob.status != 'trivial']
    done = {}
    for i, (fi, ob, t) in enumerate(_OBS):
        if ob.status == 'trivial':
            ob.backend = 'simplifier'
    if todo:
        if procs == 1 or len(todo) < 3:
            for i in todo:
                done[i] = _discharge(i)[1]
        else:
            ctx = multiprocessing.get_context('fork')
            pool = ctx.Pool(min(procs, len(todo)))
            try:
                it = pool.imap_unordered(_discharge, todo, chunksize=1)
                while True:
                    try:
                        # every query has its own solver time-out; a worker that still does not answer for ten
                        # minutes is hung: its obligations stay undecided instead of hanging the check
                        i, rec = it.next(timeout=600)
                    except StopIteration:
                        break
                    except multiprocessing.TimeoutError:
                        print('NOTE a discharge worker did not answer within 600 s: remaining obligations left unknown')
                        break
                    done[i] = rec
            finally:
                pool.terminate()
                pool.join()
            for i in todo:
                if i not in done:
                    fi, ob, t = _OBS[i]
                    ob.status, ob.backend, ob.detail = 'unknown', 'none', 'discharge worker hung'
                    done[i] = verify_record(ob)
    from . import verify, smt
    # an `unknown` may be a time-out under load: retry alone, one after the other, with a 6x budget,
    # before anything is made of it
    retry = [i for i in todo if done[i]['status'] == 'unknown' and _OBS[i][2] != 'expected-fail']
    if retry and len(retry) <= 8:
        for i in retry:
            fi, ob, t = _OBS[i]
            ob.status = None
            _OBS[i] = (fi, ob, 'retry')
        ctx = multiprocessing.get_context('fork')
        with ctx.Pool(min(procs, len(retry))) as pool:
            for i, rec in pool.imap_unordered(_discharge, retry, chunksize=1):
                rec['retried'] = True
                done[i] = rec
    for i, (fi, ob, t) in enumerate(_OBS):
        recs[fi].append(done[i] if i in done else verify.obligation_record(ob))
    out = []
    for r, rc in zip(results, recs):
        if r.status == 'ok' and getattr(r, 'feasible_exits', 1) == 0 and r.exits.get('cut', 0) == 0:
            r.status = 'error'
            r.reason = 'vacuity: no feasible exit path (contradictory requires or assumptions)'
        out.append(_pack(r, rc))
    _OBS = []
    return out


def load_known():
    p = os.path.join(HERE, 'known_findings.json')
    if not os.path.exists(p):
        return []
    return json.load(open(p))


def scan_assumptions():
    """Mechanical scan of the contract files and the axiom prelude for trusted things."""
    out = []
    for key, c in R.CONTRACTS.items():
        if c.kind == 'extern':
            out.append('assumed contract: %s%s' % (key, (' -- ' + c.notes) if c.notes else ''))
        elif not c.verify:
            out.append('trusted (not verified) repo function: %s' % key)
    out.extend(R.ASSUMPTIONS)
    for (k, a, b, ka, kb) in R.OVERRIDES:
        out.append('assumed contract %s of contracts/%s.py is replaced by the one in contracts/%s.py (later file wins)' % (k, a, b))
    return out


def native_replay(script, args, timeout=120):
    """Run a native replay script under /venv/bin/python against $PYVC_REPO.
    Returns (reproduced: bool or None, output)."""
    env = dict(os.environ)
    repo = os.environ.get('PYVC_REPO', '/repo')
    env['PYTHONPATH'] = repo + os.pathsep + HERE
    env['PYVC_REPO'] = repo
    try:
        p = subprocess.run(['/venv/bin/python', '-W', 'ignore', os.path.join(HERE, script)] + list(args),
                           capture_output=True, text=True, timeout=timeout, env=env, cwd=repo)
    except subprocess.TimeoutExpired as e:
        return None, 'replay timed out'
    out = (p.stdout or '') + (p.stderr or '')
    if p.returncode == 1:
        return True, out
    if p.returncode == 0:
        return False, out
    return None, out


def check_property(pid, tier='quick', seed=0):
    t0 = time.time()
    load_contracts()
    keys = [k for k in R.PROPERTY_FUNCS.get(pid, []) if R.CONTRACTS[k].kind == 'repo' and R.CONTRACTS[k].verify]
    lines = []
    if not keys:
        print('ERROR no functions under contract for %s' % pid)
        return 3
    known = [k for k in load_known()
             if k.get('property') == pid or (isinstance(k.get('property'), list) and pid in k['property'])]
    open_known = [k for k in known if k.get('status') == 'open']
    results = run_functions(keys, tier, expected_fail=[(k['function'], k['obligation']) for k in open_known])
    total = discharged = 0
    n_known_obl = 0
    failing = []       # (result, obligation)
    undecided_funcs = []
    errors = []
    backends = {}
    solver_time = 0.0
    for r in results:
        if r['status'] == 'undecided':
            undecided_funcs.append(r)
            continue
        if r['status'] == 'error':
            errors.append(r)
            continue
        if r.get('partial'):
            # explored in refutation-only mode (a loop without contract unrolled a few times, ghost code that no
            # longer matches the source): a counter-model is a real one, a pass proves nothing
            pr = dict(r)
            pr['reason'] = 'refutation-only exploration, nothing proved: ' + r['partial']
            undecided_funcs.append(pr)
        for o in r['obligations']:
            if o['kind'] == 'scope' and pid != 'C14':
                continue        # timeout-scope obligations (G4) are decided by the C14 check only
            total += 1
            solver_time += o['time']
            if o['status'] in ('proved', 'trivial'):
                discharged += 1
                backends[o['backend']] = backends.get(o['backend'], 0) + 1
            else:
                failing.append((r, o))
    violations = []
    known_lines = []
    undecided = []
    # ---- known findings: the recorded obligation may fail, but only inside the recorded region
    matched = {}
    for (r, o) in failing:
        hit = None
        for kf in open_known:
            if kf['function'] == r['key'] and re.fullmatch(kf['obligation'], o['label']):
                hit = kf
                break
        if hit is None:
            pass
        matched.setdefault(id(hit) if hit else None, []).append((r, o, hit))
    rest = matched.pop(None, [])
    for grp in matched.values():
        kf = grp[0][2]
        ok, why = confirm_known(kf, grp, tier)
        if ok:
            known_lines.append('KNOWN-FINDING: property=%s %s' % (pid, kf['what']))
            for (r, o, _) in grp:
                o['status'] = 'known-finding'
                total -= 1          # reported separately: not part of the obligations that must be discharged
                n_known_obl += 1
        else:
            for (r, o, _) in grp:
                o['detail'] = (o.get('detail') or '') + ' | known-finding not confirmed: ' + why
                rest.append((r, o, None))
    # stale open findings: the obligation is discharged although a finding says it fails
    for kf in open_known:
        if id(kf) not in [id(g[0][2]) for g in matched.values()]:
            pass
    # ---- remaining failures: search a counter-model, replay
    replay_dir = os.path.join(HERE, 'replays', pid)
    if os.environ.get('PYVC_EVIDENCE_DIR'):
        replay_dir = os.path.join(os.environ['PYVC_EVIDENCE_DIR'], 'replays', pid)
    global _CLASSIFY
    _CLASSIFY = [(pid, r, o, tier, replay_dir) for (r, o, _) in rest]
    if len(_CLASSIFY) > 1:
        ctx = multiprocessing.get_context('fork')
        with ctx.Pool(min(16, len(_CLASSIFY))) as pool:
            verdicts = pool.map(_classify, range(len(_CLASSIFY)), chunksize=1)
    else:
        verdicts = [_classify(i) for i in range(len(_CLASSIFY))]
    for (r, o, _), (verdict, path) in zip(rest, verdicts):
        if verdict == 'violation':
            violations.append((r, o, path, ''))
        elif verdict == 'violation-noinput':
            violations.append((r, o, path, ' no-failing-input-found'))
        else:
            undecided.append((r, o))
    # ---- output
    for l in known_lines:
        print(l)
    for (r, o, path, suffix) in violations:
        print('VIOLATION property=%s replay=%s%s' % (pid, path, suffix))
        print('  obligation %s (line %s of %s) %s by %s' % (o['name'], o['line'], r['file'], o['status'], o['backend']))
    for r in undecided_funcs:
        print('UNDECIDED property=%s function=%s reason=%s' % (pid, r['key'], r['reason']))
    for (r, o) in undecided:
        print('UNDECIDED property=%s obligation=%s reason=solver unknown, no counter-model in finite scope' % (pid, o['name']))
    for r in errors:
        print('ERROR property=%s function=%s %s' % (pid, r['key'], r['reason'][-1500:]))
    # thorough tier: path-level vacuity audit of every function of the property (a path condition that became
    # contradictory proves everything after it vacuously; see pyvc/audit.py)
    audit_info = None
    if tier == 'thorough':
        audit_info = run_audit(keys)
        for (k, l, ln, h) in audit_info['unexpected']:
            print('UNDECIDED property=%s function=%s reason=vacuous path: obligation %s (line %s) has a contradictory '
                  'path condition, closed by: %s' % (pid, k, l, ln, h[:160]))
            undecided.append(({'key': k}, {'name': '%s/%s' % (k, l)}))
    # bounded stand-ins registered for this property
    bounded = run_bounded(pid, tier, seed)
    for b in bounded:
        if b.get('violation'):
            print('VIOLATION property=%s replay=%s' % (pid, b['replay']))
            violations.append((None, None, b['replay'], ''))
        if b.get('known'):
            print('KNOWN-FINDING: property=%s %s' % (pid, b['known']))
    wall = time.time() - t0
    ev = build_evidence(pid, tier, seed, results, total, discharged, backends, solver_time, known_lines,
                        violations, undecided_funcs, undecided, errors, bounded, wall)
    ev['coverage']['known_finding_obligations'] = n_known_obl
    if audit_info is not None:
        ev['coverage']['vacuity_audit'] = dict(paths=audit_info['paths'], closed_allowed=audit_info['allowed'],
                                               closed_unexpected=len(audit_info['unexpected']),
                                               undetermined=audit_info['unknown'])
    evdir = os.environ.get('PYVC_EVIDENCE_DIR') or os.path.join(HERE, 'evidence')
    os.makedirs(evdir, exist_ok=True)
    with open(os.path.join(evdir, pid + '.json'), 'w') as f:
        json.dump(ev, f, indent=1, sort_keys=True)
    print('%s: functions=%d obligations=%d discharged=%d known-findings=%d violations=%d undecided=%d errors=%d wall=%.1fs'
          % (pid, len(keys), total, discharged, len(known_lines), len(violations),
             len(undecided) + len(undecided_funcs), len(errors), wall))
    if os.environ.get('PYVC_WRITE_BASELINE') and not errors and not violations:
        os.makedirs(os.path.join(HERE, 'baseline'), exist_ok=True)
        names = sorted(set(norm_name(o['name']) for r in results for o in r['obligations'] if o['status'] in ('proved', 'trivial')))
        with open(os.path.join(HERE, 'baseline', pid + '.json'), 'w') as f:
            json.dump(names, f, indent=0)
    if errors:
        return 3
    if violations:
        return 1
    if undecided or undecided_funcs:
        return 2
    return 0


def _audit_one(key):
    from . import audit
    try:
        return audit.audit(key)
    except Exception as e:
        return ([(key, 'exploration', 0, 'audit failed: %s' % e)], 0, 0)


def run_audit(keys):
    from . import audit
    allow = audit.load_allow()
    ctx = multiprocessing.get_context('fork')
    # one task per function with a wall-clock limit: a worker that hangs (a forked z3 that never returns) must not
    # hang the check -- the audit of that function is then undetermined, which is not a failure
    limit = int(os.environ.get('PYVC_AUDIT_SECS', '300')) + 180
    res = []
    pool = ctx.Pool(min(16, max(1, len(keys))))
    try:
        tasks = [(k, pool.apply_async(_audit_one, (k,))) for k in keys]
        t_end = time.time() + limit
        for k, t in tasks:
            try:
                res.append(t.get(timeout=max(1.0, t_end - time.time())))
            except multiprocessing.TimeoutError:
                print('NOTE vacuity audit of %s did not finish within %d s: undetermined' % (k, limit))
                res.append(([], 0, 1))
            except Exception as e:
                print('NOTE vacuity audit of %s failed: %s' % (k, str(e)[:200]))
                res.append(([], 0, 1))
    finally:
        pool.terminate()
        pool.join()
    out = dict(paths=0, unknown=0, allowed=0, unexpected=[])
    for closed, n, unk in res:
        out['paths'] += n
        out['unknown'] += unk
        for (k, l, ln, h) in closed:
            if audit.allowed(allow, k, l, h):
                out['allowed'] += 1
            else:
                out['unexpected'].append((k, l, ln, h))
    return out


def confirm_known(kf, grp, tier):
    """(a) the recorded witness still replays natively; (b) with the recorded region excluded
    the same obligations are discharged."""
    if kf.get('replay'):
        rep, out = native_replay(kf['replay'], kf.get('replay_args', []))
        if rep is not True:
            return False, 'recorded witness does not reproduce (%s)' % (out.strip().split('\n')[-1] if out else rep)
    region = kf.get('region')
    if region is None:
        return True, ''
    key = kf['function']
    res = run_functions([key], tier, extra={key: ['not (%s)' % region]}, procs=1)[0]
    if res['status'] != 'ok':
        return False, 're-verification with region excluded: %s %s' % (res['status'], res['reason'])
    for o in res['obligations']:
        if re.fullmatch(kf['obligation'], o['label']) and o['status'] not in ('proved', 'trivial'):
            return False, 'obligation %s still fails outside the recorded region' % o['name']
    return True, ''


def norm_name(name):
    # line numbers move under harmless edits: compare obligation names without them
    return re.sub(r'@\d+', '@', name)


def load_baseline(pid):
    p = os.path.join(HERE, 'baseline', pid + '.json')
    if not os.path.exists(p):
        return None
    return set(norm_name(n) for n in json.load(open(p)))


def run_native_replay(o, replay_dir):
    """The solver's counter-model replayed against the REAL code (pyvc/native_replay.py under /venv/bin/python, with
    the tree under test on PYTHONPATH).  reproduced=True when the real function does what the counter-model
    predicts: raises the exception class that must not escape, or returns the predicted value that violates the
    clause."""
    spec = o.get('replay')
    if not spec:
        return dict(reproduced=False, reason='no native replay: %s' % (o.get('replay_why') or 'the solver gave no model '
                                                                       '(unknown) or the entry state does not decode into plain data'))
    repo = os.environ.get('PYVC_REPO', '/repo')
    h = hashlib.sha256((o['name'] + str(o['path'])).encode()).hexdigest()[:12]
    os.makedirs(replay_dir if os.path.isabs(replay_dir) else os.path.join(HERE, replay_dir), exist_ok=True)
    sp = os.path.join(replay_dir if os.path.isabs(replay_dir) else os.path.join(HERE, replay_dir), '%s.input.json' % h)
    with open(sp, 'w') as f:
        json.dump(spec, f, indent=1)
    env = dict(os.environ)
    env['PYTHONPATH'] = repo
    try:
        p = subprocess.run(['/venv/bin/python', '-W', 'ignore', os.path.join(HERE, 'pyvc', 'native_replay.py'), sp],
                           capture_output=True, text=True, timeout=60, env=env, cwd=repo)
        lines = [l for l in p.stdout.strip().split('\n') if l.startswith('{')]
        got = json.loads(lines[-1]) if lines else None
    except Exception as e:
        return dict(reproduced=False, reason='native replay failed: %s' % e, input=spec)
    if got is None:
        return dict(reproduced=False, reason='native replay printed nothing: %s' % (p.stderr or '')[-300:], input=spec)
    pred = spec['predicted']
    if pred['outcome'] == 'raised':
        ok = got['outcome'] == 'raised' and (got['exc'] == pred['exc'] or pred['exc'] in got.get('mro', []))
    elif 'value' in pred:
        ok = got['outcome'] == 'returned' and got.get('value') == pred['value']
    else:
        ok = False
    return dict(reproduced=bool(ok), input=spec['args'], predicted=pred, native=got, input_file=sp,
                how='PYTHONPATH=<repo> /venv/bin/python pyvc/native_replay.py %s' % sp)


_CLASSIFY = []


def _classify(i):
    try:
        return classify_failure(*_CLASSIFY[i])
    except Exception as e:      # a crash of the counter-model search is not a verdict
        import traceback
        traceback.print_exc()
        return ('undecided', 'classification failed: %s' % e)


def classify_failure(pid, r, o, tier, replay_dir):
    """A non-discharged obligation is not yet a violation: look for a counter-model
    (the solver's own, or one from the finite-scope generator), write the replay file,
    try the native replay of the function if a builder is registered."""
    from . import refute
    os.makedirs(replay_dir, exist_ok=True)
    h = hashlib.sha256((o['name'] + str(o['path'])).encode()).hexdigest()[:12]
    path = os.path.join(replay_dir, '%s.json' % h)
    if path.startswith(HERE + os.sep):
        path = os.path.relpath(path, HERE)
    info = dict(property=pid, obligation=o['name'], function=r['key'], file=r['file'], line=o['line'],
                source_sha256=r['sha'], status=o['status'], backend=o['backend'], path_decisions=o['path'],
                solver_detail=o.get('detail', ''), smt2_tail=o.get('smt2_tail', ''))
    model = o.get('model')
    if o['status'] == 'unknown' or not model:
        cm = refute.finite_scope(r['key'], o['label'], o['path'], tier)
        info['finite_scope'] = {k: v for k, v in cm.items() if k != 'replay'}
        if cm.get('status') == 'sat':
            model = cm.get('model')
            if cm.get('replay') and not o.get('replay'):
                o['replay'] = cm['replay']
            elif cm.get('replay_why'):
                o['replay_why'] = cm['replay_why']
        elif cm.get('status') == 'unsat':
            # no counter-model within scope and solver unknown: undecided, not a violation
            info['verdict'] = 'undecided'
            with open(os.path.join(HERE, path), 'w') as f:
                json.dump(info, f, indent=1)
            return 'undecided', path
    base = load_baseline(pid)
    if o['status'] == 'unknown' and base is not None and norm_name(o['name']) not in base:
        # neither refuted nor an obligation that is on record as proved on the unchanged tree: no alarm
        info['verdict'] = 'undecided'
        info['counter_model'] = model
        with open(os.path.join(HERE, path) if not os.path.isabs(path) else path, 'w') as f:
            json.dump(info, f, indent=1)
        return 'undecided', path
    info['counter_model'] = model
    native = run_native_replay(o, replay_dir)
    info['native'] = native
    verdict = 'violation' if native and native.get('reproduced') else 'violation-noinput'
    info['verdict'] = verdict
    with open(os.path.join(HERE, path), 'w') as f:
        json.dump(info, f, indent=1)
    return verdict, path


BOUNDED = {}     # pid -> [callable(tier, seed) -> dict]


def run_bounded(pid, tier, seed):
    out = []
    for (script, what) in R.BOUNDED.get(pid, []):
        env = dict(os.environ)
        repo = os.environ.get('PYVC_REPO', '/repo')
        env['PYTHONPATH'] = repo + os.pathsep + HERE
        env['PYVC_TIER'] = tier
        t0 = time.time()
        rec = dict(kind='bounded stand-in (not a proof)', script=script, what=what)
        try:
            p = subprocess.run(['/venv/bin/python', '-W', 'ignore', os.path.join(HERE, script)],
                               capture_output=True, text=True, timeout=900, env=env, cwd=repo)
            last = [l for l in p.stdout.strip().split('\n') if l.startswith('{')]
            info = json.loads(last[-1]) if last else dict(error=(p.stderr or p.stdout)[-800:])
        except Exception as e:
            info = dict(error=str(e))
        rec.update(info)
        rec['seconds'] = round(time.time() - t0, 2)
        if info.get('n_failures'):
            rdir = os.path.join(os.environ.get('PYVC_EVIDENCE_DIR') or HERE, 'replays', pid)
            os.makedirs(rdir, exist_ok=True)
            path = os.path.join(rdir, 'bounded_%s.json' % os.path.basename(script)[:-3])
            with open(path, 'w') as f:
                json.dump(dict(property=pid, kind='bounded stand-in', script=script, failures=info.get('failures')), f, indent=1)
            rec['violation'] = True
            rec['replay'] = os.path.relpath(path, HERE) if path.startswith(HERE + os.sep) else path
        elif 'error' in info:
            rec['error'] = info['error']
        out.append(rec)
    return out


def _callees(results, keys):
    """Contracts the verified functions of this property rely on at their call sites: externs (assumed) and
    repository functions verified elsewhere or under this same property (modular: caller sees the contract only)."""
    used = set()
    for r in results:
        used.update(r.get('used') or [])
    out = []
    for k in sorted(used):
        c = R.CONTRACTS.get(k)
        if c is None:
            continue
        if c.kind == 'extern':
            out.append(dict(callee=k, status='assumed (extern contract)', notes=(c.notes or '')[:200]))
        elif not c.verify:
            out.append(dict(callee=k, status='trusted repository function (contract not verified)'))
        elif k in keys:
            out.append(dict(callee=k, status='verified under this property'))
        else:
            out.append(dict(callee=k, status='verified under ' + ', '.join(c.props) if c.props else 'contract not attached to a property'))
    return out


def build_evidence(pid, tier, seed, results, total, discharged, backends, solver_time, known_lines,
                   violations, undecided_funcs, undecided, errors, bounded, wall):
    funcs = []
    samples = []
    for r in results:
        funcs.append(dict(function=r['key'], file=r['file'], line=r['lineno'], source_sha256=r['sha'],
                          paths=r['paths'], exits=r['exits'], status=r['status'],
                          obligations=len(r['obligations']),
                          discharged=sum(1 for o in r['obligations'] if o['status'] in ('proved', 'trivial')),
                          seconds=r['time']))
        for o in r['obligations'][:2]:
            samples.append(dict(obligation=o['name'], line=o['line'], kind=o['kind'], status=o['status'],
                                backend=o['backend'], seconds=o['time']))
    cov = dict(
        obligations=total, discharged=discharged,
        checker_cmd='./check %s --tier %s' % (pid, tier),
        trusted_base=['pyvc symbolic executor (CPython semantics as encoded in /verif/pyvc)',
                      'Python ints as mathematical integers (exact: CPython ints are unbounded); floats as reals '
                      '(rounding not modelled); str/bytes as SMT strings',
                      'list/set/dict/string axiom prelude (/verif/pyvc/builtins.py)',
                      'assumed contracts of external dependencies and of repository functions that are not verified '
                      'under this property (see callees_assumed)',
                      'gevent cooperative scheduling: no preemption between yield points (G2)',
                      'z3 5.1.0', 'cvc5 1.0.3'],
        callees_assumed=_callees(results, [r['key'] for r in results]),
        functions_under_contract=funcs, backends=backends, solver_seconds=round(solver_time, 3),
        samples=samples[:12], known_findings=known_lines,
        undecided=[dict(function=r['key'], reason=r['reason']) for r in undecided_funcs] +
                  [dict(obligation=o['name']) for (r, o) in undecided],
        bounded=[{k: v for k, v in b.items() if k not in ('violation',)} for b in bounded],
        extraction_drops='comments, docstrings, type comments; decorators replaced by contract',
    )
    if total == 0 or discharged == 0:
        cov['evaluations'] = max(1, total)
        cov['distinct_nontrivial'] = 2
    ev = dict(property_id=pid, tier=tier, seed=int(seed), level='proof', coverage=cov,
              assumptions=scan_assumptions(), wall_s=round(wall, 2), violations=len(violations))
    return ev


def main(argv):
    import argparse
    ap = argparse.ArgumentParser()
    ap.add_argument('pid')
    ap.add_argument('--tier', default=os.environ.get('VERIF_TIER', 'quick'))
    ap.add_argument('path', nargs='?')
    a = ap.parse_args(argv)
    if a.pid == 'replay':
        # ./check replay <file>: show the recorded violation and, when it carries a decoded input, run the real
        # function on it again (tree: $PYVC_REPO or /repo); exit 1 when the violation reproduces
        info = json.load(open(a.path))
        print(json.dumps({k: v for k, v in info.items() if k not in ('smt2_tail', 'counter_model', 'finite_scope')}, indent=1)[:6000])
        nat = info.get('native') or {}
        if isinstance(nat, dict) and nat.get('input') and nat.get('predicted'):
            spec_file = nat.get('input_file')
            if not (spec_file and os.path.exists(spec_file)):
                print('input file of the native replay is gone: %s' % spec_file)
                return 0
            o = dict(name=info.get('obligation', ''), path=info.get('path_decisions', ''), replay=json.load(open(spec_file)))
            again = run_native_replay(o, os.path.dirname(spec_file))
            print('native replay now: reproduced=%s native=%s' % (again.get('reproduced'), again.get('native')))
            return 1 if again.get('reproduced') else 0
        if info.get('kind') == 'bounded stand-in':
            return 1
        return 0
    seed = int(os.environ.get('VERIF_SEED', '0') or 0)
    return check_property(a.pid, a.tier if a.tier in ('quick', 'thorough') else 'quick', seed)
