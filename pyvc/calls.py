"""Calls: built-in functions and methods, specification helpers, and modular
calls through contracts (precondition proved at the call site, frame havocked,
postcondition assumed; one path per declared exceptional outcome)."""
import ast
import z3

from . import types as T
from . import registry as R
from . import frontend as F
from .core import (Val, SeqV, FnV, PathEnd, Undecided, PyRaise, ReturnSig, TYPEOF)
from . import builtins as B
from . import exec as E

I = z3.IntSort()

SPECFUNS = {}      # name -> python callable(st, args) -> Val   (registered by contract files)
METHOD_MODELS = {}  # (kind, method) -> callable(st, recv, args, kwargs) -> Val
CONTEXT_MANAGERS = {}   # class name -> (enter(st, val), exit(st, val, token))
YIELD_HOOK = [None]


def specfun(name):
    def deco(f):
        SPECFUNS[name] = f
        return f
    return deco


def method_model(kind, name):
    def deco(f):
        METHOD_MODELS[(kind, name)] = f
        return f
    return deco


# ------------------------------------------------------------------ call dispatch
def ev_call(st, n):
    f = n.func
    if isinstance(f, ast.Name) and f.id not in st.locals:
        h = _SYNTACTIC.get(f.id)
        if h is not None:
            return h(st, n)
    # super(...).method(...)
    if isinstance(f, ast.Attribute) and isinstance(f.value, ast.Call) and \
            isinstance(f.value.func, ast.Name) and f.value.func.id == 'super':
        return call_super(st, n)
    if isinstance(f, ast.Name) and f.id == 'zip' and len(n.args) == 1 and isinstance(n.args[0], ast.Starred):
        return unzip(st, E.ev(st, n.args[0].value))
    fv = E.ev(st, f)
    args, kwargs = eval_args(st, n)
    return apply_value(st, fv, args, kwargs, n)


def eval_args(st, n):
    args = []
    for a in n.args:
        if isinstance(a, ast.Starred):
            sv = E.ev(st, a.value)
            items = E.tuple_items(st, sv)
            if items is None:
                if (sv.t.kind == 'union' and not sv.t.args) or sv.t.kind == 'ref':
                    # *value of an opaque (Any) value or of an object (iterated by Python): an unknown number of opaque positional arguments; accepted
                    # only where they all land in the callee's *varargs parameter (bind_args)
                    args.append(Val(T.Ty('starred_opaque'), None))
                    continue
                raise Undecided('*args of symbolic length at line %s' % n.lineno)
            args.extend(items)
        else:
            args.append(E.ev(st, a))
    kwargs = {}
    for kw in n.keywords:
        if kw.arg is None:
            kv = E.ev(st, kw.value)
            if kv.t.kind in ('kwargs', 'union', 'dict'):
                continue          # **kwargs pass-through: assumed not to influence the contract
            raise Undecided('**kwargs call')
        kwargs[kw.arg] = E.ev(st, kw.value)
    return args, kwargs


def apply_value(st, fv, args, kwargs, n=None):
    if fv.t.kind == 'typeobj':
        return construct(st, fv.z.name, args, kwargs, n)
    if fv.t.kind != 'fn':
        if fv.t.kind == 'ref':
            c = R.find_contract(fv.t.name, '__call__')
            if c is not None:
                return call_contract(st, c, [fv] + args, kwargs, n)
        raise Undecided('call of non-function %r at line %s' % (fv.t, getattr(n, 'lineno', '?')))
    f = fv.z
    if f.kind == 'builtin':
        h = _BUILTINS.get(f.name)
        if h is None:
            raise Undecided('builtin %s not modelled' % f.name)
        return h(st, args, kwargs)
    if f.kind == 'specfun':
        return SPECFUNS[f.name](st, args)
    if f.kind == 'predicate':
        params, body, _ = R.PREDICATES[f.name]
        env = dict(zip(params, args))
        return E.eval_spec(st, body, env) if not st.spec else _eval_in(st, body, env)
    if f.kind == 'noop':
        return E.NONE_VAL()
    if f.kind == 'builtin_method':
        return call_builtin_method(st, f.recv, f.name, args, kwargs)
    if f.kind == 'bound':
        c = R.find_contract(f.cls, f.name)
        if c is None:
            raise Undecided('no contract for %s.%s' % (f.cls, f.name))
        if c.static:
            return call_contract(st, c, args, kwargs, n)
        recv = f.recv
        first = next(iter(c.params.values()), None)
        if recv.t.kind == 'typeobj' and (first is None or first.kind != 'typeobj'):
            first_name = next(iter(c.params.keys()), None)
            if first_name != 'self':
                return call_contract(st, c, args, kwargs, n)      # staticmethod reached through the class
        if first is not None and first.kind == 'typeobj' and recv.t.kind == 'ref':
            recv = Val(T.TYPEOBJ, FnV('class', recv.t.name))      # classmethod called through an instance
        return call_contract(st, c, [recv] + args, kwargs, n)
    if f.kind == 'func':
        return call_contract(st, R.CONTRACTS[f.name], args, kwargs, n)
    if f.kind == 'lambda':
        return E.apply_fn(st, fv, args)
    if f.kind == 'closure':
        key = f.cls or ('%s.%s' % (st.ex.func_key, f.name))
        c = R.CONTRACTS.get(key)
        if c is None:
            raise Undecided('nested function %s needs a contract' % key)
        return call_contract(st, c, args, kwargs, n, closure_env=f.env if f.env is not None else st.locals)
    raise Undecided('call of %r' % (f,))


def unzip(st, lv):
    """zip(*L) for a list L of n-tuples: an iterable of n tuples (sequences of the components).
    For empty L the result is empty (unpacking it raises ValueError)."""
    s, et = B.seq_of(st, lv)
    if et.kind != 'tuple':
        raise Undecided('zip(*x) over %r' % (et,))
    dt = T.sort_of(et)
    comps = []
    for i, ct in enumerate(et.args):
        r = B.seq_fresh(st, T.sort_of(ct), 'unz%d' % i)
        k = z3.Int('k!uz%d' % i)
        st.assume(r.n == s.n)
        st.assume(z3.ForAll([k], z3.Implies(z3.And(0 <= k, k < s.n),
                                            z3.Select(r.arr, k) == dt.accessor(0, i)(z3.Select(s.arr, k))),
                            patterns=[z3.Select(r.arr, k)]))
        st.assume(z3.ForAll([k], z3.Implies(z3.And(0 <= k, k < s.n),
                                            z3.Select(r.arr, k) == dt.accessor(0, i)(z3.Select(s.arr, k))),
                            patterns=[z3.Select(s.arr, k)]))
        if st.spec:
            comps.append(Val(T.TSeq(ct), r))
        else:
            comps.append(B.new_tuple_obj(st, r, ct))
    if not st.spec:
        if not st.branch(s.n > 0):
            return Val(T.Ty('xtuple'), ())
    return Val(T.Ty('xtuple'), tuple(comps))


def _eval_in(st, body, env):
    saved = st.locals
    st.locals = dict(env)
    try:
        return E.ev(st, body)
    finally:
        st.locals = saved


def call_super(st, n):
    f = n.func
    sup = f.value
    if sup.args:
        cls = sup.args[0].id
        recv = E.ev(st, sup.args[1])
    else:
        cls = st.fn.cls
        recv = st.locals['self']
    chain = R.mro(recv.t.name if recv.t.kind == 'ref' else cls)
    # static resolution: next class after `cls` in the MRO of the static receiver type
    order = R.mro(cls)[1:]
    args, kwargs = eval_args(st, n)
    for c in order:
        k = '%s.%s' % (c, f.attr)
        if k in R.CONTRACTS:
            return call_contract(st, R.CONTRACTS[k], [recv] + args, kwargs, n)
    raise Undecided('super().%s: no contract along %s' % (f.attr, order))


def construct(st, cls, args, kwargs, n=None):
    """Class(...)"""
    c = R.CONTRACTS.get('%s.__init__' % cls) or R.find_contract(cls, '__init__')
    ci = R.CLASSES.get(cls)
    if st.spec:
        raise Undecided('constructor call in spec')
    if c is None:
        if ci is not None and R.is_subclass(cls, 'BaseException'):
            ref = st.new_ref(cls)
            return Val(T.TRef(cls), ref)
        raise Undecided('no contract for %s.__init__' % cls)
    ref = st.new_ref(cls)
    self_v = Val(T.TRef(cls), ref)
    # a new instance has no attributes yet: reference-typed fields start as null (not as arbitrary aliases)
    seen = set()
    for cn in R.mro(cls):
        ci2 = R.CLASSES.get(cn)
        if ci2 is None:
            continue
        for fname, fty in ci2.fields.items():
            if fname in seen:
                continue
            seen.add(fname)
            if fty.is_reflike:
                key = '%s.%s' % (cn, fname)
                arr = st.H(key, z3.ArraySort(I, T.sort_of(fty)))
                st.heap[key] = z3.Store(arr, ref, z3.IntVal(0))
    call_contract(st, c, [self_v] + args, kwargs, n)
    return self_v


# ------------------------------------------------------------------ modular call
def bind_args(st, c, args, kwargs, closure_env=None, npos=None):
    names = list(c.params.keys())
    env = {}
    if closure_env is not None:
        # captured variables of a nested function are extra contract parameters bound from
        # the defining scope (at call time: Python closures see the current binding)
        for p in names[npos:]:
            if p in closure_env:
                env[p] = closure_env[p]
        names = names[:npos] + [p for p in names[npos:] if p not in env]
    pos = [p for p in names if p != c.vararg and c.params[p].kind != 'kwargs']
    for p in names:
        if c.params[p].kind == 'kwargs':
            env[p] = Val(c.params[p], None)
    if len(args) > len(pos) and not c.vararg:
        raise Undecided('too many arguments for %s' % c.key)
    if any(a.t.kind == 'starred_opaque' for a in args):
        # parameters declared before *varargs are positional, those after it keyword-only
        nbefore = names.index(c.vararg) if c.vararg in names else len(pos)
        if any(a.t.kind == 'starred_opaque' for a in args[:nbefore]) or not c.vararg:
            raise Undecided('*args of symbolic length bound to named parameters of %s' % c.key)
        args = list(args[:nbefore])          # the rest is swallowed by *varargs (opaque to the contract)
    for p, a in zip(pos, args):
        env[p] = a
    if c.vararg:
        extra = args[len(pos):]
        env[c.vararg] = Val(T.Ty('xtuple'), tuple(extra))
    has_kwargs = any(c.params[p].kind == 'kwargs' for p in names)
    for k, v in kwargs.items():
        if k not in c.params:
            if has_kwargs:
                continue        # swallowed by the callee's **kwargs (opaque to the contract)
            raise Undecided('unexpected keyword %s for %s' % (k, c.key))
        env[k] = v
    for p in pos:
        if p not in env:
            if p in c.defaults:
                d = c.defaults[p]
                env[p] = E.eval_spec(st, d, {}) if isinstance(d, str) else d
            else:
                raise Undecided('missing argument %s for %s' % (p, c.key))
    for p in pos:
        ty = c.params[p]
        try:
            env[p] = st.coerce(env[p], ty)
        except Undecided:
            if env[p].t.kind == 'fn' or ty.kind == 'fn':
                pass
            elif ty.kind == 'union' and not ty.args:
                pass           # parameter of type Any: the value is passed through unboxed
            else:
                raise Undecided('argument %s of %s: cannot pass %r as %r (line %s)' %
                                (p, c.key, env[p].t, ty, st.lineno))
    return env


def eval_modifies(st, c, env):
    """[(kind, key-or-type, ref)] for a contract's modifies clause in the current state."""
    out = []
    for m in c.modifies:
        out.extend(eval_mod_entry(st, m, env))
    return out


def eval_mod_entry(st, m, env):
    m = m.strip()
    if m == 'fresh':
        return [('fresh', None, None)]
    if m == 'new':
        # (loop frames) the objects allocated from now on, i.e. by the iterations of the loop: unlike 'fresh' this
        # leaves the objects the function allocated BEFORE the loop untouched
        return [('new', None, st.alloc)]
    if m.endswith('.*'):
        v = E.eval_spec(st, m[:-2], env)
        return [('allfields', v.t.name, v.z)]
    node = E.parse_spec(m)
    if isinstance(node, ast.Attribute) and isinstance(node.value, ast.Call) and \
            isinstance(node.value.func, ast.Name) and node.value.func.id == 'any':
        cls = node.value.args[0].id
        key, ty = st.field_key(cls, node.attr)
        return [('anyfield', key, None)]
    if isinstance(node, ast.Call) and isinstance(node.func, ast.Name) and node.func.id == 'contents':
        v = E.eval_spec(st, node.args[0], env)
        # the expression is kept: for monitored (shared) state the frame means "the contents of whatever the
        # expression denotes NOW" (another greenlet may have replaced the container object at a yield point)
        return [('contents', v.t, v.z, node.args[0], dict(env))]
    if isinstance(node, ast.Attribute):
        v = E.eval_spec(st, node.value, env)
        if v.t.kind != 'ref':
            raise Undecided('modifies entry %s: base is %r' % (m, v.t))
        key, ty = st.field_key(v.t.name, node.attr)
        return [('field', key, v.z)]
    raise Undecided('cannot interpret modifies entry %r' % m)


def havoc(st, targets):
    for tgt in targets:
        kind, k, r = tgt[0], tgt[1], tgt[2]
        if kind == 'field':
            cls, fname = k.split('.', 1)
            _, ty = R.find_field(cls, fname)
            arr = st.H(k, z3.ArraySort(I, T.sort_of(ty)))
            st.heap[k] = z3.Store(arr, r, st.fresh(T.sort_of(ty), 'hv_' + fname))
        elif kind == 'contents':
            havoc_contents(st, k, r)
        elif kind == 'fresh':
            st.havoc_fresh_region()
        elif kind == 'new':
            st.havoc_fresh_region(base=r)
        elif kind == 'anyfield':
            cls, fname = k.split('.', 1)
            _, ty = R.find_field(cls, fname)
            st.heap[k] = st.fresh(z3.ArraySort(I, T.sort_of(ty)), 'hvall_' + fname)
        elif kind == 'allfields':
            seen = set()
            for cn in R.mro(k):
                ci = R.CLASSES.get(cn)
                if ci is None:
                    continue
                for fname, ty in ci.fields.items():
                    if fname in seen:
                        continue
                    seen.add(fname)
                    if ty.kind in ('list', 'set', 'dict'):
                        cur = st.read_field(r, cn, fname)
                        havoc_contents(st, ty, cur.z)
                    key = '%s.%s' % (cn, fname)
                    arr = st.H(key, z3.ArraySort(I, T.sort_of(ty)))
                    st.heap[key] = z3.Store(arr, r, st.fresh(T.sort_of(ty), 'hv_' + fname))


def havoc_contents(st, ty, ref):
    if ty.kind == 'list':
        es = T.sort_of(ty.args[0])
        s = B.seq_fresh(st, es, 'hvl')
        st.assume(s.n >= 0)
        st.list_store(ref, ty.args[0], s)
    elif ty.kind == 'set':
        es = T.sort_of(ty.args[0])
        st.set_store(ref, ty.args[0], st.fresh(z3.ArraySort(es, z3.BoolSort()), 'hvs'))
    elif ty.kind == 'dict':
        kt, vt = ty.args
        ks, vs = T.sort_of(kt), T.sort_of(vt)
        keys = B.seq_fresh(st, ks, 'hvk')
        st.dict_store(ref, kt, vt, keys, st.fresh(z3.ArraySort(ks, vs), 'hvm'),
                      st.fresh(z3.ArraySort(ks, z3.BoolSort()), 'hvh'))
        st.assume(st.dict_wf(ref, kt, vt))
    else:
        raise Undecided('contents() of %r' % (ty,))


def check_callee_frame(st, c, targets, line):
    if st.frames is None or st.spec:
        return
    for tgt in targets:
        kind, k, r = tgt[0], tgt[1], tgt[2]
        lab = 'call[%s]@%d/frame' % (c.key, line)
        if kind == 'field':
            E._check_write(st, r, k, False, '%s[%s]' % (lab, k))
        elif kind == 'contents':
            E._check_write(st, r, None, True, '%s[contents]' % lab)
        elif kind == 'allfields':
            seen = set()
            for cn in R.mro(k):
                ci = R.CLASSES.get(cn)
                if ci is None:
                    continue
                for fname in ci.fields:
                    if fname in seen or fname in ci.ghost:
                        continue
                    seen.add(fname)
                    E._check_write(st, r, '%s.%s' % (cn, fname), False, '%s[%s.%s]' % (lab, cn, fname))
        elif kind == 'anyfield':
            ok = any(t[0] == 'anyfield' and t[1] == k for t in st.frames[0][0])
            if not ok:
                st.prove('%s[any %s]' % (lab, k), z3.BoolVal(False), kind='frame')
        elif kind == 'fresh':
            pass


def call_contract(st, c, args, kwargs, n=None, closure_env=None):
    try:
        st.ex.used.add(c.key)
    except AttributeError:
        pass
    if c.model is not None:
        r = c.model(st, args, kwargs)
        if not st.spec:
            st.call_log.append((c.key, list(args), r))
        return r
    if closure_env is not None:
        env = bind_args(st, c, args, kwargs, closure_env, len(args))
        for p in list(env.keys()):
            if p in c.params and env[p].t != c.params[p] and env[p].t.kind not in ('fn', 'typeobj'):
                env[p] = st.coerce(env[p], c.params[p])
    else:
        env = bind_args(st, c, args, kwargs)
    line = getattr(n, 'lineno', st.lineno)
    if st.spec:
        if not c.pure:
            raise Undecided('call of non-pure %s in a specification' % c.key)
    # 1. preconditions are obligations of the caller
    for i, rq in enumerate(c.requires):
        g = E.spec_bool(st, rq, env)
        if st.spec:
            continue
        if rq.strip() == 'in_timeout_scope()':
            st.prove('call[%s]@%d/pre#%d/scope' % (c.key, line, i), g, kind='scope', lineno=line)
            prove_scope_governed(st, c, line)
        else:
            st.prove('call[%s]@%d/pre#%d' % (c.key, line, i), g, kind='pre', lineno=line)
    if not st.spec and st.contract is not None:
        for i, rq in enumerate(getattr(st.contract, 'call_requires', {}).get(c.key, [])):
            g = E.spec_bool(st, rq, dict(st.locals))
            st.prove('call[%s]@%d/site#%d' % (c.key, line, i), g, kind='pre', lineno=line)
    if c.pure:
        # a pure function is a function: an uninterpreted symbol applied to its arguments and to the
        # heap locations it declares to read (same arguments, same state => same result)
        if c.returns.kind == 'none':
            res = E.NONE_VAL()
        else:
            zs = []
            for p in c.params:
                v = env[p]
                if v.t.kind in ('fn', 'typeobj', 'xtuple', 'seq', 'repeat', 'iter'):
                    continue
                zs.append(v.z)
            for rd in getattr(c, 'reads', []) or []:
                zs.append(E.eval_spec(st, rd, env).z)
            f = z3.Function('pure!' + c.key, *([z.sort() for z in zs] + [T.sort_of(c.returns)]))
            res = Val(c.returns, f(*zs))
            if st.qdepth == 0:
                st.assume_type(res)
        envr = dict(env)
        envr['retval' if 'result' in c.params else 'result'] = res
        for en in c.ensures:
            st.assume(E.spec_bool(st, en, envr, old_heap=dict(st.heap), old_locals=env))
        return res
    # 2. yield point: monitor invariants must hold when control can leave
    if c.yields and YIELD_HOOK[0] is not None:
        YIELD_HOOK[0](st, 'before', c, line)
        # interference first, then the callee's own effect: what the callee allocates is then distinct from
        # whatever the other greenlets stored into the shared fields meanwhile
        YIELD_HOOK[0](st, 'after', c, line)
    pre_heap = dict(st.heap)
    pre_alloc = st.alloc
    # 3. frame: what the callee may modify must lie inside the caller's own frame
    targets = eval_modifies(st, c, env)
    check_callee_frame(st, c, targets, line)
    # 'fresh' in a callee's frame = objects the callee allocates itself: nothing of the caller's to havoc
    havoc(st, [t for t in targets if t[0] != 'fresh'])
    st.bump_alloc()
    # 4. outcomes
    outcomes = ['normal'] + list(c.raises.keys())
    k = st.choose(len(outcomes), 'outcome of %s' % c.key) if len(outcomes) > 1 else 0
    saved_alloc0 = st.ghost.get('$call_alloc')
    st.ghost['$call_alloc'] = pre_alloc
    try:
        if k == 0:
            if c.returns.kind == 'none':
                res = E.NONE_VAL()
            else:
                res = st.fresh_val(c.returns, 'ret_' + c.key.split('.')[-1])
            envr = dict(env)
            envr['retval' if 'result' in c.params else 'result'] = res
            for en in c.ensures:
                st.assume(E.spec_bool(st, en, envr, old_heap=pre_heap, old_locals=env))
            st.call_log.append((c.key, [env[p] for p in c.params if p in env], res))
            return res
        cls = outcomes[k]
        st.call_log.append((c.key, [env[p] for p in c.params if p in env], None, cls))
        ref = st.new_ref(cls if cls in R.CLASSES else 'OtherException')
        envr = dict(env)
        envr['exc'] = Val(T.TRef(cls), ref)
        for en in c.raises[cls]:
            st.assume(E.spec_bool(st, en, envr, old_heap=pre_heap, old_locals=env))
        raise PyRaise(cls, ref, line)
    finally:
        if saved_alloc0 is None:
            st.ghost.pop('$call_alloc', None)
        else:
            st.ghost['$call_alloc'] = saved_alloc0


# ------------------------------------------------------------------ with
def exec_with(st, s):
    if len(s.items) != 1:
        raise Undecided('with: several items')
    item = s.items[0]
    ce = item.context_expr
    cm = E.ev(st, ce)
    if cm.t.kind != 'ref' or cm.t.name not in CONTEXT_MANAGERS:
        raise Undecided('with: unknown context manager %r' % (cm.t,))
    enter, exit_ = CONTEXT_MANAGERS[cm.t.name]
    tok = enter(st, cm)
    if item.optional_vars is not None:
        E.assign_target(st, item.optional_vars, cm)
    try:
        E.exec_block(st, s.body)
    except PathEnd:
        raise
    except Undecided:
        raise
    except PyRaise as pr:
        swallowed = exit_(st, cm, tok, pr)
        if not swallowed:
            raise
    except BaseException:
        exit_(st, cm, tok, None)
        raise
    else:
        exit_(st, cm, tok, None)


# ------------------------------------------------------------------ syntactic spec forms
def sf_old(st, n):
    if st.old_heap is None:
        raise Undecided('old() outside a two-state context')
    saved_h, saved_l = st.heap, st.locals
    st.heap = dict(st.old_heap)
    if st.old_locals:
        loc = dict(st.locals)
        loc.update(st.old_locals)
        st.locals = loc
    try:
        v = E.ev(st, n.args[0])
        # containers must be snapshotted in the old heap
        if v.t.kind == 'list':
            s, et = B.seq_of(st, v)
            return Val(T.TSeq(et), s)
        if v.t.kind == 'set':
            sv, et = B.set_value(st, v)
            return Val(T.TSetV(et), sv)
        return v
    finally:
        st.heap, st.locals = saved_h, saved_l


def sf_implies(st, n):
    a = E.truthy(st, E.ev(st, n.args[0]))
    b = E.truthy(st, E.ev(st, n.args[1]))
    return E.mk_bool(z3.Implies(a, b))


def sf_iff(st, n):
    a = E.truthy(st, E.ev(st, n.args[0]))
    b = E.truthy(st, E.ev(st, n.args[1]))
    return E.mk_bool(a == b)


def _quant(st, n, is_forall):
    dom = n.args[0]
    lam = n.args[1]
    if not isinstance(lam, ast.Lambda):
        raise Undecided('quantifier body must be a lambda')
    names = [a.arg for a in lam.args.args]
    st.nfresh += 1
    tag = st.nfresh
    saved = st.locals
    st.locals = dict(saved)
    st.qdepth += 1
    try:
        guards = []
        vars_ = []
        if isinstance(dom, ast.Call) and isinstance(dom.func, ast.Name) and dom.func.id == 'range':
            ra = [E.ev(st, a) for a in dom.args]
            lo, hi = (z3.IntVal(0), ra[0].z) if len(ra) == 1 else (ra[0].z, ra[1].z)
            k = z3.Int('%s!q%d' % (names[0], tag))
            vars_.append(k)
            guards.append(z3.And(lo <= k, k < hi))
            st.locals[names[0]] = Val(T.INT, k)
        elif isinstance(dom, ast.Call) and isinstance(dom.func, ast.Name) and dom.func.id == 'pairs':
            # pairs(n): all i < j < n
            hi = E.ev(st, dom.args[0]).z
            i = z3.Int('%s!q%d' % (names[0], tag))
            j = z3.Int('%s!q%d' % (names[1], tag))
            vars_ += [i, j]
            guards.append(z3.And(0 <= i, i < j, j < hi))
            st.locals[names[0]] = Val(T.INT, i)
            st.locals[names[1]] = Val(T.INT, j)
        elif isinstance(dom, ast.Name) and dom.id in R.CLASSES and dom.id not in st.locals:
            x = z3.Int('%s!q%d' % (names[0], tag))
            vars_.append(x)
            st.locals[names[0]] = Val(T.TRef(dom.id), x)
        elif isinstance(dom, ast.Name) and dom.id in ('Int', 'Str', 'Real', 'Bytes') or \
                ((isinstance(dom, ast.Subscript) and isinstance(dom.value, ast.Name) and dom.value.id in
                  ('List', 'Set', 'Dict', 'Tuple', 'Opt', 'Optional', 'Union', 'Seq', 'SetV', 'MapV', 'Ref'))
                 or (isinstance(dom, ast.Name) and dom.id in T._ALIASES and dom.id not in st.locals)):
            ty = T._pt(dom)
            x = z3.Const('%s!q%d' % (names[0], tag), T.sort_of(ty))
            vars_.append(x)
            st.locals[names[0]] = Val(ty, x)
        else:
            dv = E.ev(st, dom)
            if dv.t.kind == 'none':
                return E.mk_bool(z3.BoolVal(is_forall))      # empty domain (e.g. an absent call_result)
            if dv.t.kind in ('list', 'seq'):
                s, et = B.seq_of(st, dv)
                k = z3.Int('k!q%d' % tag)
                vars_.append(k)
                guards.append(z3.And(0 <= k, k < s.n))
                st.locals[names[0]] = Val(et, z3.Select(s.arr, k))
                if len(names) > 1:
                    st.locals[names[1]] = Val(T.INT, k)
            elif dv.t.kind in ('set', 'setv'):
                sv, et = B.set_value(st, dv)
                x = z3.Const('%s!q%d' % (names[0], tag), T.sort_of(et))
                vars_.append(x)
                guards.append(z3.Select(sv, x))
                st.locals[names[0]] = Val(et, x)
            else:
                raise Undecided('quantifier domain %r' % (dv.t,))
        body = E.truthy(st, E.ev(st, lam.body))
        pats = []
        for kw in n.keywords:
            if kw.arg == 'trigger':
                tl = kw.value
                tv = E.ev(st, tl.body if isinstance(tl, ast.Lambda) else tl)
                items = E.tuple_items(st, tv) if tv.t.kind in ('tuple', 'xtuple') else [tv]
                zs = [it.z for it in items]
                pats.append(z3.MultiPattern(*zs) if len(zs) > 1 else zs[0])
    finally:
        st.locals = saved
        st.qdepth -= 1
    g = z3.And(guards) if guards else z3.BoolVal(True)
    if is_forall:
        return E.mk_bool(z3.ForAll(vars_, z3.Implies(g, body), patterns=pats))
    return E.mk_bool(z3.Exists(vars_, z3.And(g, body), patterns=pats))


def sf_forall(st, n):
    return _quant(st, n, True)


def sf_exists(st, n):
    return _quant(st, n, False)


def sf_let(st, n):
    # let(value, lambda x: body)
    v = E.ev(st, n.args[0])
    lam = E.ev(st, n.args[1])
    return E.apply_fn(st, lam, [v])


def sf_isinstance(st, n):
    v = E.ev(st, n.args[0])
    names = B.isinstance_classes(st, n.args[1])
    return E.mk_bool(B.isinstance_term(st, v, names))


def sf_getattr(st, n):
    """getattr(obj, 'name', default) on an object whose class declares the field: the attribute may be
    unset on the instance (ghost flag <name>__set when declared), in which case the default is returned."""
    if len(n.args) == 3 and not isinstance(n.args[1], ast.Constant):
        # getattr(obj, <computed name>, default): an attribute of unknown name -- some object of the
        # default's class (or the default itself)
        E.ev(st, n.args[0])
        E.ev(st, n.args[1])
        default = E.ev(st, n.args[2])
        if default.t.kind != 'ref':
            raise Undecided('getattr with computed name and non-object default')
        r = st.fresh_val(default.t, 'getattr')
        st.assume(r.z != 0)     # an attribute holding None is not modelled (Queue._use_pool never stores None)
        return r
    if len(n.args) != 3 or not isinstance(n.args[1], ast.Constant):
        raise Undecided('getattr() at line %s needs a contract-level model' % n.lineno)
    obj = E.ev(st, n.args[0])
    name = n.args[1].value
    default = E.ev(st, n.args[2])
    if obj.t.kind == 'union':
        obj = E.concretize(st, obj)
    if obj.t.kind != 'ref':
        raise Undecided('getattr on %r' % (obj.t,))
    dcls, fty = R.find_field(obj.t.name, name)
    if dcls is None:
        raise Undecided('getattr: %s.%s not declared' % (obj.t.name, name))
    fl, _ = R.find_field(obj.t.name, name + '__set')
    if fl is not None:
        if not st.branch(st.read_field(obj.z, obj.t.name, name + '__set').z):
            return default
    return st.read_field(obj.z, obj.t.name, name)


def sf_super(st, n):
    """super(C, obj) as a value: attribute access resolves along the MRO after C."""
    if len(n.args) == 2:
        cls = n.args[0].id
        recv = E.ev(st, n.args[1])
    else:
        cls = st.fn.cls
        recv = st.locals['self']
    return Val(T.Ty('super'), (cls, recv))


def sf_cast(st, n):
    v = E.ev(st, n.args[0])
    ty = T._pt(n.args[1])
    if v.t.kind == 'union':
        return Val(ty, T.unbox(ty, v.z)) if ty.kind != 'none' else E.NONE_VAL()
    return st.coerce(v, ty)


def sf_is_type(st, n):
    """is_type(x, T): the union value x holds alternative T"""
    v = E.ev(st, n.args[0])
    ty = T._pt(n.args[1])
    if v.t.kind != 'union':
        return E.mk_bool(z3.BoolVal(v.t == ty or (v.t.kind == ty.kind and ty.is_reflike)))
    c = T.tester(ty, v.z)
    if ty.is_reflike and ty.kind != 'ref':
        tg = TYPEOF(T.PyVal.o_v(v.z)) == R.CLASSES[ty.kind].tag
        if ty.kind == 'list':
            tg = z3.Or(tg, TYPEOF(T.PyVal.o_v(v.z)) == R.CLASSES['tuple'].tag)
        c = z3.And(c, tg)
    if ty.kind == 'ref' and ty.name in R.CLASSES:
        c = z3.And(c, st.isinstance_term(T.PyVal.o_v(v.z), ty.name))
    return E.mk_bool(c)


_SYNTACTIC = {'super': sf_super, 'getattr': sf_getattr, 'cast': sf_cast, 'is_type': sf_is_type,'old': sf_old, 'implies': sf_implies, 'iff': sf_iff, 'forall': sf_forall,
              'exists': sf_exists, 'let': sf_let, 'isinstance': sf_isinstance}


# ------------------------------------------------------------------ builtin functions
def bi_len(st, args, kw):
    v = args[0]
    if v.t.kind == 'union':
        v = E.concretize(st, v)
    k = v.t.kind
    if k in ('str', 'bytes'):
        return E.mk_int(z3.Length(v.z))
    if k in ('list', 'seq'):
        s, _ = B.seq_of(st, v)
        return E.mk_int(s.n)
    if k in ('tuple', 'xtuple'):
        return E.mk_int(len(E.tuple_items(st, v)))
    if k == 'dict':
        return E.mk_int(st.dict_parts(v.z, *v.t.args)[0].n)
    if k == 'ref':
        c = R.find_contract(v.t.name, '__len__')
        if c is not None:
            return call_contract(st, c, [v], {}, None)
    if k == 'set':
        return E.mk_int(st.set_card(v.z, v.t.args[0]))
    if k == 'view':
        return E.mk_int(v.z[2])
    raise Undecided('len of %r' % (v.t,))


def bi_set(st, args, kw):
    if not args:
        # element type comes from the declared local type; default to the function's hint
        if st.spec:
            raise Undecided('set() in spec')
        ref = st.new_ref('set')
        return Val(T.Ty('set', (T.Ty('unknown'),)), ref)
    v = args[0]
    if v.t.kind in ('list', 'seq'):
        s, et = B.seq_of(st, v)
        sv = B.set_of_seq(st, s, et)
        if st.spec:
            return sv
        ref = st.new_ref('set')
        st.set_store(ref, et, sv.z)
        return Val(T.TSet(et), ref)
    if v.t.kind in ('set', 'setv'):
        sv, et = B.set_value(st, v)
        if st.spec:
            return Val(T.TSetV(et), sv)
        ref = st.new_ref('set')
        st.set_store(ref, et, sv)
        return Val(T.TSet(et), ref)
    raise Undecided('set(%r)' % (v.t,))


def bi_list(st, args, kw):
    if not args:
        return B.new_list(st, [])
    v = args[0]
    if v.t.kind == 'union' and not st.spec:
        v = E.concretize(st, v)
    if v.t.kind in ('list', 'seq'):
        s, et = B.seq_of(st, v)
        if st.spec:
            return Val(T.TSeq(et), s)
        ref = st.new_ref('list')
        st.list_store(ref, et, s)
        return Val(T.TList(et), ref)
    if v.t.kind == 'iter':
        return v.z.to_list(st)
    if v.t.kind == 'set' and not st.spec:
        # list(a_set): the elements in an arbitrary order, each once
        from . import loops
        it = loops.as_iter(st, v)
        et = v.t.args[0]
        n = st.fresh(I, 'ln')
        st.assume(n == it.n)
        k = z3.Int('k!ls%d' % st.nfresh)
        arr = z3.Select  # placeholder to keep linters quiet
        probe = it.item(k)
        base = probe.z.arg(0) if z3.is_app(probe.z) and probe.z.decl().kind() == z3.Z3_OP_SELECT else None
        if base is None:
            raise Undecided('list(set): unexpected iterator shape')
        ref = st.new_ref('list')
        st.list_store(ref, et, SeqV(base, it.n))
        return Val(T.TList(et), ref)
    if v.t.kind == 'ref' and not st.spec and _not_iterable(v.t.name):
        # list(obj) on an object of a repository class without __iter__ / __getitem__: TypeError
        E.check_or_raise(st, z3.BoolVal(False), 'TypeError')
    raise Undecided('list(%r)' % (v.t,))


def _not_iterable(cls):
    """True when every class of the MRO is a repository class read from source and none defines __iter__ or
    __getitem__ (so iter(obj) raises TypeError)."""
    from . import frontend
    for c in R.mro(cls):
        if c == 'object':
            continue
        ci = R.CLASSES.get(c)
        if ci is None or not getattr(ci, 'module', None):
            return False
        try:
            meths = frontend.class_methods(ci.module, c)
        except Exception:
            return False
        if '__iter__' in meths or '__getitem__' in meths:
            return False
    return True


def bi_tuple(st, args, kw):
    v = args[0]
    if v.t.kind in ('list', 'seq'):
        s, et = B.seq_of(st, v)
        return Val(T.TSeq(et), s)
    raise Undecided('tuple(%r)' % (v.t,))


def bi_min(st, args, kw):
    if len(args) == 2:
        a, b = B.numeric_pair(st, args[0], args[1])
        return Val(a.t, z3.If(a.z <= b.z, a.z, b.z))
    raise Undecided('min with %d args' % len(args))


def bi_max(st, args, kw):
    if len(args) == 2:
        a, b = B.numeric_pair(st, args[0], args[1])
        return Val(a.t, z3.If(a.z >= b.z, a.z, b.z))
    raise Undecided('max with %d args' % len(args))


def bi_seq(st, args, kw):
    v = args[0]
    s, et = B.seq_of(st, v)
    return Val(T.TSeq(et), s)


def bi_setv(st, args, kw):
    sv, et = B.set_value(st, args[0])
    return Val(T.TSetV(et), sv)


def bi_set_of(st, args, kw):
    s, et = B.seq_of(st, args[0])
    return B.set_of_seq(st, s, et, args[1] if len(args) > 1 else None)


def bi_sorted_by(st, args, kw):
    s, et = B.seq_of(st, args[0])
    st.nfresh += 1
    i = z3.Int('i!sb%d' % st.nfresh)
    j = z3.Int('j!sb%d' % st.nfresh)
    st.qdepth += 1
    try:
        if len(args) > 1:
            ki = E.apply_fn(st, args[1], [Val(et, z3.Select(s.arr, i))])
            kj = E.apply_fn(st, args[1], [Val(et, z3.Select(s.arr, j))])
        else:
            ki, kj = Val(et, z3.Select(s.arr, i)), Val(et, z3.Select(s.arr, j))
    finally:
        st.qdepth -= 1
    le = B.compare(st, ast.LtE(), ki, kj)
    return E.mk_bool(z3.ForAll([i, j], z3.Implies(z3.And(0 <= i, i <= j, j < s.n), le),
                               patterns=[z3.MultiPattern(z3.Select(s.arr, i), z3.Select(s.arr, j))]))


def bi_distinct_by(st, args, kw):
    s, et = B.seq_of(st, args[0])
    st.nfresh += 1
    i = z3.Int('i!db%d' % st.nfresh)
    j = z3.Int('j!db%d' % st.nfresh)
    st.qdepth += 1
    try:
        if len(args) > 1:
            ki = E.apply_fn(st, args[1], [Val(et, z3.Select(s.arr, i))])
            kj = E.apply_fn(st, args[1], [Val(et, z3.Select(s.arr, j))])
        else:
            ki, kj = Val(et, z3.Select(s.arr, i)), Val(et, z3.Select(s.arr, j))
    finally:
        st.qdepth -= 1
    ne = z3.Not(B.values_equal(st, ki, kj))
    return E.mk_bool(z3.ForAll([i, j], z3.Implies(z3.And(0 <= i, i < j, j < s.n), ne),
                               patterns=[z3.MultiPattern(z3.Select(s.arr, i), z3.Select(s.arr, j))]))


def bi_fresh(st, args, kw):
    v = args[0]
    base = st.ghost.get("$call_alloc", st.fn_alloc0)
    return E.mk_bool(z3.And(v.z >= base, v.z < st.alloc))


def bi_ite(st, args, kw):
    c = E.truthy(st, args[0])
    a, b = args[1], args[2]
    if a.t != b.t:
        if a.t.kind in ('int', 'real') and b.t.kind in ('int', 'real'):
            a, b = st.coerce(a, T.REAL), st.coerce(b, T.REAL)
        else:
            u = T.TUnion(a.t, b.t)
            a, b = st.coerce(a, u), st.coerce(b, u)
    return Val(a.t, z3.If(c, a.z, b.z))


def bi_bool(st, args, kw):
    return E.mk_bool(E.truthy(st, args[0]))


def bi_str(st, args, kw):
    v = args[0]
    if v.t.kind == 'str':
        return v
    f = z3.Function('py_str_' + T.sort_name(T.sort_of(v.t)) if v.t.kind != 'union' else 'py_str_any',
                    T.sort_of(v.t), z3.StringSort())
    return Val(T.STR, f(v.z))


def bi_repr(st, args, kw):
    v = args[0]
    f = z3.Function('py_repr_' + T.sort_name(T.sort_of(v.t)), T.sort_of(v.t), z3.StringSort())
    return Val(T.STR, f(v.z))


def bi_callable(st, args, kw):
    return E.mk_bool(z3.BoolVal(args[0].t.kind in ('fn', 'typeobj')))


def bi_abs(st, args, kw):
    v = args[0]
    return Val(v.t, z3.If(v.z >= 0, v.z, -v.z))


def bi_int(st, args, kw):
    v = args[0]
    if v.t.kind == 'union':
        v = E.concretize(st, v)
        args = [v] + list(args[1:])
    if v.t.kind == 'int':
        return v
    if v.t.kind == 'bool':
        return st.coerce(v, T.INT)
    h = SPECFUNS.get('py_int')
    if h is not None:
        return h(st, args)
    raise Undecided('int(%r) needs the py_int model' % (v.t,))


def bi_float(st, args, kw):
    """float(x): numbers widen; for bytes/str the accepted language and the value are uninterpreted
    (py_float_ok / redis_real), ValueError outside the language."""
    v = args[0]
    if v.t.kind == 'union':
        v = E.concretize(st, v)
    if v.t.kind == 'real':
        return v
    if v.t.kind in ('int', 'bool'):
        return st.coerce(v, T.REAL)
    if v.t.kind in ('bytes', 'str'):
        ok = z3.Function('py_float_ok', z3.StringSort(), z3.BoolSort())
        val = z3.Function('redis_real', z3.StringSort(), z3.RealSort())
        if not st.spec:
            E.check_or_raise(st, ok(v.z), 'ValueError')
        return Val(T.REAL, val(v.z))
    raise Undecided('float(%r)' % (v.t,))


def bi_sorted(st, args, kw):
    v = args[0]
    rev = kw.get('reverse')
    h = SPECFUNS.get('py_sorted')
    if h is None:
        raise Undecided('sorted() model missing')
    return h(st, [v, rev])


def bi_unsupported(name):
    def f(st, args, kw):
        raise Undecided('builtin %s() is handled only inside loops / by contract models' % name)
    return f


def bi_range(st, args, kw):
    from . import loops
    return loops.make_range(st, args)


def bi_enumerate(st, args, kw):
    from . import loops
    return loops.make_enumerate(st, args)


def bi_zip(st, args, kw):
    from . import loops
    return loops.make_zip(st, args)


def bi_reversed(st, args, kw):
    from . import loops
    return loops.make_reversed(st, args)


def bi_bytearray(st, args, kw):
    h = SPECFUNS.get('py_bytearray')
    if h is None:
        raise Undecided('bytearray model missing')
    return h(st, args)


def bi_memoryview(st, args, kw):
    h = SPECFUNS.get('py_memoryview')
    if h is None:
        raise Undecided('memoryview model missing')
    return h(st, args)


def bi_bytes(st, args, kw):
    v = args[0]
    if v.t.kind == 'bytes':
        return v
    raise Undecided('bytes(%r)' % (v.t,))


def bi_emp(st, args, kw):
    raise Undecided('emp')


_TRIG = {}


def bi_trig(st, args, kw):
    """trig(x): always true; an uninterpreted marker used as an explicit quantifier trigger
    (breaks matching loops between forall-exists invariants)."""
    v = args[0]
    srt = T.sort_of(v.t)
    nm = 'trig_' + T.sort_name(srt)
    f = z3.Function(nm, srt, z3.BoolSort())
    if nm not in st.ghost.setdefault('$trig_axioms', set()):
        st.ghost['$trig_axioms'].add(nm)
        x = z3.Const('x!trig', srt)
        st.pc.append(z3.ForAll([x], f(x), patterns=[f(x)]))
    return E.mk_bool(f(v.z))


def bi_same(st, args, kw):
    """same(a, b): identical values (object identity for references, also inside tuples)"""
    a, b = args
    if a.t.kind in ('seq',) or b.t.kind in ('seq',):
        return E.mk_bool(z3.And(a.z.n == b.z.n, a.z.arr == b.z.arr))
    if a.t.kind == 'none' or b.t.kind == 'none':
        return E.mk_bool(B.identical(st, a, b))
    if a.t != b.t:
        b = st.coerce(b, a.t)
    return E.mk_bool(a.z == b.z)


def bi_allocated(st, args, kw):
    """allocated(x): x is an object that exists now (0 < ref < allocation counter)"""
    v = args[0]
    return E.mk_bool(z3.And(v.z > 0, v.z < st.alloc))


def _dict_fromkeys(st, args):
    """dict.fromkeys(keys): a new dict with exactly the elements of `keys` as keys (first occurrence order),
    every value None.  Value type Any (boxed); the declared type of the receiving local fixes it."""
    src = args[0]
    if src.t.kind == 'dict':
        s, kt = st.dict_parts(src.z, src.t.args[0], src.t.args[1])[0], src.t.args[0]
    else:
        s, kt = B.seq_of(st, src)
    vt = T.Ty('union', ())
    ks = T.sort_of(kt)
    ref = st.new_ref('dict')
    keys = B.seq_fresh(st, ks, 'fk')
    has = st.fresh(z3.ArraySort(ks, z3.BoolSort()), 'fkh')
    val = T.PyVal.none
    if len(args) > 1:
        v = args[1]
        val = v.z if v.t.kind == 'union' else T.box(v.t, v.z)
    mp = z3.K(ks, val)
    st.dict_store(ref, kt, vt, keys, mp, has)
    st.assume(st.dict_wf(ref, kt, vt))
    st.nfresh += 1
    k = z3.Int('k!fk%d' % st.nfresh)
    x = z3.Const('x!fk%d' % st.nfresh, ks)
    w = z3.Function('fkw!%d' % st.nfresh, ks, I)
    st.assume(z3.And(keys.n >= 0, keys.n <= s.n))
    st.assume(z3.ForAll([k], z3.Implies(z3.And(0 <= k, k < s.n), z3.Select(has, z3.Select(s.arr, k))),
                        patterns=[z3.Select(s.arr, k)]))
    st.assume(z3.ForAll([x], z3.Implies(z3.Select(has, x), z3.And(0 <= w(x), w(x) < s.n, z3.Select(s.arr, w(x)) == x)),
                        patterns=[z3.Select(has, x)]))
    return Val(T.TDict(kt, vt), ref)


SPECFUNS['dict_fromkeys'] = _dict_fromkeys


def bi_preexisting(st, args, kw):
    """preexisting(x): x is None or an object that already existed when the function under verification was
    entered (ref < allocation counter at entry): its fields are outside every 'fresh' frame."""
    v = args[0]
    return E.mk_bool(z3.And(v.z >= 0, v.z < st.fn_alloc0))


def bi_ncalls(st, args, kw):
    """ncalls('Callee.key'): number of calls to that contract made so far on this path (ghost call log)"""
    key = z3.simplify(args[0].z).as_string()
    return E.mk_int(len([1 for e in st.call_log if e[0] == key]))


def bi_call_arg(st, args, kw):
    key = z3.simplify(args[0].z).as_string()
    i = z3.simplify(args[1].z).as_long()
    j = z3.simplify(args[2].z).as_long()
    hits = [(e[1], e[2]) for e in st.call_log if e[0] == key]
    if i >= len(hits):
        return E.NONE_VAL()      # guard uses of call_arg with ncalls(...)
    return hits[i][0][j]


def bi_call_result(st, args, kw):
    key = z3.simplify(args[0].z).as_string()
    i = z3.simplify(args[1].z).as_long()
    hits = [(e[1], e[2]) for e in st.call_log if e[0] == key]
    if i >= len(hits) or hits[i][1] is None:
        return E.NONE_VAL()
    return hits[i][1]


def bi_nraised(st, args, kw):
    """nraised('Exc'): number of contract calls on this path that ended by raising Exc (or a subclass)"""
    cls = z3.simplify(args[0].z).as_string()
    return E.mk_int(len([1 for e in st.call_log if len(e) > 3 and R.is_subclass(e[3], cls)]))


def bi_str_prefix(st, args, kw):
    return E.mk_bool(z3.PrefixOf(args[1].z, args[0].z))


def bi_pure_IO_encrypted_of(st, args, kw):
    """the value IO.encrypted takes for a given socket object (same uninterpreted symbol as the property)"""
    v = st.coerce(args[0], T.ANY)
    f = z3.Function('pure!IO.encrypted', z3.IntSort(), T.PyVal, z3.BoolSort())
    x = z3.Int('io!any')
    return E.mk_bool(z3.ForAll([x], f(x, v.z), patterns=[f(x, v.z)]))


def bi_py_lower(st, args, kw):
    f = z3.Function('py_lower', z3.StringSort(), z3.StringSort())
    return Val(args[0].t, f(args[0].z))


def bi_substr_after_last(st, args, kw):
    s, sep = args
    idx = z3.LastIndexOf(s.z, sep.z)
    return Val(s.t, z3.SubString(s.z, idx + z3.Length(sep.z), z3.Length(s.z) - idx - z3.Length(sep.z)))


def bi_substr(st, args, kw):
    s, lo, n = args
    return Val(s.t, z3.SubString(s.z, lo.z, n.z))


def bi_str_index(st, args, kw):
    s, sub, start = args
    return E.mk_int(z3.IndexOf(s.z, sub.z, start.z))


def bi_py_int_ok(st, args, kw):
    return E.mk_bool(z3.Function('py_int_ok', z3.StringSort(), z3.BoolSort())(args[0].z))


def bi_py_int_val(st, args, kw):
    return E.mk_int(z3.Function('py_int_val', z3.StringSort(), z3.IntSort())(args[0].z))


def bi_py_join_seq(st, args, kw):
    sep, items = args
    s, et = B.seq_of(st, items)
    f = z3.Function('py_join_seq_' + T.sort_name(T.sort_of(et)), z3.StringSort(),
                    z3.ArraySort(I, T.sort_of(et)), I, z3.StringSort())
    return Val(sep.t, f(sep.z, s.arr, s.n))


def bi_subseq(st, args, kw):
    """subseq(l, lo, hi) == l[lo:hi] (Python slice semantics, the same terms the code's slicing produces)"""
    v, lo, hi = args
    was = st.spec
    st.spec = True
    try:
        return B.get_slice(st, v, lo, hi)
    finally:
        st.spec = was


def bi_alloc_ordered(st, args, kw):
    """alloc_ordered(l): the objects in l appear in allocation order (strictly increasing references) --
    a ghost fact that implies pairwise distinctness and is preserved by appending a newly created object"""
    s, et = B.seq_of(st, args[0])
    st.nfresh += 1
    i = z3.Int('i!ao%d' % st.nfresh)
    j = z3.Int('j!ao%d' % st.nfresh)
    return E.mk_bool(z3.ForAll([i, j], z3.Implies(z3.And(0 <= i, i < j, j < s.n),
                                                  z3.Select(s.arr, i) < z3.Select(s.arr, j)),
                               patterns=[z3.MultiPattern(z3.Select(s.arr, i), z3.Select(s.arr, j))]))


def bi_str_suffix(st, args, kw):
    return E.mk_bool(z3.SuffixOf(args[1].z, args[0].z))


def bi_py_decode(st, args, kw):
    return Val(T.STR, z3.Function('py_decode', z3.StringSort(), z3.StringSort())(args[0].z))


def bi_subset(st, args, kw):
    """subset(a, b) for sets: quantifier-free (combinatory array logic: map(=>, a, b) == K(true))"""
    sa, ea = B.set_value(st, args[0])
    sb, eb = B.set_value(st, args[1])
    imp = z3.Implies(z3.Bool('a'), z3.Bool('b')).decl()
    return E.mk_bool(z3.Map(imp, sa, sb) == z3.K(T.sort_of(ea), True))


def bi_mkseq(st, args, kw):
    a, n = args
    return Val(T.TSeq(a.t.args[1]), SeqV(a.z, n.z))


def bi_is_list(st, args, kw):
    v = args[0]
    return E.mk_bool(z3.And(v.z != 0, B.is_real_list(v.z)))


def bi_store(st, args, kw):
    m, k, v = args
    if m.t.kind == 'mapv':
        return Val(m.t, z3.Store(m.z, st.coerce(k, m.t.args[0]).z, st.coerce(v, m.t.args[1]).z))
    if m.t.kind in ('setv', 'set'):
        sv, et = B.set_value(st, m)
        return Val(T.TSetV(et), z3.Store(sv, st.coerce(k, et).z, E.truthy(st, v)))
    raise Undecided('store on %r' % (m.t,))


def bi_dict_has(st, args, kw):
    d, k = args
    keys, mp, has = st.dict_parts(d.z, *d.t.args)
    return E.mk_bool(z3.Select(has, st.coerce(k, d.t.args[0]).z))


def bi_dict_wf(st, args, kw):
    """dict_wf(d): the representation invariant of a dict (key sequence without repetition, membership map and
    index function agree) -- needed as a loop invariant when the loop's frame covers the dict (e.g. 'fresh')"""
    d = args[0]
    return E.mk_bool(z3.And(d.z != 0, st.dict_wf(d.z, d.t.args[0], d.t.args[1])))


def bi_dict_get(st, args, kw):
    d, k = args
    keys, mp, has = st.dict_parts(d.z, *d.t.args)
    return Val(d.t.args[1], z3.Select(mp, st.coerce(k, d.t.args[0]).z))


def bi_dict_index(st, args, kw):
    """dict_index(d, k): position of key k in the (insertion-ordered) key sequence of d"""
    d, k = args
    kt = d.t.args[0]
    keys, mp, has = st.dict_parts(d.z, *d.t.args)
    idx = z3.Function('$didx_' + T.sort_name(T.sort_of(kt)), z3.ArraySort(I, T.sort_of(kt)), T.sort_of(kt), I)
    return E.mk_int(idx(keys.arr, st.coerce(k, kt).z))


def bi_dict_keys(st, args, kw):
    d = args[0]
    keys, mp, has = st.dict_parts(d.z, *d.t.args)
    return Val(T.TSeq(d.t.args[0]), keys)


def bi_dict(st, args, kw):
    if not args:
        return B.new_dict(st, None)
    h = SPECFUNS.get('py_dict')
    if h is None:
        raise Undecided('dict(...) model missing')
    return h(st, args)


_BUILTINS = {
    'mkseq': bi_mkseq, 'subset': bi_subset, 'str_suffix': bi_str_suffix, 'py_decode': bi_py_decode, 'alloc_ordered': bi_alloc_ordered, 'py_join_seq': bi_py_join_seq, 'subseq': bi_subseq, 'py_int_ok': bi_py_int_ok, 'py_int_val': bi_py_int_val, 'substr': bi_substr, 'str_index': bi_str_index, 'py_lower': bi_py_lower, 'substr_after_last': bi_substr_after_last, 'pure_IO_encrypted_of': bi_pure_IO_encrypted_of, 'str_prefix': bi_str_prefix, 'nraised': bi_nraised, 'allocated': bi_allocated, 'preexisting': bi_preexisting, 'ncalls': bi_ncalls, 'call_arg': bi_call_arg,
    'call_result': bi_call_result, 'trig': bi_trig, 'same': bi_same, 'is_list': bi_is_list, 'store': bi_store, 'dict_has': bi_dict_has, 'dict_wf': bi_dict_wf,
    'dict_get': bi_dict_get, 'dict_keys': bi_dict_keys, 'dict': bi_dict, 'dict_index': bi_dict_index,
    'len': bi_len, 'set': bi_set, 'list': bi_list, 'tuple': bi_tuple, 'min': bi_min, 'max': bi_max,
    'seq': bi_seq, 'setv': bi_setv, 'set_of': bi_set_of, 'sorted_by': bi_sorted_by,
    'distinct_by': bi_distinct_by, 'fresh': bi_fresh, 'is_fresh': bi_fresh, 'ite': bi_ite,
    'bool': bi_bool, 'str': bi_str, 'repr': bi_repr, 'callable': bi_callable, 'abs': bi_abs,
    'int': bi_int, 'float': bi_float, 'sorted': bi_sorted, 'range': bi_range, 'enumerate': bi_enumerate,
    'zip': bi_zip, 'reversed': bi_reversed, 'bytearray': bi_bytearray,
    'memoryview': bi_memoryview, 'bytes': bi_bytes,
    'map': lambda st, args, kw: bi_map(st, args, kw), 'repeat': lambda st, args, kw: Val(T.Ty('repeat'), args[0]),
}


# ------------------------------------------------------------------ builtin methods
def call_builtin_method(st, recv, name, args, kwargs):
    k = recv.t.kind
    h = METHOD_MODELS.get((k, name))
    if h is None and k == 'seq':
        h = METHOD_MODELS.get(('list', name))
    if h is None:
        raise Undecided('method %s.%s not modelled (line %s)' % (k, name, st.lineno))
    return h(st, recv, args, kwargs)


@method_model('list', 'append')
def _list_append(st, recv, args, kw):
    B.list_append(st, recv, args[0])
    return E.NONE_VAL()


@method_model('list', 'extend')
def _list_extend(st, recv, args, kw):
    B.list_extend(st, recv, args[0])
    return E.NONE_VAL()


@method_model('list', 'index')
def _list_index(st, recv, args, kw):
    s, et = B.seq_of(st, recv)
    x = st.coerce(args[0], et)
    if et.kind == 'ref' and B._class_eq(et.name):
        raise Undecided('list.index on objects with __eq__')
    k = z3.Int('k!ix')
    found = B.seq_contains(st, s, x.z)
    if not st.spec:
        E.check_or_raise(st, found, 'ValueError')
    r = st.fresh(I, 'idx')
    # first occurrence
    st.assume(z3.And(0 <= r, r < s.n, z3.Select(s.arr, r) == x.z))
    st.assume(z3.ForAll([k], z3.Implies(z3.And(0 <= k, k < r), z3.Select(s.arr, k) != x.z),
                        patterns=[z3.Select(s.arr, k)]))
    return E.mk_int(r)


@method_model('list', 'remove')
def _list_remove(st, recv, args, kw):
    et = recv.t.args[0]
    idx = _list_index(st, recv, args, kw)
    E.check_frame_contents(st, recv.z)
    s = st.list_seq(recv.z, et)
    st.list_store(recv.z, et, B.seq_remove_at(st, s, T.sort_of(et), idx.z))
    return E.NONE_VAL()


@method_model('list', 'pop')
def _list_pop(st, recv, args, kw):
    et = recv.t.args[0]
    E.check_frame_contents(st, recv.z)
    s = st.list_seq(recv.z, et)
    E.check_or_raise(st, s.n > 0, 'IndexError')
    if not args:
        v = Val(et, z3.Select(s.arr, s.n - 1))
        st.list_store(recv.z, et, SeqV(s.arr, s.n - 1))
        return v
    i = B.norm_index(st, args[0], s.n)
    E.check_or_raise(st, z3.And(0 <= i, i < s.n), 'IndexError')
    v = Val(et, z3.Select(s.arr, i))
    st.list_store(recv.z, et, B.seq_remove_at(st, s, T.sort_of(et), i))
    return v


@method_model('list', 'insert')
def _list_insert(st, recv, args, kw):
    et = recv.t.args[0]
    E.check_frame_contents(st, recv.z)
    s = st.list_seq(recv.z, et)
    p = args[0].z
    p = z3.If(p < 0, z3.If(p + s.n < 0, 0, p + s.n), z3.If(p > s.n, s.n, p))
    pf = st.fresh(I, 'inspos')
    st.assume(pf == p)
    st.list_store(recv.z, et, B.seq_insert(st, s, T.sort_of(et), pf, st.coerce(args[1], et).z))
    return E.NONE_VAL()


@method_model('set', 'add')
def _set_add(st, recv, args, kw):
    if recv.t.args[0].kind == 'unknown':
        st.init_empty(recv, T.TSet(args[0].t))
    et = recv.t.args[0]
    E.check_or_raise(st, recv.z != 0, 'AttributeError')
    E.check_frame_contents(st, recv.z)
    x = st.coerce(args[0], et).z
    cur = st.set_val(recv.z, et)
    card = None
    if ('$scard:' + T.sort_name(T.sort_of(et))) in st.heap:     # only when len(set) is in use
        card = st.set_card(recv.z, et) + z3.If(z3.Select(cur, x), 0, 1)
    st.set_store(recv.z, et, z3.Store(cur, x, True), card)
    return E.NONE_VAL()


@method_model('set', 'discard')
def _set_discard(st, recv, args, kw):
    et = recv.t.args[0]
    E.check_or_raise(st, recv.z != 0, 'AttributeError')
    E.check_frame_contents(st, recv.z)
    x = st.coerce(args[0], et).z
    cur = st.set_val(recv.z, et)
    card = None
    if ('$scard:' + T.sort_name(T.sort_of(et))) in st.heap:
        card = st.set_card(recv.z, et) - z3.If(z3.Select(cur, x), 1, 0)
    st.set_store(recv.z, et, z3.Store(cur, x, False), card)
    return E.NONE_VAL()


@method_model('set', 'remove')
def _set_remove(st, recv, args, kw):
    et = recv.t.args[0]
    x = st.coerce(args[0], et).z
    E.check_or_raise(st, z3.Select(st.set_val(recv.z, et), x), 'KeyError')
    return _set_discard(st, recv, args, kw)


@method_model('dict', 'get')
def _dict_get(st, recv, args, kw):
    kt, vt = recv.t.args
    keys, mp, has = st.dict_parts(recv.z, kt, vt)
    k = st.coerce(args[0], kt).z
    default = args[1] if len(args) > 1 else E.NONE_VAL()
    if st.spec:
        u = T.TUnion(vt, default.t)
        return Val(u, z3.If(z3.Select(has, k), st.coerce(Val(vt, z3.Select(mp, k)), u).z,
                            st.coerce(default, u).z)) if u.kind == 'union' else \
            Val(vt, z3.If(z3.Select(has, k), z3.Select(mp, k), default.z))
    if st.branch(z3.Select(has, k)):
        v = Val(vt, z3.Select(mp, k))
        st.assume_type(v)
        return v
    return default


@method_model('dict', 'items')
def _dict_items(st, recv, args, kw):
    from . import loops
    return loops.make_dict_items(st, recv)


@method_model('dict', 'keys')
def _dict_keys(st, recv, args, kw):
    kt, vt = recv.t.args
    keys, mp, has = st.dict_parts(recv.z, kt, vt)
    return Val(T.TSeq(kt), keys)


@method_model('dict', 'values')
def _dict_values(st, recv, args, kw):
    from . import loops
    return loops.make_dict_values(st, recv)


@method_model('dict', 'setdefault')
def _dict_setdefault(st, recv, args, kw):
    kt, vt = recv.t.args
    keys, mp, has = st.dict_parts(recv.z, kt, vt)
    k = st.coerce(args[0], kt)
    if st.branch(z3.Select(has, k.z)):
        v = Val(vt, z3.Select(mp, k.z))
        st.assume_type(v)
        return v
    B.dict_set(st, recv, k, args[1])
    return st.coerce(args[1], vt)


# --- strings / bytes
def _strm(name):
    def deco(f):
        METHOD_MODELS[('str', name)] = f
        METHOD_MODELS[('bytes', name)] = f
        return f
    return deco


@_strm('startswith')
def _startswith(st, recv, args, kw):
    a = args[0]
    if a.t.kind != recv.t.kind:
        if st.spec:
            raise Undecided('startswith with mismatched types in spec')
        E.raise_exc(st, 'TypeError')
    return E.mk_bool(z3.PrefixOf(a.z, recv.z))


@_strm('endswith')
def _endswith(st, recv, args, kw):
    a = args[0]
    if a.t.kind != recv.t.kind:
        if st.spec:
            raise Undecided('endswith with mismatched types in spec')
        E.raise_exc(st, 'TypeError')
    return E.mk_bool(z3.SuffixOf(a.z, recv.z))


@_strm('find')
def _find(st, recv, args, kw):
    start = args[1].z if len(args) > 1 else z3.IntVal(0)
    return E.mk_int(z3.IndexOf(recv.z, args[0].z, start))


@_strm('tobytes')
def _tobytes(st, recv, args, kw):
    return recv


@_strm('lower')
def _lower(st, recv, args, kw):
    f = z3.Function('py_lower', z3.StringSort(), z3.StringSort())
    return Val(recv.t, f(recv.z))


@_strm('upper')
def _upper(st, recv, args, kw):
    f = z3.Function('py_upper', z3.StringSort(), z3.StringSort())
    return Val(recv.t, f(recv.z))


@_strm('join')
def _join(st, recv, args, kw):
    h = SPECFUNS.get('py_join')
    if h is None:
        raise Undecided('join model missing')
    return h(st, [recv] + args)


# ------------------------------------------------------------------ more string / bytes methods
@_strm('decode')
def _decode(st, recv, args, kw):
    """bytes.decode(codec): utf-8 / ascii.  Raises UnicodeDecodeError on undecodable input; the decoded
    text is an uninterpreted function of the bytes (identity on ASCII is not needed by the contracts)."""
    ok = z3.Function('py_decodable', z3.StringSort(), z3.BoolSort())
    dec = z3.Function('py_decode', z3.StringSort(), z3.StringSort())
    if len(args) > 1:
        # errors='replace' / 'ignore': never raises
        dec2 = z3.Function('py_decode_lenient', z3.StringSort(), z3.StringSort())
        return Val(T.STR, dec2(recv.z))
    if not st.spec:
        E.check_or_raise(st, ok(recv.z), 'UnicodeDecodeError')
    return Val(T.STR, dec(recv.z))


@_strm('encode')
def _encode(st, recv, args, kw):
    ok = z3.Function('py_encodable', z3.StringSort(), z3.BoolSort())
    enc = z3.Function('py_encode', z3.StringSort(), z3.StringSort())
    if not st.spec:
        E.check_or_raise(st, ok(recv.z), 'UnicodeEncodeError')
    return Val(T.BYTES, enc(recv.z))


@_strm('format')
def _format(st, recv, args, kw):
    st.nfresh += 1
    return Val(recv.t, st.fresh(z3.StringSort(), 'fmt'))


@_strm('strip')
def _strip(st, recv, args, kw):
    f = z3.Function('py_strip', z3.StringSort(), z3.StringSort())
    return Val(recv.t, f(recv.z))


# ------------------------------------------------------------------ gevent.Timeout scopes (G4)
def _timeout_enter(st, cm):
    st.ghost['$timeout_depth'] = st.ghost.get('$timeout_depth', 0) + 1
    try:
        sec = st.read_field(cm.z, 'Timeout', 'seconds')
    except Undecided:
        sec = None
    st.ghost.setdefault('$timeout_stack', []).append(sec)
    return None


def _timeout_exit(st, cm, tok, pr):
    st.ghost['$timeout_depth'] = st.ghost.get('$timeout_depth', 0) - 1
    if st.ghost.get('$timeout_stack'):
        st.ghost['$timeout_stack'].pop()
    return False


def prove_scope_governed(st, c, line):
    """G4, second half: the innermost enclosing Timeout scope is governed by one of the timeouts the class
    is configured with (a scope built from an unrelated value bounds nothing)."""
    fc = st.contract
    names = getattr(fc, 'scope_timeouts', None) if fc is not None else None
    stack = st.ghost.get('$timeout_stack') or []
    if not names or not stack or stack[-1] is None:
        return
    sec = stack[-1]
    alts = []
    for nm in names:
        v = E.eval_spec(st, nm, dict(st.old_locals or {}))
        alts.append(st.coerce(v, sec.t).z == sec.z if v.t != sec.t else v.z == sec.z)
    st.prove('call[%s]@%d/scope-governed' % (c.key, line), z3.Or(alts), kind='scope', lineno=line)


CONTEXT_MANAGERS['Timeout'] = (_timeout_enter, _timeout_exit)


def _sem_enter(st, cm):
    """`with semaphore:` is acquire() ... finally release() -- through the contracts of those two methods"""
    c = R.find_contract('Semaphore', 'acquire')
    if c is None:
        raise Undecided('with Semaphore: no contract for Semaphore.acquire')
    call_contract(st, c, [cm], {}, None)
    return None


def _sem_exit(st, cm, tok, pr):
    c = R.find_contract('Semaphore', 'release')
    if c is None:
        raise Undecided('with Semaphore: no contract for Semaphore.release')
    call_contract(st, c, [cm], {}, None)
    return False


CONTEXT_MANAGERS['Semaphore'] = (_sem_enter, _sem_exit)


def bi_in_timeout_scope(st, args, kw):
    return E.mk_bool(z3.BoolVal(st.ghost.get('$timeout_depth', 0) > 0))


_BUILTINS['in_timeout_scope'] = bi_in_timeout_scope


@_strm('rstrip')
def _rstrip(st, recv, args, kw):
    f = z3.Function('py_rstrip', z3.StringSort(), z3.StringSort())
    r = f(recv.z)
    # rstrip returns a prefix of the string (no longer than it)
    st.assume(z3.And(z3.PrefixOf(r, recv.z)))
    return Val(recv.t, r)


@_strm('lstrip')
def _lstrip(st, recv, args, kw):
    f = z3.Function('py_lstrip', z3.StringSort(), z3.StringSort())
    r = f(recv.z)
    st.assume(z3.SuffixOf(r, recv.z))
    return Val(recv.t, r)


def _py_join(st, args):
    sep, items = args[0], args[1]
    its = E.tuple_items(st, items)
    if its is None:
        s, et = B.seq_of(st, items)
        f = z3.Function('py_join_seq_' + T.sort_name(T.sort_of(et)), z3.StringSort(),
                        z3.ArraySort(I, T.sort_of(et)), I, z3.StringSort())
        return Val(sep.t, f(sep.z, s.arr, s.n))
    out = None
    for it in its:
        if it.t.kind == 'union':
            it = E.concretize(st, it)
        if it.t.kind != sep.t.kind:
            if st.spec:
                raise Undecided('join of mismatched types in spec')
            E.raise_exc(st, 'TypeError')
        out = it.z if out is None else z3.Concat(out, sep.z, it.z)
    if out is None:
        out = z3.StringVal('')
    return Val(sep.t, out)


SPECFUNS['py_join'] = _py_join


def bi_map(st, args, kw):
    """map(f, *iterables) for f = <spawner>.spawn: the lazily produced sequence of greenlets, one per
    position (as many as the shortest iterable; repeat(x) is infinite).  Modelled eagerly as a list."""
    h = SPECFUNS.get('py_map')
    if h is None:
        raise Undecided('map() model missing')
    return h(st, args)
