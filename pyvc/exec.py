"""Expression / statement semantics of the pyvc symbolic executor.

One evaluator is used for the code (``st.spec == False``) and for contract
clauses (``st.spec == True``); in spec mode no heap mutation or allocation
happens, containers read as values and the spec helpers (old, forall, ...) are
available."""
import ast
import z3

from . import types as T
from . import registry as R
from . import frontend as F
from .core import (Val, SeqV, FnV, PathEnd, Undecided, PyRaise, ReturnSig, BreakSig,
                   ContinueSig, TYPEOF, has_quantifier)
from . import builtins as B

I = z3.IntSort()


def NONE_VAL():
    return Val(T.NONE, T.PyVal.none)


def mk_bool(b):
    return Val(T.BOOL, b)


def mk_int(i):
    return Val(T.INT, i if z3.is_expr(i) else z3.IntVal(i))


def mk_str(s, ty=T.STR):
    return Val(ty, z3.StringVal(s) if isinstance(s, str) else s)


def bytes_lit(b):
    return z3.StringVal(''.join(chr(c) for c in b))


# --------------------------------------------------------------- truthiness
def truthy(st, v):
    k = v.t.kind
    if k == 'bool':
        return v.z
    if k == 'int':
        return v.z != 0
    if k == 'real':
        return v.z != 0
    if k in ('str', 'bytes'):
        return z3.Length(v.z) > 0
    if k == 'none':
        return z3.BoolVal(False)
    if k == 'list':
        return z3.And(v.z != 0, st.list_seq(v.z, v.t.args[0]).n > 0)
    if k == 'set':
        return z3.And(v.z != 0, B.set_nonempty(st, v))
    if k == 'dict':
        return z3.And(v.z != 0, st.dict_parts(v.z, *v.t.args)[0].n > 0)
    if k == 'seq':
        return v.z.n > 0
    if k == 'tuple':
        return z3.BoolVal(len(v.t.args) > 0)
    if k == 'ref':
        ci = R.CLASSES.get(v.t.name)
        tr = None
        for c in R.mro(v.t.name):
            if R.CLASSES.get(c) and R.CLASSES[c].truthy is not None:
                tr = R.CLASSES[c].truthy
                break
        if tr is None:
            return v.z != 0
        env = {'self': v}
        return z3.And(v.z != 0, eval_spec(st, tr, env).z)
    if k == 'union':
        z = v.z
        P = T.PyVal
        alts = v.t.args or None
        conds = []
        conds.append(z3.And(P.is_b(z), P.b_v(z)))
        conds.append(z3.And(P.is_i(z), P.i_v(z) != 0))
        conds.append(z3.And(P.is_r(z), P.r_v(z) != 0))
        conds.append(z3.And(P.is_s(z), z3.Length(P.s_v(z)) > 0))
        conds.append(z3.And(P.is_y(z), z3.Length(P.y_v(z)) > 0))
        # objects: depends on class; handle declared alternatives
        if alts:
            for a in alts:
                if a.is_reflike:
                    sub = Val(a, P.o_v(z))
                    conds.append(z3.And(T.tester(a, z), truthy(st, sub)))
        else:
            conds.append(z3.And(P.is_o(z), P.o_v(z) != 0))
        return z3.Or(conds)
    if k in ('fn', 'typeobj'):
        return z3.BoolVal(True)
    raise Undecided('truthiness of %r' % (v.t,))


# --------------------------------------------------------------- spec entry
_SPEC_CACHE = {}


def parse_spec(src):
    if src not in _SPEC_CACHE:
        _SPEC_CACHE[src] = ast.parse(src.strip(), mode='eval').body
    return _SPEC_CACHE[src]


def eval_spec(st, src, env, old_heap=None, old_locals=None):
    """Evaluate a contract clause (text) in the current heap with the given bindings."""
    node = parse_spec(src) if isinstance(src, str) else src
    saved = (st.locals, st.spec, st.old_heap, st.old_locals)
    st.locals = dict(env)
    st.spec = True
    if old_heap is not None:
        st.old_heap = old_heap
    if old_locals is not None:
        st.old_locals = old_locals
    try:
        v = ev(st, node)
    finally:
        st.locals, st.spec, st.old_heap, st.old_locals = saved
    return v


def spec_bool(st, src, env, **kw):
    st.spec_src = src if isinstance(src, str) else '?'
    v = eval_spec(st, src, env, **kw)
    return truthy(st, v)


# --------------------------------------------------------------- raising
def raise_exc(st, cls, **fields):
    if st.spec:
        raise Undecided('exception %s raised inside a specification (%s)' % (cls, getattr(st, 'spec_src', '?')))
    ref = st.new_ref(cls) if cls in R.CLASSES else st.new_ref('OtherException')
    for f, v in fields.items():
        st.write_field(ref, cls, f, v)
    raise PyRaise(cls, ref, st.lineno)


def check_or_raise(st, cond, cls, what=''):
    """Python run-time check: if cond may fail the corresponding exception path is explored."""
    if st.spec:
        return
    if not st.branch(cond):
        raise_exc(st, cls)


# --------------------------------------------------------------- expressions
def ev(st, n):
    m = _EXPR.get(type(n))
    if m is None:
        raise Undecided('unsupported expression %s at line %s' % (type(n).__name__, getattr(n, 'lineno', '?')))
    return m(st, n)


def ev_constant(st, n):
    v = n.value
    if v is None:
        return NONE_VAL()
    if isinstance(v, bool):
        return mk_bool(z3.BoolVal(v))
    if isinstance(v, int):
        return mk_int(v)
    if isinstance(v, float):
        return Val(T.REAL, z3.RealVal(repr(v)))
    if isinstance(v, str):
        return mk_str(v)
    if isinstance(v, bytes):
        return Val(T.BYTES, bytes_lit(v))
    raise Undecided('constant %r' % (v,))


def ev_name(st, n):
    nm = n.id
    if nm in st.locals:
        return st.locals[nm]
    if nm in ('True', 'False'):
        return mk_bool(z3.BoolVal(nm == 'True'))
    g = B.lookup_global(st, nm)
    if g is not None:
        return g
    raise Undecided('unknown name %s at line %s in %s' % (nm, getattr(n, 'lineno', '?'), st.ex.func_key))


def mangle(st, attr):
    if attr.startswith('__') and not attr.endswith('__') and st.fn is not None and st.fn.cls:
        return '_%s%s' % (st.fn.cls.lstrip('_'), attr)
    return attr


def ev_attribute(st, n):
    # module constants such as socket.AF_INET
    if isinstance(n.value, ast.Name) and n.value.id not in st.locals:
        g = B.lookup_module_attr(st, n.value.id, n.attr)
        if g is not None:
            return g
    if isinstance(n.value, ast.Name) and n.value.id == 'dict' and n.attr == 'fromkeys' and 'dict' not in st.locals:
        return Val(T.FN, FnV('specfun', 'dict_fromkeys'))
    if isinstance(n.value, ast.Attribute) and isinstance(n.value.value, ast.Name) \
            and n.value.value.id not in st.locals:
        # function of a sub-module under contract, e.g. os.path.exists
        key = '%s.%s.%s' % (n.value.value.id, n.value.attr, n.attr)
        if key in R.CONTRACTS:
            return Val(T.FN, FnV('func', key))
    obj = ev(st, n.value)
    return get_attr(st, obj, n.attr, n)


def get_attr(st, obj, attr, n=None):
    if obj.t.kind == 'union':
        obj = concretize(st, obj)
    k = obj.t.kind
    if k == 'ref':
        cls = obj.t.name
        if not st.spec:
            check_or_raise(st, obj.z != 0, 'AttributeError')
        if cls == 'Logger':
            return Val(T.FN, FnV('noop', attr))       # logging: no effect on verified state
        dcls, fty = R.find_field(cls, attr)
        if dcls is not None:
            return st.read_field(obj.z, cls, attr)
        mattr = attr
        c = R.find_contract(cls, mattr)
        if c is None and st.fn is not None and st.fn.cls:
            c = R.find_contract(cls, attr)
        if c is not None:
            if getattr(c, 'is_property', False):
                from . import calls
                return calls.call_contract(st, c, [obj], {}, n)
            return Val(T.FN, FnV('bound', attr, recv=obj, cls=cls))
        cc = B.class_constant(st, cls, attr)
        if cc is not None:
            return cc
        for cn in R.mro(cls):
            ci = R.CLASSES.get(cn)
            if ci is not None and ci.module and attr in F.class_methods(ci.module, cn):
                return Val(T.FN, FnV('bound', attr, recv=obj, cls=cls))
        raise Undecided('no field or contract %s.%s (line %s, in %s)' % (cls, attr, getattr(n, 'lineno', '?'), st.ex.func_key))
    if k == 'typeobj':
        # Class.attr: classmethod / staticmethod / class constant
        cls = obj.z.name
        c = R.find_contract(cls, attr)
        if c is not None:
            return Val(T.FN, FnV('bound', attr, recv=obj, cls=cls))
        cc = B.class_constant(st, cls, attr)
        if cc is not None:
            return cc
        raise Undecided('no contract %s.%s' % (cls, attr))
    if k == 'super':
        cls, recv = obj.z
        for c in R.mro(cls)[1:]:
            if ('%s.%s' % (c, attr)) in R.CONTRACTS:
                return Val(T.FN, FnV('bound', attr, recv=Val(T.TRef(c), recv.z), cls=c))
        raise Undecided('super(%s, ...).%s: no contract along the MRO' % (cls, attr))
    if k in ('list', 'set', 'dict', 'str', 'bytes', 'seq', 'tuple'):
        return Val(T.FN, FnV('builtin_method', attr, recv=obj))
    if k == 'none':
        raise_exc(st, 'AttributeError')
    raise Undecided('attribute %s of %r (line %s)' % (attr, obj.t, getattr(n, 'lineno', '?')))


def concretize(st, v, want=None):
    """Split a union-typed value into its alternatives (forking the path)."""
    if v.t.kind != 'union':
        return v
    alts = list(v.t.args)
    if not alts:
        raise Undecided('operation on a value of unknown type (Any) at line %s' % st.lineno)
    if st.spec:
        raise Undecided('spec applies a typed operation to a union value; narrow it with isinstance/is None first')
    for a in alts[:-1]:
        if st.branch(typed_tester(st, a, v.z)):
            return unboxed(st, v, a)
    a = alts[-1]
    st.assume(typed_tester(st, a, v.z))
    return unboxed(st, v, a)


def typed_tester(st, ty, z):
    """The PyVal z holds alternative ty -- for object alternatives including the dynamic class, so that two
    object-valued alternatives (Set[..] | List[..], Reply | List[Reply]) are told apart."""
    from .core import TYPEOF
    c = T.tester(ty, z)
    if ty.is_reflike and ty.kind != 'ref':
        tg = TYPEOF(T.PyVal.o_v(z)) == R.CLASSES[ty.kind].tag
        if ty.kind == 'list':
            tg = z3.Or(tg, TYPEOF(T.PyVal.o_v(z)) == R.CLASSES['tuple'].tag)
        c = z3.And(c, tg)
    if ty.kind == 'ref' and ty.name in R.CLASSES and ty.name != 'object':
        c = z3.And(c, st.isinstance_term(T.PyVal.o_v(z), ty.name))
    return c


def unboxed(st, v, a):
    if a.kind == 'none':
        return NONE_VAL()
    return Val(a, T.unbox(a, v.z))


def ev_tuple(st, n):
    items = [ev(st, e) for e in n.elts]
    return make_tuple(st, items)


def make_tuple(st, items):
    for it in items:
        if it.t.kind in ('seq', 'setv', 'fn', 'typeobj'):
            # executor-level tuple (cannot be stored in the heap)
            return Val(T.Ty('xtuple'), tuple(items))
    ty = T.TTuple(*[it.t for it in items])
    if not items:
        return Val(T.Ty('xtuple'), ())
    return Val(ty, T.sort_of(ty).constructor(0)(*[it.z for it in items]))


def tuple_items(st, v):
    if v.t.kind == 'xtuple':
        return list(v.z)
    if v.t.kind == 'tuple':
        dt = T.sort_of(v.t)
        return [Val(a, z3.simplify(dt.accessor(0, i)(v.z))) for i, a in enumerate(v.t.args)]
    return None


def ev_list(st, n):
    items = [ev(st, e) for e in n.elts]
    return B.new_list(st, items)


def ev_set(st, n):
    items = [ev(st, e) for e in n.elts]
    return B.new_set(st, items)


def ev_dict(st, n):
    d = B.new_dict(st, None)
    items = []
    for k, v in zip(n.keys, n.values):
        if k is None:
            raise Undecided('dict unpacking in literal')
        items.append((ev(st, k), ev(st, v)))
    if items:
        kt = items[0][0].t
        vt = items[0][1].t
        for _, v in items[1:]:
            if v.t != vt:
                vt = T.TUnion(vt, v.t)
        st.init_empty(d, T.TDict(kt, vt))
    for k, v in items:
        B.dict_set(st, d, k, v)
    return d


def ev_unary(st, n):
    v = ev(st, n.operand)
    if isinstance(n.op, ast.Not):
        return mk_bool(z3.Not(truthy(st, v)))
    if isinstance(n.op, ast.USub):
        if v.t.kind == 'union':
            v = concretize(st, v)
        return Val(v.t, -v.z)
    raise Undecided('unary %s' % type(n.op).__name__)


def ev_boolop(st, n):
    if st.spec:
        vals = [truthy(st, ev(st, e)) for e in n.values]
        return mk_bool(z3.And(vals) if isinstance(n.op, ast.And) else z3.Or(vals))
    # Python short-circuit semantics, value-returning
    cur = ev(st, n.values[0])
    for e in n.values[1:]:
        t = truthy(st, cur)
        if isinstance(n.op, ast.And):
            if not st.branch(t):
                return cur
        else:
            if st.branch(t):
                return cur
        cur = ev(st, e)
    return cur


def ev_ifexp(st, n):
    c = truthy(st, ev(st, n.test))
    if st.spec:
        a = ev(st, n.body)
        b = ev(st, n.orelse)
        if a.t != b.t:
            if a.t.kind in ('int', 'real') and b.t.kind in ('int', 'real'):
                a, b = st.coerce(a, T.REAL), st.coerce(b, T.REAL)
            else:
                u = T.TUnion(a.t, b.t)
                a, b = st.coerce(a, u), st.coerce(b, u)
        if a.t.kind == 'seq':
            raise Undecided('conditional sequence value in spec')
        return Val(a.t, z3.If(c, a.z, b.z))
    if st.branch(c):
        return ev(st, n.body)
    return ev(st, n.orelse)


def ev_compare(st, n):
    left = ev(st, n.left)
    res = []
    for op, rn in zip(n.ops, n.comparators):
        right = ev(st, rn)
        res.append(B.compare(st, op, left, right))
        left = right
    if len(res) == 1:
        return mk_bool(res[0])
    return mk_bool(z3.And(res))


def ev_binop(st, n):
    a = ev(st, n.left)
    b = ev(st, n.right)
    return B.binop(st, n.op, a, b)


def ev_subscript(st, n):
    obj = ev(st, n.value)
    if isinstance(n.slice, ast.Slice):
        lo = ev(st, n.slice.lower) if n.slice.lower is not None else None
        hi = ev(st, n.slice.upper) if n.slice.upper is not None else None
        if n.slice.step is not None:
            raise Undecided('slice step')
        return B.get_slice(st, obj, lo, hi)
    idx = ev(st, n.slice)
    return B.get_item(st, obj, idx)


def ev_lambda(st, n):
    return Val(T.FN, FnV('lambda', '<lambda>', node=n, env=dict(st.locals)))


def ev_listcomp(st, n):
    cid = getattr(n, '_comp_ordinal', None)
    key = 'c%s' % cid
    if cid is not None and not st.spec and st.contract is not None and key in st.contract.loops \
            and len(n.generators) == 1 and not n.generators[0].ifs:
        # a comprehension whose element expression has effects: executed as the loop it abbreviates,
        #     _lc<n> = [];  for <target> in <iter>: _lc<n>.append(<elt>)
        # cut at the invariant given under loops={'c<n>': ...}; the result list is the local `_lc<n>`
        name = '_lc%s' % cid
        g = n.generators[0]
        et = st.contract.locals.get(name)
        if et is None or et.kind != 'list':
            raise Undecided('effectful comprehension %s needs locals={%r: "List[...]"}' % (key, name))
        st.locals[name] = B.new_list(st, [], et=et.args[0])
        loop = getattr(n, '_as_loop', None)
        if loop is None:
            body = ast.Expr(value=ast.Call(func=ast.Attribute(value=ast.Name(id=name, ctx=ast.Load()), attr='append',
                                                               ctx=ast.Load()), args=[n.elt], keywords=[]))
            loop = ast.For(target=g.target, iter=g.iter, body=[body], orelse=[], type_comment=None)
            ast.copy_location(loop, n)
            ast.copy_location(body, n)
            ast.fix_missing_locations(loop)
            loop._ordinal = key
            n._as_loop = loop
        from . import loops
        loops.exec_for(st, loop)
        return st.locals[name]
    return B.list_comprehension(st, n)


def ev_call(st, n):
    from . import calls
    return calls.ev_call(st, n)


def ev_starred(st, n):
    raise Undecided('starred expression')


def ev_joinedstr(st, n):
    raise Undecided('f-string')


_EXPR = {
    ast.Constant: ev_constant, ast.Name: ev_name, ast.Attribute: ev_attribute,
    ast.Tuple: ev_tuple, ast.List: ev_list, ast.Set: ev_set, ast.Dict: ev_dict,
    ast.UnaryOp: ev_unary, ast.BoolOp: ev_boolop, ast.IfExp: ev_ifexp,
    ast.Compare: ev_compare, ast.BinOp: ev_binop, ast.Subscript: ev_subscript,
    ast.Lambda: ev_lambda, ast.ListComp: ev_listcomp, ast.Call: ev_call,
    ast.GeneratorExp: ev_listcomp,
}


# --------------------------------------------------------------- lambda application (spec + comprehension)
def apply_fn(st, fv, args):
    f = fv.z
    if f.kind == 'lambda':
        node = f.node
        names = [a.arg for a in node.args.args]
        saved = st.locals
        st.locals = dict(f.env)
        # later bindings of the enclosing spec environment stay visible
        for k, v in saved.items():
            st.locals.setdefault(k, v)
        for nm, a in zip(names, args):
            st.locals[nm] = a
        try:
            return ev(st, node.body)
        finally:
            st.locals = saved
    raise Undecided('cannot apply %r' % (f,))


# --------------------------------------------------------------- statements
def exec_block(st, stmts):
    for s in stmts:
        exec_stmt(st, s)


_GHOST_CACHE = {}


def run_ghost(st, stmts):
    """Ghost statements from the sidecar contract: executed by the same executor, they may assign only ghost
    locals (names starting with `_g`) and declared ghost fields; frame checks are suspended for them."""
    saved = st.frames
    st.frames = None
    try:
        for src in stmts:
            if src not in _GHOST_CACHE:
                _GHOST_CACHE[src] = ast.parse(src).body
            for g in _GHOST_CACHE[src]:
                if isinstance(g, ast.Expr) and isinstance(g.value, ast.Call) and isinstance(g.value.func, ast.Name) \
                        and g.value.func.id == 'abstract':
                    _ghost_abstract(st, g.value)
                    continue
                if isinstance(g, ast.Expr) and isinstance(g.value, ast.Call) and isinstance(g.value.func, ast.Name) \
                        and g.value.func.id == 'lemma':
                    # lemma("fact"): an intermediate obligation in the current state, assumed afterwards (a cut)
                    try:
                        gl = truthy_spec(st, g.value.args[0].value)
                    except Undecided as u:
                        st.ex.notes.append('ghost lemma skipped: %s' % u)     # a proof aid only, see abstract()
                        continue
                    st.prove('ghost-lemma@%s' % st.lineno, gl, 'check', st.lineno)
                    st.assume(gl)
                    continue
                for t in ast.walk(g):
                    if isinstance(t, ast.Name) and isinstance(t.ctx, ast.Store) and not t.id.startswith('_g'):
                        raise Undecided('ghost statement assigns non-ghost local %s' % t.id)
                m = _STMT.get(type(g))
                m(st, g)
    finally:
        st.frames = saved


def _ghost_abstract(st, call):
    """abstract(x, "fact over x"): a cut on an immutable local.  The fact is an obligation in the current state;
    afterwards x stands for an arbitrary value of its type of which only the fact is known (a weakening of the
    state: sound), so that later obligations do not drag the defining term of x along."""
    name = call.args[0].id
    fact = call.args[1].value
    v = st.locals[name]
    if v.t.kind not in ('int', 'bool', 'real', 'str', 'bytes'):
        raise Undecided('abstract(%s): only locals of immutable scalar type' % name)
    try:
        g = truthy_spec(st, fact)
    except Undecided as u:
        # the hint does not fit this state (e.g. the code changed and the fact no longer type-checks): a ghost
        # cut is only a proof aid, so it is skipped -- nothing is forgotten and nothing is assumed
        st.ex.notes.append('ghost abstract(%s) skipped: %s' % (name, u))
        return
    st.prove('ghost-abstract[%s]' % name, g, 'check', st.lineno)
    st.locals[name] = st.fresh_val(v.t, name + '_abs')
    st.assume(truthy_spec(st, fact))


def truthy_spec(st, src):
    return spec_bool(st, src, st.locals)


def exec_stmt(st, s):
    st.lineno = getattr(s, 'lineno', st.lineno)
    m = _STMT.get(type(s))
    if m is None:
        raise Undecided('unsupported statement %s at line %s' % (type(s).__name__, st.lineno))
    m(st, s)
    ga = getattr(st.contract, 'ghost_after', None) if st.contract is not None else None
    if ga and not st.spec and not isinstance(s, (ast.If, ast.For, ast.While, ast.Try, ast.With)):
        key = getattr(s, '_src', None)
        if key is None:
            try:
                key = ast.unparse(s)
            except Exception:
                key = ''
            s._src = key
        if key in ga:
            if not hasattr(st.ex, 'ghost_hit'):
                st.ex.ghost_hit = set()
            st.ex.ghost_hit.add(key)
            run_ghost(st, ga[key])


def ex_expr(st, s):
    if isinstance(s.value, ast.Constant) and isinstance(s.value.value, str):
        return
    if isinstance(s.value, ast.Yield):
        # generator function: modelled as the list of the values it yields when consumed to exhaustion
        # (eager; the consumer must not share state with the generator -- recorded as an assumption)
        out = st.locals.get('_yielded')
        if out is None:
            raise Undecided('yield outside a generator contract at line %s' % st.lineno)
        v = ev(st, s.value.value) if s.value.value is not None else NONE_VAL()
        et = out.t.args[0]
        seq = st.list_seq(out.z, et)
        st.list_store(out.z, et, SeqV(z3.Store(seq.arr, seq.n, st.coerce(v, et).z), seq.n + 1))
        return
    ev(st, s.value)


def ex_pass(st, s):
    pass


def assign_target(st, tgt, val):
    if isinstance(tgt, ast.Name):
        declared = st.contract.locals.get(tgt.id) if st.contract else None
        if declared is not None:
            val = st.coerce(val, declared)
        st.locals[tgt.id] = val
        return
    if isinstance(tgt, (ast.Tuple, ast.List)):
        if val.t.kind == 'union':
            val = concretize(st, val)
        items = tuple_items(st, val)
        if items is None:
            items = B.unpack_iterable(st, val, len(tgt.elts))
        if len(items) != len(tgt.elts):
            raise_exc(st, 'ValueError')
        for t, v in zip(tgt.elts, items):
            assign_target(st, t, v)
        return
    if isinstance(tgt, ast.Attribute):
        obj = ev(st, tgt.value)
        if obj.t.kind == 'union':
            obj = concretize(st, obj)
        if obj.t.kind != 'ref':
            raise Undecided('attribute store on %r' % (obj.t,))
        check_or_raise(st, obj.z != 0, 'AttributeError')
        check_frame(st, obj.z, obj.t.name, tgt.attr)
        st.write_field(obj.z, obj.t.name, tgt.attr, val)
        return
    if isinstance(tgt, ast.Subscript):
        obj = ev(st, tgt.value)
        if isinstance(tgt.slice, ast.Slice):
            lo = ev(st, tgt.slice.lower) if tgt.slice.lower is not None else None
            hi = ev(st, tgt.slice.upper) if tgt.slice.upper is not None else None
            B.set_slice(st, obj, lo, hi, val)
        else:
            B.set_item(st, obj, ev(st, tgt.slice), val)
        return
    raise Undecided('assignment target %s' % type(tgt).__name__)


def _frame_ok(st, frame, ref, key, contents):
    targets, threshold = frame
    ok = [ref >= threshold]
    for tgt in targets:
        kind, k, r = tgt[0], tgt[1], tgt[2]
        if contents:
            if kind == 'contents':
                ok.append(ref == r)
                if len(tgt) > 3 and st.yielded:
                    try:
                        now = eval_spec(st, tgt[3], tgt[4])
                        ok.append(ref == now.z)
                    except Undecided:
                        pass
            elif kind == 'fresh':
                ok.append(ref >= st.fn_alloc0)
            elif kind == 'new':
                ok.append(ref >= r)
        else:
            if kind == 'field' and k == key:
                ok.append(ref == r)
            elif kind == 'allfields':
                ok.append(ref == r)
            elif kind == 'anyfield' and k == key:
                return None
            elif kind == 'fresh':
                ok.append(ref >= st.fn_alloc0)
            elif kind == 'new':
                ok.append(ref >= r)
    return z3.Or(ok)


def _check_write(st, ref, key, contents, label):
    """A write must lie inside the function's frame (checked now) and inside the frame of every
    enclosing loop whose head is reached again after the write (checked at the back-edge: a write
    followed by break/return/raise never flows back into that loop's havoc)."""
    if st.frames is None:
        return
    g = _frame_ok(st, st.frames[0], ref, key, contents)
    if g is not None:
        st.prove(label, g, kind='frame')
    for depth in range(1, len(st.frames)):
        g = _frame_ok(st, st.frames[depth], ref, key, contents)
        if g is not None:
            st.pending_writes.append((depth, label + '/loop-frame', g, st.lineno))


def check_frame(st, ref, cls, fname):
    """Write to (ref, field) must be inside the modifies clause or hit a fresh object."""
    key, _ = st.field_key(cls, fname)
    _check_write(st, ref, key, False, 'frame[%s]@%d' % (key, st.lineno))


def check_frame_contents(st, ref):
    _check_write(st, ref, None, True, 'frame[contents]@%d' % st.lineno)


def loop_backedge(st, depth):
    """Control flows back to the head of the loop at `depth`: its frame must cover the pending writes."""
    keep = []
    for (d, label, g, line) in st.pending_writes:
        if d == depth:
            st.prove(label, g, kind='frame', lineno=line)
        elif d < depth:
            keep.append((d, label, g, line))
    st.pending_writes = keep


def loop_exit(st, depth):
    st.pending_writes = [w for w in st.pending_writes if w[0] < depth]


def ex_assign(st, s):
    val = ev(st, s.value)
    for tgt in s.targets:
        assign_target(st, tgt, val)


def ex_augassign(st, s):
    if isinstance(s.target, ast.Name):
        cur = ev(st, s.target)
        if cur.t.kind == 'list' and isinstance(s.op, ast.Add):
            B.list_extend(st, cur, ev(st, s.value))
            return
        new = B.binop(st, s.op, cur, ev(st, s.value))
        assign_target(st, s.target, new)
        return
    if isinstance(s.target, ast.Attribute):
        obj = ev(st, s.target.value)
        cur = get_attr(st, obj, s.target.attr)
        new = B.binop(st, s.op, cur, ev(st, s.value))
        if obj.t.kind == 'union':
            raise Undecided('augmented assignment through union')
        # property setters are contracts named Class.attr.setter
        c = R.find_contract(obj.t.name, s.target.attr + '.setter')
        if c is not None:
            from . import calls
            calls.call_contract(st, c, [obj, new], {}, s)
            return
        check_frame(st, obj.z, obj.t.name, s.target.attr)
        st.write_field(obj.z, obj.t.name, s.target.attr, new)
        return
    if isinstance(s.target, ast.Subscript):
        obj = ev(st, s.target.value)
        idx = ev(st, s.target.slice)
        cur = B.get_item(st, obj, idx)
        new = B.binop(st, s.op, cur, ev(st, s.value))
        B.set_item(st, obj, idx, new)
        return
    raise Undecided('augmented assignment target')


def ex_if(st, s):
    c = ev(st, s.test)
    narrow = B.narrowing(st, s.test)
    if st.branch(truthy(st, c)):
        for nm, ty in narrow.get(True, []):
            B.apply_narrow(st, nm, ty)
        exec_block(st, s.body)
    else:
        for nm, ty in narrow.get(False, []):
            B.apply_narrow(st, nm, ty)
        exec_block(st, s.orelse)


def ex_return(st, s):
    v = ev(st, s.value) if s.value is not None else NONE_VAL()
    raise ReturnSig(v)


def ex_raise(st, s):
    if s.exc is None:
        cur = st.locals.get('$exc')
        if cur is None:
            raise Undecided('bare raise outside except')
        raise PyRaise(cur[0], cur[1], st.lineno)
    v = ev(st, s.exc)
    if v.t.kind == 'typeobj':
        raise_exc(st, v.z.name)
    if v.t.kind == 'union':
        v = concretize(st, v)
    if v.t.kind == 'ref':
        # dynamic class of an exception value: split over known subclasses
        subs = [c for c in R.subclasses_of(v.t.name)]
        if len(subs) == 1:
            raise PyRaise(subs[0], v.z, st.lineno)
        for c in subs[:-1]:
            if st.branch(TYPEOF(v.z) == R.CLASSES[c].tag):
                raise PyRaise(c, v.z, st.lineno)
        st.assume(TYPEOF(v.z) == R.CLASSES[subs[-1]].tag)
        raise PyRaise(subs[-1], v.z, st.lineno)
    raise Undecided('raise of %r' % (v.t,))


def ex_assert(st, s):
    c = ev(st, s.test)
    if not st.branch(truthy(st, c)):
        raise_exc(st, 'AssertionError')


def handler_matches(st, h, cls):
    if h.type is None:
        return True
    names = []
    if isinstance(h.type, ast.Tuple):
        tnodes = h.type.elts
    else:
        tnodes = [h.type]
    for t in tnodes:
        names.append(B.exc_class_name(st, t))
    return any(R.is_subclass(cls, nm) for nm in names)


def ex_try(st, s):
    def run_handlers(pr):
        for h in s.handlers:
            if handler_matches(st, h, pr.cls):
                saved_exc = st.locals.get('$exc')
                st.locals['$exc'] = (pr.cls, pr.ref)
                if h.name:
                    st.locals[h.name] = Val(T.TRef(pr.cls), pr.ref)
                try:
                    exec_block(st, h.body)
                finally:
                    if saved_exc is None:
                        st.locals.pop('$exc', None)
                    else:
                        st.locals['$exc'] = saved_exc
                return True
        return False

    def body():
        try:
            exec_block(st, s.body)
        except PyRaise as pr:
            if not run_handlers(pr):
                raise
        else:
            exec_block(st, s.orelse)

    if not s.finalbody:
        body()
        return
    try:
        body()
    except PathEnd:
        raise
    except Undecided:
        raise
    except (PyRaise, ReturnSig, BreakSig, ContinueSig):
        exec_block(st, s.finalbody)
        raise
    else:
        exec_block(st, s.finalbody)


def ex_with(st, s):
    from . import calls
    calls.exec_with(st, s)


def ex_delete(st, s):
    for t in s.targets:
        if isinstance(t, ast.Subscript):
            obj = ev(st, t.value)
            if isinstance(t.slice, ast.Slice):
                if t.slice.step is not None or obj.t.kind != 'list':
                    raise Undecided('del slice with a step / on a non-list')
                lo = ev(st, t.slice.lower) if t.slice.lower is not None else None
                hi = ev(st, t.slice.upper) if t.slice.upper is not None else None
                B.del_slice(st, obj, lo, hi)
                continue
            B.del_item(st, obj, ev(st, t.slice))
        elif isinstance(t, ast.Name):
            st.locals.pop(t.id, None)
        else:
            raise Undecided('del target')


def ex_break(st, s):
    raise BreakSig()


def ex_continue(st, s):
    raise ContinueSig()


def ex_funcdef(st, s):
    st.locals[s.name] = Val(T.FN, FnV('closure', s.name, node=s, env=st.locals,
                                      cls='%s.%s' % (st.ex.func_key, s.name)))


def ex_for(st, s):
    from . import loops
    loops.exec_for(st, s)


def ex_while(st, s):
    from . import loops
    loops.exec_while(st, s)


def ex_global(st, s):
    pass


_STMT = {
    ast.Expr: ex_expr, ast.Pass: ex_pass, ast.Assign: ex_assign, ast.AugAssign: ex_augassign,
    ast.If: ex_if, ast.Return: ex_return, ast.Raise: ex_raise, ast.Assert: ex_assert,
    ast.Try: ex_try, ast.With: ex_with, ast.Delete: ex_delete, ast.Break: ex_break,
    ast.Continue: ex_continue, ast.FunctionDef: ex_funcdef, ast.For: ex_for,
    ast.While: ex_while, ast.Global: ex_global, ast.Nonlocal: ex_global,
}
