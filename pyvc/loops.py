"""Loops: cut at the invariant.  The invariant is proved on entry, the locals
assigned in the body and the loop's frame are havocked, the invariant is
assumed, the body is executed once for an arbitrary iteration and the invariant
is proved again; the path after the loop starts from the invariant with the
guard false / the iteration index at the end."""
import ast
import z3

from . import types as T
from . import registry as R
from .core import (Val, SeqV, FnV, PathEnd, Undecided, PyRaise, ReturnSig, BreakSig, ContinueSig)
from . import builtins as B
from . import exec as E

I = z3.IntSort()


class IterV(object):
    def __init__(self, n, item, items=None, src=None, dsrc=None):
        self.n = n            # z3 Int: number of elements
        self.item = item      # k (z3 Int) -> Val
        self.items = items    # python list of Vals for fixed-length iterables (unrolled)
        self.src = src        # (list Val, snapshot SeqV) when iterating a heap list
        self.dsrc = dsrc      # (dict Val, snapshot of its key sequence) when iterating a heap dict

    def to_list(self, st):
        probe_k = z3.Int('k!tl%d' % st.nfresh)
        st.nfresh += 1
        pv = self.item(probe_k)
        if pv.t.kind == 'xtuple':
            pv = E.make_tuple(st, list(pv.z))
        es = T.sort_of(pv.t)
        r = B.seq_fresh(st, es, 'tl')
        st.assume(r.n == self.n)
        st.assume(z3.ForAll([probe_k], z3.Implies(z3.And(0 <= probe_k, probe_k < self.n),
                                                  z3.Select(r.arr, probe_k) == pv.z),
                            patterns=[z3.Select(r.arr, probe_k)]))
        if st.spec:
            return Val(T.TSeq(pv.t), r)
        ref = st.new_ref('list')
        st.list_store(ref, pv.t, r)
        return Val(T.TList(pv.t), ref)


def as_iter(st, v):
    if v.t.kind == 'iter':
        return v.z
    if v.t.kind == 'union':
        v = E.concretize(st, v)
    k = v.t.kind
    if k == 'list' and v.t.args and v.t.args[0].kind == 'unknown':
        # an empty list literal whose element type was never determined (e.g. the default of dict.get)
        return IterV(z3.IntVal(0), None, items=[])
    if k == 'list':
        s, et = B.seq_of(st, v)
        return IterV(s.n, lambda kk: Val(et, z3.Select(s.arr, kk)), src=(v, s))
    if k == 'seq':
        s, et = v.z, v.t.args[0]
        return IterV(s.n, lambda kk: Val(et, z3.Select(s.arr, kk)))
    if k in ('tuple', 'xtuple'):
        items = E.tuple_items(st, v)
        return IterV(z3.IntVal(len(items)), None, items=items)
    if k == 'dict':
        kt, vt = v.t.args
        keys, mp, has = st.dict_parts(v.z, kt, vt)
        return IterV(keys.n, lambda kk: Val(kt, z3.Select(keys.arr, kk)), dsrc=(v, keys))
    if k in ('set', 'setv'):
        # iteration order of a set is unspecified: an arbitrary enumeration without repetition
        sv, et = B.set_value(st, v)
        es = T.sort_of(et)
        s = B.seq_fresh(st, es, 'enum')
        kq = z3.Int('k!en')
        jq = z3.Int('j!en')
        x = z3.Const('x!en', es)
        wit = z3.Function('enumidx!%d' % st.nfresh, es, I)
        st.assume(s.n >= 0)
        if k == 'set':
            st.assume(s.n == st.set_card(v.z, et))
        st.assume(z3.ForAll([kq], z3.Implies(z3.And(0 <= kq, kq < s.n),
                                             z3.And(z3.Select(sv, z3.Select(s.arr, kq)),
                                                    wit(z3.Select(s.arr, kq)) == kq)),
                            patterns=[z3.Select(s.arr, kq)]))
        st.assume(z3.ForAll([x], z3.Implies(z3.Select(sv, x),
                                            z3.And(0 <= wit(x), wit(x) < s.n, z3.Select(s.arr, wit(x)) == x)),
                            patterns=[z3.Select(sv, x)]))
        return IterV(s.n, lambda kk: Val(et, z3.Select(s.arr, kk)))
    if k == 'bytes':
        # iterating bytes yields the byte values (ints)
        return IterV(z3.Length(v.z), lambda kk: Val(T.INT, z3.StrToCode(z3.SubString(v.z, kk, 1))))
    if k == 'str':
        return IterV(z3.Length(v.z), lambda kk: Val(T.STR, z3.SubString(v.z, kk, 1)))
    if not st.spec:
        from . import calls
        if k in ('int', 'real', 'bool', 'none') or (k == 'ref' and calls._not_iterable(v.t.name)):
            # iter() of a number, None, or an object of a repository class without __iter__/__getitem__
            E.check_or_raise(st, z3.BoolVal(False), 'TypeError')
    raise Undecided('iteration over %r at line %s' % (v.t, st.lineno))


def make_range(st, args):
    if len(args) == 1:
        lo, hi = z3.IntVal(0), args[0].z
    else:
        lo, hi = args[0].z, args[1].z
    n = z3.If(hi > lo, hi - lo, 0)
    return Val(T.Ty('iter'), IterV(n, lambda kk: Val(T.INT, lo + kk)))


def make_enumerate(st, args):
    it = as_iter(st, args[0])
    start = args[1].z if len(args) > 1 else z3.IntVal(0)
    if it.items is not None:
        items = [Val(T.Ty('xtuple'), (Val(T.INT, start + i), v)) for i, v in enumerate(it.items)]
        return Val(T.Ty('iter'), IterV(it.n, None, items=items))
    return Val(T.Ty('iter'), IterV(it.n, lambda kk: Val(T.Ty('xtuple'), (Val(T.INT, start + kk), it.item(kk))),
                                   src=it.src))


def make_zip(st, args):
    its = [as_iter(st, a) for a in args]
    if any(i.items is not None for i in its):
        raise Undecided('zip over fixed tuples')
    n = its[0].n
    for i in its[1:]:
        n = z3.If(i.n < n, i.n, n)
    return Val(T.Ty('iter'), IterV(n, lambda kk: Val(T.Ty('xtuple'), tuple(i.item(kk) for i in its))))


def make_reversed(st, args):
    it = as_iter(st, args[0])
    return Val(T.Ty('iter'), IterV(it.n, lambda kk: it.item(it.n - 1 - kk), src=it.src))


def make_dict_items(st, d):
    kt, vt = d.t.args
    keys, mp, has = st.dict_parts(d.z, kt, vt)

    def item(kk):
        # the value is read when the element is fetched (the body may have re-assigned earlier keys)
        cur = st.dict_parts(d.z, kt, vt)[1]
        key = Val(kt, z3.Select(keys.arr, kk))
        return Val(T.Ty('xtuple'), (key, Val(vt, z3.Select(cur, key.z))))
    return Val(T.Ty('iter'), IterV(keys.n, item, dsrc=(d, keys)))


def make_dict_values(st, d):
    kt, vt = d.t.args
    keys, mp, has = st.dict_parts(d.z, kt, vt)
    return Val(T.Ty('iter'), IterV(keys.n, lambda kk: Val(vt, z3.Select(mp, z3.Select(keys.arr, kk)))))


# ------------------------------------------------------------------ helpers
def assigned_names(stmts):
    out = []

    def walk(n):
        if isinstance(n, (ast.FunctionDef, ast.Lambda, ast.ClassDef)):
            if isinstance(n, ast.FunctionDef):
                out.append(n.name)
            return
        if isinstance(n, ast.Name) and isinstance(n.ctx, (ast.Store, ast.Del)):
            out.append(n.id)
        if isinstance(n, ast.ExceptHandler) and n.name:
            out.append(n.name)
        for ch in ast.iter_child_nodes(n):
            walk(ch)
    for s in stmts:
        walk(s)
    seen = []
    for x in out:
        if x not in seen:
            seen.append(x)
    return seen


def havoc_locals(st, names):
    names = list(names) + [n for n in st.locals if n.startswith('_g') and n not in names]   # ghost locals too
    for nm in names:
        v = st.locals.get(nm)
        if v is None:
            continue
        if v.t.kind in ('fn', 'typeobj', 'iter'):
            continue
        if v.t.kind == 'xtuple':
            raise Undecided('loop assigns executor-level tuple local %s' % nm)
        if v.t.kind in ('list', 'set', 'dict') and v.t.args and v.t.args[0].kind == 'unknown':
            raise Undecided('local %s has no declared element type (contract locals=)' % nm)
        st.locals[nm] = st.fresh_val(v.t, 'lv_' + nm)


def loop_contract(st, s):
    o = getattr(s, '_ordinal', None)
    c = st.contract
    if c is None or o is None:
        raise Undecided('loop without ordinal/contract at line %s' % s.lineno)
    lc = c.loops.get(o)
    if lc is None:
        raise Undecided('loop #%s at line %d of %s has no loop contract (new or unannotated loop)'
                        % (o, s.lineno, st.ex.func_key))
    return o, lc


def prove_invs(st, o, lc, phase, line):
    for i, inv in enumerate(lc.get('inv', [])):
        g = E.spec_bool(st, inv, dict(st.locals))
        st.prove('loop#%s/inv#%d/%s' % (o, i, phase), g, kind='inv', lineno=line)


def assume_invs(st, lc):
    for inv in lc.get('inv', []):
        st.assume(E.spec_bool(st, inv, dict(st.locals)))
    for inv in lc.get('free_inv', []):
        st.assume(E.spec_bool(st, inv, dict(st.locals)))


def loop_frame(st, lc):
    """Evaluate the loop's modifies in the state at loop entry; returns the frame tuple."""
    from . import calls
    if 'modifies' in lc:
        targets = []
        for m in lc['modifies']:
            targets.extend(calls.eval_mod_entry(st, m, dict(st.locals)))
    else:
        targets = list(st.frames[-1][0]) if st.frames else []
    return targets


def exec_for(st, s):
    from . import calls
    itv = E.ev(st, s.iter)
    it = as_iter(st, itv)
    if it.items is not None:
        broke = False
        for v in it.items:
            E.assign_target(st, s.target, v)
            try:
                E.exec_block(st, s.body)
            except ContinueSig:
                continue
            except BreakSig:
                broke = True
                break
        if not broke:
            E.exec_block(st, s.orelse)
        return
    if not _has_contract(st, s):
        return _unroll_for(st, s, it)
    o, lc = loop_contract(st, s)
    line = s.lineno
    kname = '_k'
    saved_k = st.locals.get(kname)
    st.locals[kname] = Val(T.INT, z3.IntVal(0))
    st.locals['_k%s' % o] = st.locals[kname]
    st.locals['_n%s' % o] = Val(T.INT, it.n)
    if it.src is not None:
        st.locals['_seq%s' % o] = Val(T.TSeq(it.src[0].t.args[0]), it.src[1])
    if it.dsrc is not None:
        st.locals['_seq%s' % o] = Val(T.TSeq(it.dsrc[0].t.args[0]), it.dsrc[1])
    prove_invs(st, o, lc, 'entry', line)
    targets = loop_frame(st, lc)
    # havoc
    names = assigned_names(s.body) + assigned_names([s.target]) if False else \
        assigned_names(s.body + s.orelse) + [n.id for n in ast.walk(s.target) if isinstance(n, ast.Name)]
    havoc_locals(st, names)
    calls.havoc(st, targets)
    st.bump_alloc()        # earlier iterations may have allocated
    kk = st.fresh(I, '_k')
    st.assume(z3.And(0 <= kk, kk <= it.n))
    st.locals[kname] = Val(T.INT, kk)
    st.locals['_k%s' % o] = st.locals[kname]
    if it.src is not None:
        # the iterated list is unchanged at the loop head (proved again at the end of the body)
        lv, snap = it.src
        cur = st.list_seq(lv.z, lv.t.args[0])
        st.assume(cur.n == snap.n)
        st.assume(cur.arr == snap.arr)
    if it.dsrc is not None:
        # the key sequence of the iterated dict is unchanged at the loop head (proved again at the end of the
        # body: Python raises RuntimeError when the size changes during iteration)
        dv, snap = it.dsrc
        curk = st.dict_parts(dv.z, dv.t.args[0], dv.t.args[1])[0]
        st.assume(curk.n == snap.n)
        st.assume(curk.arr == snap.arr)
    assume_invs(st, lc)
    dec0 = None
    if st.choose(2, 'loop#%s iterate/exit' % o) == 0:
        st.assume(kk < it.n)
        st.frames.append((targets, st.alloc))
        depth = len(st.frames) - 1
        itemv = it.item(kk)
        for comp in (itemv.z if itemv.t.kind == 'xtuple' else (itemv,)):
            if comp.t.kind not in ('xtuple', 'seq', 'fn', 'typeobj', 'iter'):
                st.assume_type(comp)
        E.assign_target(st, s.target, itemv)
        try:
            try:
                E.exec_block(st, s.body)
            except ContinueSig:
                pass
        except BreakSig:
            E.loop_exit(st, depth)
            st.frames.pop()
            _restore_k(st, kname, saved_k)
            return
        except (ReturnSig, PyRaise):
            E.loop_exit(st, depth)
            st.frames.pop()
            raise
        E.loop_backedge(st, depth)
        st.frames.pop()
        if it.src is not None:
            lv, snap = it.src
            cur = st.list_seq(lv.z, lv.t.args[0])
            st.prove('loop#%s/iterated-list-unchanged' % o,
                     z3.And(cur.n == snap.n, cur.arr == snap.arr), kind='inv', lineno=line)
        if it.dsrc is not None:
            dv, snap = it.dsrc
            curk = st.dict_parts(dv.z, dv.t.args[0], dv.t.args[1])[0]
            st.prove('loop#%s/iterated-dict-keys-unchanged' % o,
                     z3.And(curk.n == snap.n, curk.arr == snap.arr), kind='inv', lineno=line)
        st.locals[kname] = Val(T.INT, kk + 1)
        st.locals['_k%s' % o] = st.locals[kname]
        prove_invs(st, o, lc, 'preserved', line)
        st.ex.exits['cut'] += 1
        raise PathEnd()
    st.assume(kk == it.n)
    E.exec_block(st, s.orelse)
    _restore_k(st, kname, saved_k)


UNROLL = 3


def _has_contract(st, s):
    o = getattr(s, '_ordinal', None)
    return st.contract is not None and o is not None and st.contract.loops.get(o) is not None


def _unroll_for(st, s, it):
    """A `for` loop the contract says nothing about (new or rewritten code): it is unrolled UNROLL times and longer
    runs are cut.  The function is then explored in refutation-only mode -- a counter-model found on an unrolled
    path is a real execution, but nothing is proved (the driver reports the function as undecided unless an
    obligation is refuted)."""
    st.ex.partial = (getattr(st.ex, 'partial', None) or '')
    note = 'loop at line %d has no loop contract (unrolled %d times); ' % (s.lineno, UNROLL)
    if note not in st.ex.partial:
        st.ex.partial += note
    for i in range(UNROLL + 1):
        if st.choose(2, 'unrolled loop line %d: exit/iterate' % s.lineno) == 0:
            st.assume(it.n == i)
            E.exec_block(st, s.orelse)
            return
        st.assume(it.n > i)
        if i == UNROLL:
            st.ex.exits['cut'] += 1
            raise PathEnd()
        if it.src is not None:
            lv, snap = it.src
            cur = st.list_seq(lv.z, lv.t.args[0])
            if st.feasible(z3.Not(z3.And(cur.n == snap.n, cur.arr == snap.arr))):
                raise Undecided('unrolled loop at line %d may change the list it iterates over' % s.lineno)
        itemv = it.item(z3.IntVal(i))
        for comp in (itemv.z if itemv.t.kind == 'xtuple' else (itemv,)):
            if comp.t.kind not in ('xtuple', 'seq', 'fn', 'typeobj', 'iter'):
                st.assume_type(comp)
        E.assign_target(st, s.target, itemv)
        try:
            E.exec_block(st, s.body)
        except ContinueSig:
            continue
        except BreakSig:
            return


def _restore_k(st, kname, saved_k):
    if saved_k is not None:
        st.locals[kname] = saved_k


def exec_while(st, s):
    from . import calls
    o, lc = loop_contract(st, s)
    line = s.lineno
    prove_invs(st, o, lc, 'entry', line)
    targets = loop_frame(st, lc)
    havoc_locals(st, assigned_names(s.body + s.orelse))
    calls.havoc(st, targets)
    st.bump_alloc()        # earlier iterations may have allocated
    assume_invs(st, lc)
    dec0 = None
    if 'dec' in lc:
        dec0 = E.eval_spec(st, lc['dec'], dict(st.locals)).z
    c = E.ev(st, s.test)
    if st.branch(E.truthy(st, c)):
        st.frames.append((targets, st.alloc))
        depth = len(st.frames) - 1
        try:
            try:
                E.exec_block(st, s.body)
            except ContinueSig:
                pass
        except BreakSig:
            E.loop_exit(st, depth)
            st.frames.pop()
            return
        except (ReturnSig, PyRaise):
            E.loop_exit(st, depth)
            st.frames.pop()
            raise
        E.loop_backedge(st, depth)
        st.frames.pop()
        prove_invs(st, o, lc, 'preserved', line)
        if dec0 is not None:
            dec1 = E.eval_spec(st, lc['dec'], dict(st.locals)).z
            st.prove('loop#%s/decreases' % o, z3.And(dec0 >= 0, dec1 < dec0), kind='term', lineno=line)
        st.ex.exits['cut'] += 1
        raise PathEnd()
    E.exec_block(st, s.orelse)
