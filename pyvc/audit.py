"""Path-level vacuity audit (thorough tier and tools/vacuity.py).

Along one path the path condition only grows, so a path is audited through its LAST obligation whose goal is not
literally False: if that path condition is satisfiable nothing on the path was proved vacuously.  If it is
unsatisfiable the first obligation with an unsat path condition is located and reported together with the
hypothesis that closes the path -- legitimate when the path is really dead (a callee that never returns normally,
a branch excluded by an invariant, everything after an obligation recorded as an open known finding), a defect of
the engine or of a contract otherwise (audit_allow.json lists the legitimate ones of the unchanged tree)."""
import json
import os
import re

import z3

from . import verify

HERE = os.path.dirname(os.path.dirname(os.path.abspath(__file__)))


def feas(pc, to=6000):
    s = z3.Solver()
    s.set('timeout', to)
    for p in pc:
        s.add(p)
    return s.check()


def audit(key):
    """-> (closed: [(key, label, lineno, closing hypothesis text)], n_paths, n_unknown)"""
    res = verify.verify_function(key, keep_terms=True, discharge=False)
    bypath = {}
    for ob in res.raw or []:
        if z3.is_false(ob.goal) or ob.status == 'trivial':
            continue
        bypath.setdefault(ob.path, []).append(ob)
    closed = []
    nunk = 0
    import time
    t0 = time.time()
    budget = float(os.environ.get('PYVC_AUDIT_SECS', '300'))
    for path, obs in bypath.items():
        if time.time() - t0 > budget:
            nunk += 1          # per-function time budget used up: the remaining paths count as undetermined
            continue
        r = feas(obs[-1].pc)
        if r == z3.sat:
            continue
        if r == z3.unknown:
            nunk += 1
            continue
        lo, hi = 0, len(obs) - 1
        while lo < hi:
            mid = (lo + hi) // 2
            if feas(obs[mid].pc) == z3.unsat:
                hi = mid
            else:
                lo = mid + 1
        ob = obs[lo]
        a, b = 0, len(ob.pc)
        while a < b:
            mid = (a + b) // 2
            if feas(ob.pc[:mid + 1]) == z3.unsat:
                b = mid
            else:
                a = mid + 1
        closed.append((key, ob.label, ob.lineno, str(ob.pc[a])[:300].replace('\n', ' ')))
    return closed, len(bypath), nunk


def load_allow():
    p = os.path.join(HERE, 'audit_allow.json')
    if not os.path.exists(p):
        return []
    return json.load(open(p))


def allowed(allow, key, label, closed_by=''):
    lab = re.sub(r'@\d+', '', label)
    for a in allow:
        if a['function'] == key and re.fullmatch(a['label'], lab):
            if a.get('closed_by') and not re.search(a['closed_by'], closed_by or ''):
                continue
            return True
    return False
