"""Verification of one repository function against its sidecar contract."""
import ast
import time
import traceback

import z3

from . import types as T
from . import registry as R
from . import frontend as F
from .core import (Val, SeqV, FnV, PathEnd, Undecided, PyRaise, ReturnSig, BreakSig, ContinueSig,
                   Explorer, State, Obligation)
from . import exec as E
from . import calls
from . import smt


class FuncResult(object):
    def __init__(self, key):
        self.key = key
        self.status = 'ok'        # ok | undecided | error
        self.reason = ''
        self.obligations = []     # dicts
        self.paths = 0
        self.exits = {}
        self.sha = None
        self.file = None
        self.lineno = None
        self.time = 0.0
        self.feasible_exits = 0
        self.raw = None
        self.entry_env = None
        self.keepalive = None


def check_signature(c, fn):
    a = fn.node.args
    names = [x.arg for x in a.posonlyargs + a.args]
    if a.vararg:
        names.append(a.vararg.arg)
    if a.kwonlyargs or a.kwarg:
        cn = [k for k in c.params.keys()]
        names += [x.arg for x in a.kwonlyargs]
        if a.kwarg:
            names.append(a.kwarg.arg)
    want = list(c.params.keys())
    if names != want[:len(names)] or len(want) < len(names):
        raise Undecided('signature of %s changed: source has %s, contract has %s' % (c.key, names, want))
    return names, want[len(names):]


def verify_function(key, tier='quick', keep_terms=False, discharge=True):
    c = R.CONTRACTS[key]
    res = FuncResult(key)
    t0 = time.time()
    try:
        fn = F.find_function(c.module, c.qual)
        if fn is None:
            raise Undecided('function %s not found in %s' % (c.qual, c.module))
        res.sha, res.file, res.lineno = fn.sha, fn.module, fn.lineno
        names, captured = check_signature(c, fn)
        # every loop must be known to the contract
        for l in fn.loops:
            pass
        ex = Explorer(key)
        entry_env = [None]
        body_stmts = F.strip_docstring(fn.node.body)

        def run(st):
            st.fn = fn
            st.contract = c
            env = {}
            for p, ty in c.params.items():
                if ty.kind == 'typeobj':
                    env[p] = Val(T.TYPEOBJ, FnV('class', fn.cls))
                    continue
                if ty.kind == 'fn':
                    env[p] = Val(T.FN, FnV('param', p))
                    continue
                if p == c.vararg and ty.kind == 'tuple':
                    # *args verified for positional arguments of the stated types
                    env[p] = Val(T.Ty('xtuple'), tuple(st.fresh_val(a, '%s%d' % (p, i)) for i, a in enumerate(ty.args)))
                    continue
                if ty.kind == 'xtuple':
                    # *args: verified for the stated number of positional arguments (each of any type)
                    n = int(ty.name or '0')
                    env[p] = Val(T.Ty('xtuple'), tuple(st.fresh_val(T.ANY, '%s%d' % (p, i)) for i in range(n)))
                    continue
                if ty.kind == 'kwargs':
                    env[p] = Val(ty, None)       # **kwargs assumed empty
                    continue
                env[p] = st.fresh_val(ty, p)
            if 'self' in env and env['self'].t.kind == 'ref':
                st.assume(env['self'].z != 0)
            if '.' in c.qual and fn.cls is not None and c.qual.count('.') >= 2:
                # nested function: its own name is visible inside (recursion through the closure)
                env[fn.node.name] = Val(T.FN, FnV('closure', fn.node.name, node=fn.node, env=None, cls=key))
            # default arguments may also take their declared default: covered since params are symbolic
            st.locals = dict(env)
            if any(r.strip() == 'in_timeout_scope()' for r in c.requires):
                st.ghost['$timeout_depth'] = 1      # the caller provides the enclosing Timeout scope
            for rq in c.free_requires:
                st.assume(E.spec_bool(st, rq, env))
            for rq in c.requires:
                st.assume(E.spec_bool(st, rq, env))
            st.old_heap = dict(st.heap)
            st.old_locals = dict(env)
            entry_env[0] = dict(env)
            st.entry_info = dict(params=[(p, env[p]) for p in c.params if p in env], fn=fn, contract=c)
            st.outcome_info = None
            st.mod_targets = calls.eval_modifies(st, c, env)
            st.frames = [(st.mod_targets, st.fn_alloc0)]
            st.locals = dict(env)
            if getattr(c, 'ghost_entry', None):
                E.run_ghost(st, c.ghost_entry)
            is_gen = any(isinstance(n, (ast.Yield, ast.YieldFrom)) for b in body_stmts for n in ast.walk(b))
            if is_gen:
                if c.returns.kind != 'list':
                    raise Undecided('generator function needs returns=List[...] (the list of yielded values)')
                from . import builtins as B
                st.locals['_yielded'] = B.new_list(st, [], et=c.returns.args[0])
            outcome = None
            try:
                E.exec_block(st, body_stmts)
                outcome = ('normal', st.locals['_yielded'] if is_gen else E.NONE_VAL())
            except ReturnSig as r:
                outcome = ('normal', st.locals['_yielded'] if is_gen else r.val)
            except PyRaise as pr:
                outcome = ('raise', pr)
            except (BreakSig, ContinueSig):
                raise Undecided('break/continue outside loop')
            if outcome[0] == 'normal':
                rv = outcome[1]
                st.outcome_info = ('return', rv)
                envr = dict(env)
                try:
                    if c.returns.kind == 'none' and rv.t.kind != 'none':
                        rv2 = rv
                    else:
                        rv2 = st.coerce(rv, c.returns)
                except Undecided as u:
                    st.prove('return-type', z3.BoolVal(False), kind='type')
                    raise PathEnd()
                # a parameter that is itself called `result` keeps its name; the return value is then `retval`
                envr['retval' if 'result' in c.params else 'result'] = rv2
                if getattr(c, 'ghost_exit', None):
                    E.run_ghost(st, c.ghost_exit)
                # vacuity guard: the path must be feasible BEFORE the postconditions are assumed
                if st.feasible(z3.BoolVal(True)):
                    res.feasible_exits += 1
                for i, en in enumerate(c.ensures):
                    g = E.spec_bool(st, en, envr)
                    st.prove('post#%d' % i, g, kind='post', lineno=st.lineno)
                envc = dict(st.locals)       # internal checks may mention the function's locals
                envc.update(envr)
                for i, en in enumerate(getattr(c, 'checks', [])):
                    g = E.spec_bool(st, en, envc)
                    st.prove('check#%d' % i, g, kind='post', lineno=st.lineno)
                ex.exits['normal'] += 1
            else:
                pr = outcome[1]
                st.outcome_info = ('raise', pr.cls)
                clauses = None
                for k, cl in c.raises.items():
                    if R.is_subclass(pr.cls, k):
                        clauses = (k, cl)
                        break
                if clauses is None:
                    st.prove('raises-only[%s]@%s' % (pr.cls, pr.lineno), z3.BoolVal(False),
                             kind='raises', lineno=pr.lineno)
                else:
                    envr = dict(env)
                    envr['exc'] = Val(T.TRef(pr.cls), pr.ref)
                    if st.feasible(z3.BoolVal(True)):
                        res.feasible_exits += 1
                    for i, en in enumerate(clauses[1]):
                        g = E.spec_bool(st, en, envr)
                        st.prove('raises[%s]#%d' % (clauses[0], i), g, kind='post', lineno=pr.lineno)
                ex.exits['raise'] += 1

        ex.run(run)
        # a ghost_after key is matched against ast.unparse() of a statement: a key that never matched (typo,
        # statement rewritten) would silently drop its ghost code, so it is an error of the contract
        missed = sorted(set(getattr(c, 'ghost_after', None) or {}) - getattr(ex, 'ghost_hit', set()))
        if missed:
            # the proofs that relied on that ghost code are not to be trusted; refutations still are
            ex.partial = (getattr(ex, 'partial', None) or '') + \
                'ghost_after key(s) matched no executed statement: %s; ' % '; '.join(missed)
            # ... except refutations of goals that talk about ghost state: the ghost code that maintains it did
            # not run, so they say nothing about the program
            for ob in ex.obligations:
                if _mentions_ghost(ob.goal):
                    ob.ghost_dep = True
        res.partial = getattr(ex, 'partial', None)
        res.paths = ex.paths
        res.exits = dict(ex.exits)
        # discharge
        if discharge:
            for ob in ex.obligations:
                smt.discharge(ob, tier)
        res.raw = ex.obligations if keep_terms else None
        res.used = sorted(ex.used)
        res.entry_env = entry_env[0] if keep_terms else None
        res.entry_heap_consts = None
        res.keepalive = ex.keepalive if keep_terms else None
        if not discharge:
            res.time = time.time() - t0
            return res
        for ob in ex.obligations:
            d = dict(name=ob.name, label=ob.label, line=ob.lineno, status=ob.status, backend=ob.backend,
                     time=round(ob.time, 4), kind=ob.kind, path=list(ob.path))
            if ob.status == 'refuted' and ob.model is not None:
                d['model'] = model_text(ob.model)
            if ob.status in ('refuted', 'unknown'):
                d['smt2_tail'] = smt.smt2_head(ob, 3000)
                d['detail'] = ob.detail
            res.obligations.append(d)
        if res.feasible_exits == 0 and ex.exits.get('cut', 0) == 0:
            res.status = 'error'
            res.reason = 'vacuity: no feasible exit path (contradictory requires or assumptions)'
    except Undecided as u:
        res.status = 'undecided'
        res.reason = str(u)
    except Exception as e:
        res.status = 'error'
        res.reason = 'checker crash: %s\n%s' % (e, traceback.format_exc())
    res.time = time.time() - t0
    return res


def model_text(m, limit=6000):
    try:
        items = []
        for d in m.decls():
            nm = d.name()
            if nm.startswith('k!') or nm.startswith('wit!') or nm.startswith('src!') or nm.startswith('dst!'):
                continue
            items.append('%s = %s' % (nm, m[d]))
        items.sort()
        txt = '\n'.join(items)
        return txt[:limit]
    except Exception as e:
        return 'model unavailable: %s' % e


def _mentions_ghost(goal):
    """True when the goal refers to a ghost field (heap array H<epoch>_<Class.field> of a declared ghost field) or
    a ghost local (_g*)."""
    ghost = set()
    for cn, ci in R.CLASSES.items():
        for f in getattr(ci, 'ghost', ()):
            ghost.add('%s.%s' % (cn, f))
    seen = set()
    todo = [goal]
    while todo:
        t = todo.pop()
        if t.get_id() in seen:
            continue
        seen.add(t.get_id())
        if z3.is_quantifier(t):
            todo.append(t.body())
            continue
        if z3.is_app(t):
            if t.num_args() == 0 or t.decl().kind() == z3.Z3_OP_UNINTERPRETED:
                nm = t.decl().name()
                base = nm.split('_', 1)[1] if nm.startswith('H') and '_' in nm else nm
                base = base.split('!')[0]
                if base in ghost or nm.startswith('lv__g') or nm.startswith('hv_') and nm[3:].split('!')[0] in \
                        set(g.split('.', 1)[1] for g in ghost):
                    return True
            todo.extend(t.children())
    return False


def obligation_record(ob):
    if ob.status == 'refuted' and getattr(ob, 'ghost_dep', False):
        ob.status = 'unknown'
        ob.detail = (ob.detail or '') + ' | counter-model discarded: the goal mentions ghost state and ghost code of ' \
                                         'the contract did not run (ghost_after key without a matching statement)'
    d = dict(name=ob.name, label=ob.label, line=ob.lineno, status=ob.status, backend=ob.backend,
             time=round(ob.time, 4), kind=ob.kind, path=list(ob.path))
    if ob.status == 'refuted' and ob.model is not None:
        d['model'] = model_text(ob.model)
        try:
            from . import refute
            spec = refute.replay_spec(ob)
            if spec is not None:
                d['replay'] = spec
            else:
                d['replay_why'] = getattr(ob, 'replay_why', None)
        except Exception as e:      # decoding is best effort: never a verdict
            d['replay_error'] = str(e)[:200]
    if ob.status in ('refuted', 'unknown'):
        d['smt2_tail'] = smt.smt2_head(ob, 3000)
        d['detail'] = ob.detail
    return d
