"""Registry of sidecar declarations: classes (typed fields, ghost fields, class
hierarchy), contracts of repository functions, assumed contracts of external
functions, predicates.  The contract files under /verif/contracts call the
functions exported here."""
import ast
import collections

from . import types as T

CLASSES = collections.OrderedDict()    # short name -> ClassInfo
CONTRACTS = collections.OrderedDict()  # 'Class.method' or 'func' -> Contract
PREDICATES = {}                        # name -> (params, ast expr)
PROPERTY_FUNCS = collections.OrderedDict()   # property id -> [contract keys]
ASSUMPTIONS = []
BOUNDED = {}             # property id -> [(script, description)] bounded stand-ins (native, labelled bounded)
GLOBAL_OBJECTS = {}      # global name -> (class, {field: python value}) : module-level constant objects
                       # free-text assumptions recorded by contract files


class ClassInfo(object):
    def __init__(self, name):
        self.name = name
        self.bases = []
        self.fields = collections.OrderedDict()   # field -> Ty
        self.ghost = set()
        self.tag = None
        self.module = None
        self.eq = None          # optional spec of __eq__: list of field names compared
        self.truthy = None      # None: always truthy; or expression string
        self.monitor_inv = []
        self.open = False       # may have unknown subclasses


_next_tag = [1]


def klass(name, bases=(), fields=None, ghost=None, module=None, eq=None, open=False,
          truthy=None):
    ci = CLASSES.get(name)
    if ci is None:
        ci = ClassInfo(name)
        ci.tag = _next_tag[0]
        _next_tag[0] += 1
        CLASSES[name] = ci
    for b in bases:
        if b not in ci.bases:
            ci.bases.append(b)
        if b not in CLASSES:
            klass(b)
    for f, ty in (fields or {}).items():
        ci.fields[f] = T.parse_type(ty)
    for f, ty in (ghost or {}).items():
        ci.fields[f] = T.parse_type(ty)
        ci.ghost.add(f)
    if module:
        ci.module = module
    if eq is not None:
        ci.eq = eq
    if truthy is not None:
        ci.truthy = truthy
    if open:
        ci.open = True
    return ci


def mro(name):
    out = []
    todo = [name]
    while todo:
        n = todo.pop(0)
        if n in out:
            continue
        out.append(n)
        ci = CLASSES.get(n)
        if ci:
            todo = list(ci.bases) + todo
    return out


def is_subclass(sub, sup):
    return sup in mro(sub) or sup == 'object'


def subclasses_of(sup):
    return [n for n in CLASSES if is_subclass(n, sup)]


def find_field(cls, fname):
    for c in mro(cls):
        ci = CLASSES.get(c)
        if ci and fname in ci.fields:
            return c, ci.fields[fname]
    return None, None


class Contract(object):
    def __init__(self, key):
        self.key = key
        self.kind = 'repo'           # 'repo' (verified) | 'extern' (assumed)
        self.module = None           # repo-relative file for 'repo'
        self.qual = None             # qualified name inside the module
        self.params = collections.OrderedDict()
        self.defaults = {}
        self.vararg = None
        self.returns = T.NONE
        self.requires = []
        self.ensures = []
        self.raises = collections.OrderedDict()   # exc class -> [ensures]
        self.modifies = []
        self.loops = {}
        self.yields = False
        self.pure = False
        self.model = None            # python callable implementing the call (builtin model)
        self.props = []
        self.decorator = None
        self.lemmas = []
        self.free_requires = []      # assumed, not checked at call sites (type facts)
        self.notes = ''
        self.static = False
        self.classmethod = False
        self.locals = {}             # declared types for locals (name -> Ty)
        self.ghost_pre = []          # ghost statements run at entry
        self.at = {}                 # lineno-relative ghost hooks
        self.verify = True
        self.may_raise_any = False


def _parse_params(c, params):
    for name, ty in (params or {}).items():
        if name.startswith('*'):
            c.vararg = name[1:]
            c.params[name[1:]] = T.parse_type(ty)
        else:
            c.params[name] = T.parse_type(ty)


def contract(key, module=None, qual=None, params=None, returns=None, requires=(), ensures=(),
             raises=None, modifies=(), loops=None, yields=False, pure=False, props=(),
             kind='repo', model=None, defaults=None, free_requires=(), notes='',
             locals=None, verify=True, lemmas=(), reads=(), checks=(), scope_timeouts=(), is_property=False, ghost_entry=(), ghost_after=None, rely=(), call_requires=None, ghost_exit=()):
    c = Contract(key)
    c.kind = kind
    c.module = module
    c.qual = qual or key
    _parse_params(c, params)
    c.defaults = dict(defaults or {})
    if returns is not None:
        c.returns = T.parse_type(returns)
    c.requires = list(requires)
    c.free_requires = list(free_requires)
    c.ensures = list(ensures)
    for k, v in (raises or {}).items():
        c.raises[k] = list(v)
    c.modifies = list(modifies)
    c.loops = dict(loops or {})
    c.yields = yields
    c.pure = pure
    c.model = model
    c.props = list(props)
    c.notes = notes
    c.verify = verify
    c.lemmas = list(lemmas)
    c.reads = list(reads)
    c.scope_timeouts = list(scope_timeouts)
    c.checks = list(checks)
    c.is_property = is_property
    c.ghost_entry = list(ghost_entry)          # ghost statements executed at function entry
    c.ghost_after = dict(ghost_after or {})
    c.ghost_exit = list(ghost_exit)            # ghost statements executed at every normal exit, before the postconditions
    c.rely = list(rely)                        # two-state facts assumed across every yield point (G2)
    c.call_requires = dict(call_requires or {})  # callee key -> extra obligations at calls to it    # source text of a statement -> ghost statements run after it      # proved at every normal exit, not exported to callers
    c.locals = {k: T.parse_type(v) for k, v in (locals or {}).items()}
    prev = CONTRACTS.get(key)
    if prev is not None and getattr(prev, 'origin', None) not in (None, CURRENT_FILE[0]):
        # a later contract file replaces a contract of an earlier one: deliberate for assumed views, a trap otherwise
        OVERRIDES.append((key, prev.origin, CURRENT_FILE[0], prev.kind, kind))
    c.origin = CURRENT_FILE[0]
    CONTRACTS[key] = c
    for p in props:
        PROPERTY_FUNCS.setdefault(p, [])
        if key not in PROPERTY_FUNCS[p]:
            PROPERTY_FUNCS[p].append(key)
    return c


def extern(key, **kw):
    kw['kind'] = 'extern'
    return contract(key, **kw)


def predicate(sig, body):
    node = ast.parse(sig, mode='eval').body
    name = node.func.id
    params = [a.id for a in node.args]
    PREDICATES[name] = (params, ast.parse(body.strip(), mode='eval').body, body)


def assume_note(text):
    if text not in ASSUMPTIONS:
        ASSUMPTIONS.append(text)


def find_contract(cls, meth):
    """Resolve a method contract along the MRO of cls."""
    for c in mro(cls):
        k = '%s.%s' % (c, meth)
        if k in CONTRACTS:
            return CONTRACTS[k]
        # private name mangling
        if meth.startswith('_%s__' % c):
            k2 = '%s.%s' % (c, meth[len(c) + 1:])
            if k2 in CONTRACTS:
                return CONTRACTS[k2]
    return None


# ---- builtin exception hierarchy (the part that matters for try/except)
def _builtin_exceptions():
    klass('BaseException')
    klass('Exception', ['BaseException'], open=True)
    for n, b in [('AssertionError', 'Exception'), ('TypeError', 'Exception'),
                 ('ValueError', 'Exception'), ('KeyError', 'LookupError'),
                 ('IndexError', 'LookupError'), ('LookupError', 'Exception'),
                 ('AttributeError', 'Exception'), ('StopIteration', 'Exception'),
                 ('NotImplementedError', 'RuntimeError'), ('RuntimeError', 'Exception'),
                 ('OSError', 'Exception'), ('FileNotFoundError', 'OSError'),
                 ('UnicodeError', 'ValueError'), ('UnicodeDecodeError', 'UnicodeError'),
                 ('UnicodeEncodeError', 'UnicodeError'),
                 ('ZeroDivisionError', 'ArithmeticError'), ('ArithmeticError', 'Exception'),
                 ('GeneratorExit', 'BaseException'), ('KeyboardInterrupt', 'BaseException'),
                 ('Timeout', 'BaseException'), ('GreenletExit', 'BaseException'),
                 ('StructError', 'Exception'), ('BinasciiError', 'ValueError'),
                 ('SSLError', 'OSError'), ('OtherException', 'Exception')]:
        klass(n, [b])
    for n in ('list', 'set', 'dict', 'tuple', 'function', 'object'):
        klass(n)


_builtin_exceptions()


def global_object(name, cls, **fields):
    """A module-level constant object (e.g. slimta.smtp.reply.bad_sequence) referenced by name."""
    GLOBAL_OBJECTS[name] = (cls, fields)


def bounded(props, script, what):
    """Register a BOUNDED stand-in (a native enumeration run under /venv/bin/python): labelled bounded in the
    evidence and never counted among the discharged obligations."""
    for p in props:
        BOUNDED.setdefault(p, [])
        if (script, what) not in BOUNDED[p]:
            BOUNDED[p].append((script, what))


MONITORS = {}      # class -> dict(inv=[...], shared=[...])
CURRENT_FILE = [None]   # contract file being loaded
OVERRIDES = []          # (key, earlier file, later file, earlier kind, later kind)


def monitor(cls, inv=(), shared=()):
    """G2: object invariant that must hold whenever control can leave the greenlet (every yield point) and
    the part of the state other greenlets may change while it is away."""
    MONITORS[cls] = dict(inv=list(inv), shared=list(shared))
