"""Runs under /venv/bin/python with PYTHONPATH=<repo>: calls the REAL function on the entry state decoded from a
counter-model (JSON spec on argv[1]) and prints {"outcome": "returned", "value": ...} or {"outcome": "raised", "exc":
"<class>"} as one JSON line.  No verifier code is imported here."""
import importlib
import json
import sys


def build(v):
    if isinstance(v, dict):
        if '__bytes__' in v:
            return bytes(v['__bytes__'])
        if '__tuple__' in v:
            return tuple(build(x) for x in v['__tuple__'])
        if '__set__' in v:
            return set(build(x) for x in v['__set__'])
        if '__dict__' in v:
            return dict((build(k), build(x)) for k, x in v['__dict__'])
        if '__object__' in v:
            mod = importlib.import_module(v['module'][:-3].replace('/', '.').replace('.__init__', ''))
            cls = getattr(mod, v['__object__'])
            o = object.__new__(cls)
            for f, fv in v['fields'].items():
                try:
                    setattr(o, f, build(fv))
                except Exception:
                    pass
            return o
        if '__class__' in v:
            return ('__class__', v['__class__'])
    if isinstance(v, list):
        return [build(x) for x in v]
    return v


def encode(v):
    if isinstance(v, bytes):
        return {'__bytes__': list(v)}
    if isinstance(v, tuple):
        return {'__tuple__': [encode(x) for x in v]}
    if isinstance(v, list):
        return [encode(x) for x in v]
    if v is None or isinstance(v, (bool, int, float, str)):
        return v
    return {'__repr__': repr(v)[:200]}


def main():
    spec = json.load(open(sys.argv[1]))
    mod = importlib.import_module(spec['module'][:-3].replace('/', '.').replace('.__init__', ''))
    parts = spec['qual'].split('.')
    args = [(n, build(v)) for n, v in spec['args']]
    if len(parts) == 1:
        fn = getattr(mod, parts[0])
        call_args = [a for _, a in args]
    else:
        cls = getattr(mod, parts[0])
        name = parts[1]
        if name.startswith('__') and not name.endswith('__'):
            name = '_%s%s' % (parts[0], name)
        first = args[0][1] if args else None
        if isinstance(first, tuple) and first and first[0] == '__class__':
            fn = getattr(cls, name)                # classmethod: cls is bound by the attribute access
            call_args = [a for _, a in args[1:]]
        elif args and args[0][0] == 'self':
            fn = getattr(first, name)
            call_args = [a for _, a in args[1:]]
        else:
            fn = getattr(cls, name)                # staticmethod
            call_args = [a for _, a in args]
    try:
        r = fn(*call_args)
        if hasattr(r, '__next__'):                 # generator: consumed to exhaustion, as the contracts model it
            r = list(r)
        out = {'outcome': 'returned', 'value': encode(r)}
    except BaseException as e:
        out = {'outcome': 'raised', 'exc': type(e).__name__, 'mro': [k.__name__ for k in type(e).__mro__], 'text': str(e)[:200]}
    print(json.dumps(out))


main()
