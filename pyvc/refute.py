"""Counterexample side of the verdict pipeline.

finite_scope(): an obligation that the solvers leave `unknown` (quantified
hypotheses) is re-emitted with every collection length bounded by a small N and
every universal quantifier expanded over the finite scope; the result is
quantifier-free, so z3 answers sat (a candidate counter-model) or unsat.  It is
used only to PRODUCE counterexamples, never to discharge anything.

decode_prestate(): projects a counter-model on the function's inputs (arguments,
fields of the objects they reach) as JSON, for the replay file and the native
replay."""
import itertools
import json
import os
import subprocess
import time

import z3

from . import registry as R
from . import types as T
from .core import Val, SeqV

HERE = os.path.dirname(os.path.dirname(os.path.abspath(__file__)))


def _root_name(arr):
    x = arr
    while True:
        if z3.is_app(x) and x.decl().kind() == z3.Z3_OP_STORE:
            x = x.arg(0)
            continue
        if z3.is_app(x) and x.decl().kind() == z3.Z3_OP_SELECT:
            x = x.arg(0)
            continue
        break
    if z3.is_const(x):
        return x.decl().name()
    return ''


def _collect(fs):
    """ground length-like terms and constants by sort"""
    lens = {}
    consts = {}
    seen = set()
    todo = list(fs)
    while todo:
        x = todo.pop()
        i = x.get_id()
        if i in seen:
            continue
        seen.add(i)
        if z3.is_quantifier(x):
            todo.append(x.body())
            continue
        if z3.is_app(x):
            if x.decl().kind() == z3.Z3_OP_SELECT and x.sort() == z3.IntSort():
                rn = _root_name(x.arg(0))
                if 'llen' in rn or 'dlen' in rn:
                    if not _has_var(x):
                        lens[i] = x
            if z3.is_const(x) and x.decl().kind() == z3.Z3_OP_UNINTERPRETED:
                nm = x.decl().name()
                if x.sort() == z3.IntSort() and ('_n!' in nm) and not nm.startswith('dk_n'):
                    lens[i] = x
                consts.setdefault(x.sort().name(), {})[i] = x
            if z3.is_string_value(x):
                consts.setdefault(x.sort().name(), {})[i] = x
            todo.extend(x.children())
    return list(lens.values()), {k: list(v.values()) for k, v in consts.items()}


def _has_var(x):
    seen = set()
    todo = [x]
    while todo:
        y = todo.pop()
        if y.get_id() in seen:
            continue
        seen.add(y.get_id())
        if z3.is_var(y):
            return True
        todo.extend(y.children())
    return False


def instantiate(fs, N):
    lens, consts = _collect(fs)
    ints = [z3.IntVal(i) for i in range(0, N + 1)]

    def cands(sort):
        if sort == z3.IntSort():
            return ints
        c = consts.get(sort.name(), [])
        return c[:6]

    def inst(f, depth=0):
        if z3.is_quantifier(f):
            if not f.is_forall():
                return z3.BoolVal(True)      # not skolemised: drop (weakening of a hypothesis)
            n = f.num_vars()
            sorts = [f.var_sort(i) for i in range(n)]
            cs = [cands(s) for s in sorts]
            if any(len(c) == 0 for c in cs):
                return z3.BoolVal(True)
            total = 1
            for c in cs:
                total *= len(c)
            if total > 1500:
                cs = [c[:3] for c in cs]
            out = []
            for combo in itertools.product(*cs):
                # de Bruijn: var 0 is the LAST bound variable
                body = z3.substitute_vars(f.body(), *reversed(combo))
                out.append(inst(body, depth + 1))
            return z3.And(out) if out else z3.BoolVal(True)
        if z3.is_and(f):
            return z3.And([inst(c, depth) for c in f.children()])
        if z3.is_or(f):
            return z3.Or([inst(c, depth) for c in f.children()])
        if z3.is_app(f) and f.decl().kind() == z3.Z3_OP_IMPLIES:
            # NNF should have removed these; keep quantifier-free implications as they are
            from .core import has_quantifier
            if not has_quantifier(f):
                return f
            return z3.BoolVal(True)
        from .core import has_quantifier
        if has_quantifier(f):
            return z3.BoolVal(True)
        return f

    out = [inst(f) for f in fs]
    for l in lens:
        out.append(z3.And(l >= 0, l <= N))
    return out


def finite_scope(key, label, path, tier='quick', scopes=(2, 4, 7)):
    """Re-generate the obligation (same function, label and path) and search a counter-model in
    finite scope.  Returns dict(status=sat|unsat|unknown, model=..., prestate=...)."""
    from . import verify
    res = verify.verify_function(key, tier, keep_terms=True, discharge=False)
    ob = None
    for o in (res.raw or []):
        if o.label == label and list(o.path) == list(path):
            ob = o
            break
    if ob is None:
        return dict(status='unknown', reason='obligation not found on re-generation')
    assertions = list(ob.pc) + [z3.Not(ob.goal)]
    g = z3.Goal()
    g.add(*assertions)
    try:
        sub = z3.Then('simplify', 'nnf')(g)
        fs = [f for f in sub[0]]
    except Exception as e:
        return dict(status='unknown', reason='nnf failed: %s' % e)
    last = 'unknown'
    for N in scopes:
        qf = instantiate(fs, N)
        s = z3.Solver()
        s.set('timeout', 20000)
        s.add(*qf)
        r = s.check()
        if r == z3.sat:
            m = s.model()
            pre = None
            try:
                pre = decode_prestate(m, res.entry_env, res.entry_heap_consts)
            except Exception as e:
                pre = dict(error='decode failed: %s' % e)
            out = dict(status='sat', scope=N, model=verify.model_text(m, 4000), prestate=pre)
            # a finite-scope counter-model is only a candidate (the universals were instantiated over a small scope):
            # it counts when the REAL code reproduces it, so hand its decoded entry state to the native replay
            try:
                ob.model = m
                spec = replay_spec(ob)
                if spec is not None:
                    out['replay'] = spec
                else:
                    out['replay_why'] = getattr(ob, 'replay_why', None)
            except Exception as e:
                out['replay_error'] = str(e)[:200]
            return out
        last = 'unsat' if r == z3.unsat else 'unknown'
        if r != z3.unsat:
            break
    return dict(status=last, scope=list(scopes))


# ------------------------------------------------------------------ model projection
def _py(v):
    if z3.is_int_value(v):
        return v.as_long()
    if z3.is_rational_value(v):
        return float(v.numerator_as_long()) / float(v.denominator_as_long())
    if z3.is_algebraic_value(v):
        return float(v.approx(5).as_fraction())
    if z3.is_true(v):
        return True
    if z3.is_false(v):
        return False
    if z3.is_string_value(v):
        return v.as_string()
    return str(v)


def decode_value(m, ty, z, heap0, universe, depth=0):
    ev = lambda t: m.eval(t, model_completion=True)
    k = ty.kind
    if k in ('int', 'bool', 'real', 'str', 'bytes'):
        return _py(ev(z))
    if k == 'none':
        return None
    if k == 'tuple':
        dt = T.sort_of(ty)
        return [decode_value(m, a, dt.accessor(0, i)(z), heap0, universe, depth) for i, a in enumerate(ty.args)]
    if k == 'union':
        v = ev(z)
        P = T.PyVal
        for alt, tst, acc in ((T.NONE, P.is_none, None), (T.BOOL, P.is_b, P.b_v), (T.INT, P.is_i, P.i_v),
                              (T.REAL, P.is_r, P.r_v), (T.STR, P.is_s, P.s_v), (T.BYTES, P.is_y, P.y_v)):
            if z3.is_true(ev(tst(z))):
                return None if acc is None else _py(ev(acc(z)))
        if z3.is_true(ev(P.is_o(z))):
            r = ev(P.o_v(z))
            return {'$ref': _py(r), '$typetag': _py(ev(z3.Function('typeof', z3.IntSort(), z3.IntSort())(r)))}
        return str(v)
    if k == 'list':
        r = ev(z)
        if _py(r) == 0:
            return None
        es = T.sort_of(ty.args[0])
        larr = heap0('$larr:' + T.sort_name(es), z3.ArraySort(z3.IntSort(), z3.ArraySort(z3.IntSort(), es)))
        llen = heap0('$llen:' + T.sort_name(es), z3.ArraySort(z3.IntSort(), z3.IntSort()))
        n = _py(ev(z3.Select(llen, r)))
        n = max(0, min(n if isinstance(n, int) else 0, 8))
        return [decode_value(m, ty.args[0], z3.Select(z3.Select(larr, r), i), heap0, universe, depth + 1)
                for i in range(n)]
    if k == 'set':
        r = ev(z)
        if _py(r) == 0:
            return None
        es = T.sort_of(ty.args[0])
        sarr = heap0('$set:' + T.sort_name(es), z3.ArraySort(z3.IntSort(), z3.ArraySort(es, z3.BoolSort())))
        out = []
        for u in universe.get(es.name(), []):
            if z3.is_true(ev(z3.Select(z3.Select(sarr, r), u))):
                out.append(_py(ev(u)))
        return {'$set': sorted(set(out), key=repr)}
    if k == 'ref':
        r = ev(z)
        if _py(r) == 0:
            return None
        out = {'$ref': _py(r), '$class': ty.name}
        if depth >= 3:
            return out
        seen = set()
        for cn in R.mro(ty.name):
            ci = R.CLASSES.get(cn)
            if ci is None:
                continue
            for fname, fty in ci.fields.items():
                if fname in seen:
                    continue
                seen.add(fname)
                arr = heap0('%s.%s' % (cn, fname), z3.ArraySort(z3.IntSort(), T.sort_of(fty)))
                try:
                    out[fname] = decode_value(m, fty, z3.Select(arr, r), heap0, universe, depth + 1)
                except Exception as e:
                    out[fname] = 'undecodable: %s' % e
        return out
    return str(ev(z)) if z3.is_expr(z) else repr(z)


def decode_prestate(m, entry_env, heap_sorts):
    def heap0(key, sort):
        return z3.Const('H0_' + key, sort)
    universe = {}
    for d in m.decls():
        if d.arity() == 0:
            v = m[d]
            try:
                universe.setdefault(v.sort().name(), [])
                universe[v.sort().name()].append(v)
            except Exception:
                pass
    out = {}
    for name, val in entry_env.items():
        if val.t.kind in ('fn', 'typeobj'):
            continue
        try:
            out[name] = decode_value(m, val.t, val.z, heap0, universe)
        except Exception as e:
            out[name] = 'undecodable: %s' % e
    return out


# ------------------------------------------------------------------ native replay of a decoded model
REPLAY_BUILDERS = {}    # function key -> script path (run under /venv/bin/python with the prestate JSON)


def native_replay_model(pid, key, o, model):
    script = REPLAY_BUILDERS.get(key)
    if script is None:
        return dict(reproduced=False, reason='no native state builder registered for %s' % key)
    return dict(reproduced=False, reason='builder present but no decoded prestate')


# ---------------------------------------------------------------------------- native replay of a counter-model
# (functions whose entry state decodes into plain Python data: ints, bools, reals, str, bytes, None, lists of those,
# and objects of repository classes whose declared non-ghost fields decode the same way -- one level deep)
class _NoDecode(Exception):
    pass


_PLACEHOLDERS = []


def _py_str(v):
    """z3 string value -> python str (z3 prints non-printable characters as \\u{..} escapes)"""
    import re as _re
    s = v.as_string()
    return _re.sub(r'\\u\{([0-9a-fA-F]+)\}', lambda m: chr(int(m.group(1), 16)), s)


def _h0(key, sort):
    return z3.Const('H0_' + key, sort)


def _decode(model, val_t, z, depth=0):
    from . import types as T
    from . import registry as R
    ev = lambda t: model.eval(t, model_completion=True)
    k = val_t.kind
    if k == 'none':
        return None
    if k == 'int':
        return ev(z).as_long()
    if k == 'bool':
        return z3.is_true(ev(z))
    if k == 'real':
        r = ev(z)
        return float(r.numerator_as_long()) / float(r.denominator_as_long())
    if k == 'str':
        return _py_str(ev(z))
    if k == 'bytes':
        return {'__bytes__': [ord(ch) for ch in _py_str(ev(z))]}
    if k == 'union':
        if not val_t.args:
            # Any: plain data if the model picked a plain constructor
            for tst, acc, conv in ((T.PyVal.is_none, None, lambda v: None),
                                   (T.PyVal.is_b, T.PyVal.b_v, lambda v: z3.is_true(v)),
                                   (T.PyVal.is_i, T.PyVal.i_v, lambda v: v.as_long()),
                                   (T.PyVal.is_s, T.PyVal.s_v, lambda v: _py_str(v))):
                if z3.is_true(ev(tst(z))):
                    return conv(ev(acc(z))) if acc is not None else None
            raise _NoDecode('Any holding an object')
        for a in val_t.args:
            if a.kind == 'none':
                if z3.is_true(ev(T.PyVal.is_none(z))):
                    return None
                continue
            if z3.is_true(ev(T.tester(a, z))):
                if a.is_reflike:
                    # object alternatives are told apart by the dynamic class: only the unambiguous case is decoded
                    if sum(1 for b in val_t.args if b.is_reflike) > 1:
                        raise _NoDecode('several object alternatives')
                return _decode(model, a, T.unbox(a, z), depth)
        # the model chose an alternative the declared union does not name (an unconstrained slot): decode the boxed
        # value by its own constructor when it is plain data
        for tst, acc, conv in ((T.PyVal.is_none, None, lambda v: None),
                               (T.PyVal.is_b, T.PyVal.b_v, lambda v: z3.is_true(v)),
                               (T.PyVal.is_i, T.PyVal.i_v, lambda v: v.as_long()),
                               (T.PyVal.is_s, T.PyVal.s_v, lambda v: _py_str(v))):
            if z3.is_true(ev(tst(z))):
                return conv(ev(acc(z))) if acc is not None else None
        raise _NoDecode('union alternative')
    if k == 'list':
        r = ev(z)
        if r.as_long() == 0:
            return None
        et = val_t.args[0]
        if et.kind == 'unknown':
            raise _NoDecode('untyped list')
        es = T.sort_of(et)
        I = z3.IntSort()
        n = ev(z3.Select(_h0('$llen:' + T.sort_name(es), z3.ArraySort(I, I)), r)).as_long()
        if n < 0 or n > 12:
            raise _NoDecode('list length %d' % n)
        arr = z3.Select(_h0('$larr:' + T.sort_name(es), z3.ArraySort(I, z3.ArraySort(I, es))), r)
        return [_decode(model, et, z3.Select(arr, i), depth + 1) for i in range(n)]
    if k == 'tuple':
        dt = T.sort_of(val_t)
        return {'__tuple__': [_decode(model, a, dt.accessor(0, i)(z), depth + 1) for i, a in enumerate(val_t.args)]}
    if k == 'set':
        r = ev(z)
        if r.as_long() == 0:
            return None
        et = val_t.args[0]
        if et.kind not in ('int', 'str'):
            raise _NoDecode('set of %s' % et.kind)
        es = T.sort_of(et)
        arr = ev(z3.Select(_h0('$set:' + T.sort_name(es), z3.ArraySort(z3.IntSort(), z3.ArraySort(es, z3.BoolSort()))), r))
        # the model value of a set is a chain of stores over a constant array: collect the keys stored as True
        members, seen = [], set()
        a = arr
        while z3.is_app(a) and a.decl().kind() == z3.Z3_OP_STORE:
            kz, vz = a.arg(1), a.arg(2)
            key = _decode(model, et, kz, depth + 1)
            if key not in seen:
                seen.add(key)
                if z3.is_true(vz):
                    members.append(key)
            a = a.arg(0)
        if not (z3.is_app(a) and a.decl().kind() == z3.Z3_OP_CONST_ARRAY and z3.is_false(a.arg(0))):
            raise _NoDecode('set model is not a finite store chain')
        return {'__set__': members}
    if k == 'dict':
        r = ev(z)
        if r.as_long() == 0:
            return None
        kt, vt = val_t.args
        if kt.kind == 'unknown':
            raise _NoDecode('untyped dict')
        ks, vs = T.sort_of(kt), T.sort_of(vt)
        I = z3.IntSort()
        n = ev(z3.Select(_h0('$dlen', z3.ArraySort(I, I)), r)).as_long()
        if n < 0 or n > 12:
            raise _NoDecode('dict length %d' % n)
        keys = z3.Select(_h0('$dkeys:' + T.sort_name(ks), z3.ArraySort(I, z3.ArraySort(I, ks))), r)
        mp = z3.Select(_h0('$dmap:' + T.sort_name(ks) + ':' + T.sort_name(vs), z3.ArraySort(I, z3.ArraySort(ks, vs))), r)
        items = []
        for i in range(n):
            kz = z3.Select(keys, i)
            items.append([_decode(model, kt, kz, depth + 1), _decode(model, vt, z3.Select(mp, kz), depth + 1)])
        return {'__dict__': items}
    if k == 'ref':
        r = ev(z)
        if r.as_long() == 0:
            return None
        if depth >= 4:
            raise _NoDecode('object nesting')
        ci = R.CLASSES.get(val_t.name)
        if ci is None or not ci.module:
            raise _NoDecode('class %s has no module' % val_t.name)
        fields = {}
        for cn in R.mro(val_t.name):
            c2 = R.CLASSES.get(cn)
            if c2 is None:
                continue
            for f, ft in c2.fields.items():
                if f in c2.ghost or f in fields:
                    continue
                fz = z3.Select(_h0('%s.%s' % (cn, f), z3.ArraySort(z3.IntSort(), T.sort_of(ft))), r)
                try:
                    fields[f] = _decode(model, ft, fz, depth + 1)
                except _NoDecode:
                    if depth >= 1 or (ft.kind == 'union' and not ft.args):
                        # an unconstrained slot holding an arbitrary object (typed Any, or deep inside the state):
                        # replaced by None -- the replay only counts if the REAL run then shows the predicted outcome
                        fields[f] = None
                        _PLACEHOLDERS.append('%s.%s' % (cn, f))
                    else:
                        raise
        return {'__object__': val_t.name, 'module': ci.module, 'fields': fields}
    raise _NoDecode(k)


def replay_spec(ob):
    """JSON description of how to run the real function on the counter-model's entry state, and of the outcome the
    counter-model predicts; None when the entry state does not decode into plain data."""
    from . import types as T
    ent = getattr(ob, 'entry', None)
    ob.replay_why = None
    if ent is None or ob.model is None or ob.outcome is None:
        ob.replay_why = 'no entry state / model / outcome recorded for this obligation'
        return None
    fn, c = ent['fn'], ent['contract']
    if getattr(c, 'yields', False):
        ob.replay_why = 'the function yields to other greenlets (its result depends on collaborators)'
        return None
    args = []
    del _PLACEHOLDERS[:]
    try:
        for name, v in ent['params']:
            if v.t.kind == 'typeobj':
                args.append((name, {'__class__': fn.cls}))
                continue
            if v.t.kind in ('fn', 'xtuple', 'kwargs', 'seq', 'setv', 'mapv'):
                ob.replay_why = 'parameter %s of kind %s' % (name, v.t.kind)
                return None
            args.append((name, _decode(ob.model, v.t, v.z)))
        kind, what = ob.outcome
        if kind == 'raise':
            predicted = {'outcome': 'raised', 'exc': what}
        else:
            try:
                predicted = {'outcome': 'returned', 'value': _decode(ob.model, what.t, what.z)}
            except _NoDecode:
                predicted = {'outcome': 'returned'}
    except _NoDecode as e:
        ob.replay_why = 'not plain data: %s' % e
        return None
    except Exception as e:
        ob.replay_why = 'decoding failed: %s' % e
        return None
    return dict(module=fn.module, qual=c.qual, cls=fn.cls, args=args, predicted=predicted,
                fields_replaced_by_none=sorted(set(_PLACEHOLDERS)),
                obligation_kind=('raises-only' if ob.label.startswith('raises-only') else 'post'))
