"""Extraction of the functions under contract from the real sources, on every
run.  Nothing is copied by hand: the module file under $PYVC_REPO is parsed with
``ast`` and the function is looked up by qualified name.

What the extraction drops (never seen by the verifier): comments, docstrings
(an ``Expr`` statement that is a bare string constant), ``# type:`` comments.
Decorators are not executed; they are recorded and handled by contract."""
import ast
import hashlib
import os

REPO = os.environ.get('PYVC_REPO', '/repo')

_MODULES = {}


class FuncSrc(object):
    def __init__(self, module, qual, node, cls, src, path):
        self.module = module
        self.qual = qual
        self.node = node
        self.cls = cls            # enclosing class name or None
        self.src = src
        self.path = path
        self.sha = hashlib.sha256(src.encode()).hexdigest()
        self.loops = []
        self._number_loops()
        self.decorators = [ast.unparse(d) for d in node.decorator_list]

    def _number_loops(self):
        out = []

        def walk(n):
            for ch in ast.iter_child_nodes(n):
                if isinstance(ch, (ast.FunctionDef, ast.Lambda, ast.ClassDef)):
                    continue
                if isinstance(ch, (ast.For, ast.While)):
                    out.append(ch)
                walk(ch)
        walk(self.node)
        self.loops = out
        for i, l in enumerate(out):
            l._ordinal = i
        # list comprehensions are numbered separately ('c0', 'c1', ...): one whose element expression has effects
        # (calls a function under contract) is executed as the loop it abbreviates, under loops={'c<n>': ...}
        comps = []

        def walkc(n):
            for ch in ast.iter_child_nodes(n):
                if isinstance(ch, (ast.FunctionDef, ast.Lambda, ast.ClassDef)):
                    continue
                if isinstance(ch, ast.ListComp):
                    comps.append(ch)
                walkc(ch)
        walkc(self.node)
        for i, c in enumerate(comps):
            c._comp_ordinal = i

    @property
    def lineno(self):
        return self.node.lineno


def load_module(relpath):
    path = os.path.join(REPO, relpath)
    if path not in _MODULES:
        with open(path) as f:
            src = f.read()
        _MODULES[path] = (src, ast.parse(src, filename=path))
    return _MODULES[path]


def find_function(relpath, qual):
    src, tree = load_module(relpath)
    parts = qual.split('.')
    node = tree
    cls = None
    for i, p in enumerate(parts):
        found = None
        for ch in ast.iter_child_nodes(node) if not isinstance(node, (ast.FunctionDef,)) else _deep_defs(node):
            if isinstance(ch, (ast.ClassDef, ast.FunctionDef)) and ch.name == p:
                found = ch
                break
        if found is None:
            return None
        if isinstance(found, ast.ClassDef):
            cls = found.name
        node = found
    if not isinstance(node, ast.FunctionDef):
        return None
    seg = ast.get_source_segment(src, node) or ''
    return FuncSrc(relpath, qual, node, cls, seg, os.path.join(REPO, relpath))


def _deep_defs(fn):
    # nested function definitions anywhere inside fn (not inside further defs)
    out = []

    def walk(n):
        for ch in ast.iter_child_nodes(n):
            if isinstance(ch, ast.FunctionDef):
                out.append(ch)
            elif not isinstance(ch, (ast.ClassDef, ast.Lambda)):
                walk(ch)
    walk(fn)
    return out


def module_classes(relpath):
    """{class name: [base names]} for the classes defined at module level."""
    src, tree = load_module(relpath)
    out = {}
    for n in tree.body:
        if isinstance(n, ast.ClassDef):
            bases = []
            for b in n.bases:
                if isinstance(b, ast.Name):
                    bases.append(b.id)
                elif isinstance(b, ast.Attribute):
                    bases.append(b.attr)
            out[n.name] = bases
    return out


def module_constants(relpath):
    """Module-level simple assignments NAME = <literal/expr> as AST nodes."""
    src, tree = load_module(relpath)
    out = {}
    for n in tree.body:
        if isinstance(n, ast.Assign) and len(n.targets) == 1 and isinstance(n.targets[0], ast.Name):
            out[n.targets[0].id] = n.value
    return out


def class_constants(relpath, cls):
    src, tree = load_module(relpath)
    out = {}
    for n in tree.body:
        if isinstance(n, ast.ClassDef) and n.name == cls:
            for m in n.body:
                if isinstance(m, ast.Assign) and len(m.targets) == 1 and isinstance(m.targets[0], ast.Name):
                    out[m.targets[0].id] = m.value
    return out


def class_methods(relpath, cls):
    src, tree = load_module(relpath)
    for n in tree.body:
        if isinstance(n, ast.ClassDef) and n.name == cls:
            return [m.name for m in n.body if isinstance(m, ast.FunctionDef)]
    return []


def strip_docstring(body):
    if body and isinstance(body[0], ast.Expr) and isinstance(body[0].value, ast.Constant) \
            and isinstance(body[0].value.value, str):
        return body[1:]
    return body
