"""Semantics of Python's built-in data types for the pyvc executor: the axiom
prelude (part of the trusted base, cross-checked against CPython by
tests/crosscheck.py).  Lists are (array, length) pairs; every operation that
shifts elements yields a fresh array together with definitional axioms stated
in both directions with explicit triggers."""
import ast
import z3

from . import types as T
from . import registry as R
from . import frontend as F
from .core import Val, SeqV, FnV, Undecided, TYPEOF, PyRaise

I = z3.IntSort()


def _ex():
    from . import exec as E
    return E


# ----------------------------------------------------------------- sequences (values)
def seq_fresh(st, es, hint='s'):
    return SeqV(st.fresh(z3.ArraySort(I, es), hint + '_a'), st.fresh(I, hint + '_n'))


def seq_of(st, v):
    """Sequence value of a list / seq / tuple-like Val."""
    if v.t.kind == 'list':
        return st.list_seq(_name_ite(st, v.z), v.t.args[0]), v.t.args[0]
    if v.t.kind == 'seq':
        return v.z, v.t.args[0]
    if v.t.kind == 'tuple':
        ets = set(v.t.args)
        if len(ets) == 1:
            et = v.t.args[0]
            items = _ex().tuple_items(st, v)
            arr = z3.K(I, items[0].z)
            for i, it in enumerate(items):
                arr = z3.Store(arr, i, it.z)
            return SeqV(arr, z3.IntVal(len(items))), et
    raise Undecided('not a sequence: %r' % (v.t,))


def _has_ite(t):
    seen = set()
    todo = [t]
    while todo:
        x = todo.pop()
        if x.get_id() in seen:
            continue
        seen.add(x.get_id())
        if z3.is_app(x) and x.decl().kind() == z3.Z3_OP_ITE:
            return True
        todo.extend(x.children())
    return False


def _name_ite(st, ref):
    """A reference term that contains an if-then-else cannot occur in a quantifier pattern: name it."""
    if st.qdepth > 0 or not _has_ite(ref):
        return ref
    cache = st.ghost.setdefault('$ite_names', {})
    k = ref.get_id()
    if k not in cache:
        r = st.fresh(ref.sort(), 'ref')
        st.assume(r == ref)
        cache[k] = (r, ref)      # keep the term alive
    return cache[k][0]


def seq_literal(st, items, et):
    es = T.sort_of(et)
    arr = st.fresh(z3.ArraySort(I, es), 'lit')
    for i, it in enumerate(items):
        arr = z3.Store(arr, i, st.coerce(it, et).z)
    return SeqV(arr, z3.IntVal(len(items)))


def seq_slice(st, s, es, lo, hi):
    """s[lo:hi] with 0 <= lo <= hi <= s.n already normalised.  The shifted array depends on (array, lo) only:
    the same pair yields the same SMT array term (so two slices of one list from the same position are
    recognisably the same sequence)."""
    lo_s = z3.simplify(lo) if z3.is_expr(lo) else z3.IntVal(lo)
    hi = hi if z3.is_expr(hi) else z3.IntVal(hi)
    if z3.is_int_value(lo_s) and lo_s.as_long() == 0:
        return SeqV(s.arr, z3.simplify(hi - 0) if False else hi)
    cache = st.ghost.setdefault('$slice_cache', {})
    key = (s.arr.get_id(), lo_s.get_id())
    if key in cache:
        arr = cache[key][0]
        return SeqV(arr, hi - lo)
    r = seq_fresh(st, es, 'slice')
    cache[key] = (r.arr, s.arr, lo_s)
    r = SeqV(r.arr, hi - lo)
    k = z3.Int('k!sl')
    st.assume(z3.ForAll([k], z3.Implies(z3.And(0 <= k, k + lo < s.n),
                                        z3.Select(r.arr, k) == z3.Select(s.arr, k + lo)),
                        patterns=[z3.Select(r.arr, k)]))
    st.assume(z3.ForAll([k], z3.Implies(z3.And(lo <= k, k < s.n),
                                        z3.Select(r.arr, k - lo) == z3.Select(s.arr, k)),
                        patterns=[z3.Select(s.arr, k)]))
    return r


def seq_concat(st, a, b, es):
    r = seq_fresh(st, es, 'cat')
    k = z3.Int('k!cat')
    st.assume(r.n == a.n + b.n)
    st.assume(z3.ForAll([k], z3.Implies(z3.And(0 <= k, k < a.n),
                                        z3.Select(r.arr, k) == z3.Select(a.arr, k)),
                        patterns=[z3.Select(r.arr, k)]))
    st.assume(z3.ForAll([k], z3.Implies(z3.And(0 <= k, k < a.n),
                                        z3.Select(r.arr, k) == z3.Select(a.arr, k)),
                        patterns=[z3.Select(a.arr, k)]))
    st.assume(z3.ForAll([k], z3.Implies(z3.And(a.n <= k, k < r.n),
                                        z3.Select(r.arr, k) == z3.Select(b.arr, k - a.n)),
                        patterns=[z3.Select(r.arr, k)]))
    st.assume(z3.ForAll([k], z3.Implies(z3.And(0 <= k, k < b.n),
                                        z3.Select(r.arr, k + a.n) == z3.Select(b.arr, k)),
                        patterns=[z3.Select(b.arr, k)]))
    return r


def seq_insert(st, s, es, p, x):
    """fresh sequence s[:p] + [x] + s[p:], 0 <= p <= s.n assumed by caller."""
    r = seq_fresh(st, es, 'ins')
    k = z3.Int('k!ins')
    st.assume(r.n == s.n + 1)
    st.assume(z3.Select(r.arr, p) == x)
    for pat in (lambda: z3.Select(r.arr, k), lambda: z3.Select(s.arr, k)):
        st.assume(z3.ForAll([k], z3.Implies(z3.And(0 <= k, k < p),
                                            z3.Select(r.arr, k) == z3.Select(s.arr, k)),
                            patterns=[pat()]))
    st.assume(z3.ForAll([k], z3.Implies(z3.And(p <= k, k < s.n),
                                        z3.Select(r.arr, k + 1) == z3.Select(s.arr, k)),
                        patterns=[z3.Select(s.arr, k)]))
    st.assume(z3.ForAll([k], z3.Implies(z3.And(p < k, k <= s.n),
                                        z3.Select(r.arr, k) == z3.Select(s.arr, k - 1)),
                        patterns=[z3.Select(r.arr, k)]))
    return r


def seq_remove_at(st, s, es, p):
    """fresh sequence s[:p] + s[p+1:], 0 <= p < s.n assumed by caller."""
    r = seq_fresh(st, es, 'del')
    k = z3.Int('k!del')
    st.assume(r.n == s.n - 1)
    for pat in (lambda: z3.Select(r.arr, k), lambda: z3.Select(s.arr, k)):
        st.assume(z3.ForAll([k], z3.Implies(z3.And(0 <= k, k < p),
                                            z3.Select(r.arr, k) == z3.Select(s.arr, k)),
                            patterns=[pat()]))
    st.assume(z3.ForAll([k], z3.Implies(z3.And(p < k, k < s.n),
                                        z3.Select(r.arr, k - 1) == z3.Select(s.arr, k)),
                        patterns=[z3.Select(s.arr, k)]))
    st.assume(z3.ForAll([k], z3.Implies(z3.And(p <= k, k < r.n),
                                        z3.Select(r.arr, k) == z3.Select(s.arr, k + 1)),
                        patterns=[z3.Select(r.arr, k)]))
    return r


def _has_ite(t):
    seen = set()
    todo = [t]
    while todo:
        x = todo.pop()
        if x.get_id() in seen:
            continue
        seen.add(x.get_id())
        if z3.is_app(x) and x.decl().kind() == z3.Z3_OP_ITE:
            return True
        todo.extend(x.children())
    return False


def seq_eq(a, b):
    k = z3.Int('k!eq')
    body = z3.Implies(z3.And(0 <= k, k < a.n), z3.Select(a.arr, k) == z3.Select(b.arr, k))
    if _has_ite(a.arr):
        q = z3.ForAll([k], body)       # the array term contains if-then-else: let the solver choose triggers
    else:
        q = z3.ForAll([k], body, patterns=[z3.Select(a.arr, k)])
    return z3.And(a.n == b.n, q)


def seq_contains(st, s, x):
    k = z3.Int('k!in')
    return z3.Exists([k], z3.And(0 <= k, k < s.n, z3.Select(s.arr, k) == x))


# ----------------------------------------------------------------- lists (heap objects)
def new_list(st, items, et=None):
    if et is None:
        if not items:
            et = None
        else:
            et = items[0].t
            for it in items[1:]:
                if it.t != et:
                    et = T.TUnion(et, it.t)
    if st.spec:
        if et is None:
            raise Undecided('empty list literal in spec needs a typed context')
        return Val(T.TSeq(et), seq_literal(st, items, et))
    if et is None:
        # element type fixed on first use: declared local types or later coercion
        et = T.Ty('unknown')
        ref = st.new_ref('list')
        return Val(T.Ty('list', (et,)), ref)
    ref = st.new_ref('list')
    st.list_store(ref, et, seq_literal(st, items, et))
    return Val(T.TList(et), ref)


def retype_empty_list(st, v, et):
    """An empty list literal gets its element type when it is first stored/used."""
    return Val(T.TList(et), v.z)


def list_append(st, lst, x):
    E = _ex()
    if lst.t.args[0].kind == 'unknown':
        st.init_empty(lst, T.TList(x.t))
    et = lst.t.args[0]
    E.check_or_raise(st, z3.And(lst.z != 0, is_real_list(lst.z)), 'AttributeError')
    E.check_frame_contents(st, lst.z)
    s = st.list_seq(lst.z, et)
    narr = z3.Store(s.arr, s.n, st.coerce(x, et).z)
    k = z3.Int('k!app')
    # old-array terms give rise to the corresponding new-array terms (E-matching in both directions)
    st.assume(z3.ForAll([k], z3.Implies(z3.And(0 <= k, k < s.n), z3.Select(narr, k) == z3.Select(s.arr, k)),
                        patterns=[z3.Select(s.arr, k)]))
    try:
        st.assume(z3.ForAll([k], z3.Implies(z3.And(0 <= k, k < s.n), z3.Select(narr, k) == z3.Select(s.arr, k)),
                            patterns=[z3.Select(narr, k)]))
    except z3.Z3Exception:
        pass        # the stored value / index contains a term that is not allowed in a pattern
    st.list_store(lst.z, et, SeqV(narr, s.n + 1))


def list_extend(st, lst, other):
    E = _ex()
    et = lst.t.args[0]
    E.check_or_raise(st, z3.And(lst.z != 0, is_real_list(lst.z)), 'AttributeError')
    E.check_frame_contents(st, lst.z)
    s = st.list_seq(lst.z, et)
    o, oet = seq_of(st, other)
    if oet != et:
        raise Undecided('extend with different element type %r vs %r' % (oet, et))
    st.list_store(lst.z, et, seq_concat(st, s, o, T.sort_of(et)))


def is_real_list(ref):
    return TYPEOF(ref) == R.CLASSES['list'].tag


def new_tuple_obj(st, seq, et):
    """A Python tuple of symbolic length stored where a list is expected: an immutable
    sequence object (class tag tuple) in the heap."""
    ref = st.new_ref('tuple')
    st.list_store(ref, et, seq)
    return Val(T.TList(et), ref)


def norm_index(st, idx, n):
    """Python index normalisation (negative indices)."""
    return z3.If(idx.z < 0, idx.z + n, idx.z)


def get_item(st, obj, idx):
    E = _ex()
    if obj.t.kind == 'union':
        obj = E.concretize(st, obj)
    if idx.t.kind == 'union':
        idx = E.concretize(st, idx)
    k = obj.t.kind
    if k in ('list', 'seq'):
        s, et = seq_of(st, obj)
        if idx.t.kind != 'int':
            if st.spec:
                raise Undecided('non-int index in spec')
            E.raise_exc(st, 'TypeError')
        i = norm_index(st, idx, s.n) if not st.spec else idx.z
        E.check_or_raise(st, z3.And(0 <= i, i < s.n), 'IndexError')
        v = Val(et, z3.Select(s.arr, i))
        st.assume_type(v) if not st.spec else None
        return v
    if k in ('tuple', 'xtuple'):
        items = E.tuple_items(st, obj)
        c = z3.simplify(idx.z)
        if z3.is_int_value(c):
            ci = c.as_long()
            if -len(items) <= ci < len(items):
                return items[ci]
            E.raise_exc(st, 'IndexError')
        raise Undecided('symbolic index into a fixed tuple')
    if k == 'dict':
        kt, vt = obj.t.args
        keys, mp, has = st.dict_parts(obj.z, kt, vt)
        kk = st.coerce(idx, kt)
        E.check_or_raise(st, z3.Select(has, kk.z), 'KeyError')
        v = Val(vt, z3.Select(mp, kk.z))
        st.assume_type(v) if not st.spec else None
        return v
    if k == 'mapv':
        kt, vt = obj.t.args
        return Val(vt, z3.Select(obj.z, st.coerce(idx, kt).z))
    if k in ('str', 'bytes'):
        n = z3.Length(obj.z)
        i = norm_index(st, idx, n) if not st.spec else idx.z
        E.check_or_raise(st, z3.And(0 <= i, i < n), 'IndexError')
        if k == 'bytes':
            return Val(T.INT, z3.StrToCode(z3.SubString(obj.z, i, 1)))
        return Val(T.STR, z3.SubString(obj.z, i, 1))
    if k == 'ref' and obj.t.name == 'bytearray':
        d = st.read_field(obj.z, 'bytearray', 'data')
        return get_item(st, d, idx)
    if k == 'ref':
        c = R.find_contract(obj.t.name, '__getitem__')
        if c is not None:
            from . import calls
            return calls.call_contract(st, c, [obj, idx], {}, None)
    raise Undecided('subscript of %r' % (obj.t,))


def clamp(st, v, n, default):
    if v is None:
        return default
    if v.t.kind == 'none':
        return default
    z = v.z
    z = z3.If(z < 0, z3.If(z + n < 0, 0, z + n), z3.If(z > n, n, z))
    return z


def get_slice(st, obj, lo, hi):
    E = _ex()
    if obj.t.kind == 'union':
        obj = E.concretize(st, obj)
    if lo is not None and lo.t.kind == 'union':
        lo = E.concretize(st, lo)
    if hi is not None and hi.t.kind == 'union':
        hi = E.concretize(st, hi)
    k = obj.t.kind
    if k == 'ref' and obj.t.name == 'memoryview':
        # a sub-view onto the same buffer
        vlo = st.read_field(obj.z, 'memoryview', 'lo').z
        vhi = st.read_field(obj.z, 'memoryview', 'hi').z
        n = vhi - vlo
        l = clamp(st, lo, n, z3.IntVal(0))
        h = clamp(st, hi, n, n)
        h = z3.If(h < l, l, h)
        ref = st.new_ref('memoryview')
        st.write_field(ref, 'memoryview', 'buf', st.read_field(obj.z, 'memoryview', 'buf'))
        st.write_field(ref, 'memoryview', 'lo', Val(T.INT, vlo + l))
        st.write_field(ref, 'memoryview', 'hi', Val(T.INT, vlo + h))
        return Val(T.TRef('memoryview'), ref)
    if k == 'ref' and obj.t.name == 'bytearray':
        d = st.read_field(obj.z, 'bytearray', 'data')
        return get_slice(st, d, lo, hi)
    if k in ('str', 'bytes'):
        n = z3.Length(obj.z)
        l = clamp(st, lo, n, z3.IntVal(0))
        h = clamp(st, hi, n, n)
        return Val(obj.t, z3.SubString(obj.z, l, z3.If(h - l < 0, 0, h - l)))
    if k in ('list', 'seq'):
        s, et = seq_of(st, obj)
        l = clamp(st, lo, s.n, z3.IntVal(0))
        h = clamp(st, hi, s.n, s.n)
        h = z3.If(h < l, l, h)
        r = seq_slice(st, s, T.sort_of(et), l, h)
        if st.spec or k == 'seq':
            return Val(T.TSeq(et), r)
        ref = st.new_ref('list')
        st.list_store(ref, et, r)
        return Val(T.TList(et), ref)
    raise Undecided('slice of %r' % (obj.t,))


def set_item(st, obj, idx, val):
    E = _ex()
    if obj.t.kind == 'list':
        et = obj.t.args[0]
        E.check_or_raise(st, is_real_list(obj.z), 'TypeError')
        E.check_frame_contents(st, obj.z)
        s = st.list_seq(obj.z, et)
        i = st.fresh(I, 'setidx')          # named: if-then-else terms cannot occur in quantifier patterns
        st.assume(i == norm_index(st, idx, s.n))
        E.check_or_raise(st, z3.And(0 <= i, i < s.n), 'IndexError')
        st.list_store(obj.z, et, SeqV(z3.Store(s.arr, i, st.coerce(val, et).z), s.n))
        return
    if obj.t.kind == 'dict':
        dict_set(st, obj, idx, val)
        return
    if obj.t.kind == 'ref':
        c = R.find_contract(obj.t.name, '__setitem__')
        if c is not None:
            from . import calls
            calls.call_contract(st, c, [obj, idx, val], {}, None)
            return
    raise Undecided('item assignment on %r' % (obj.t,))


def set_slice(st, obj, lo, hi, val):
    E = _ex()
    if obj.t.kind == 'ref' and obj.t.name == 'bytearray':
        d = st.read_field(obj.z, 'bytearray', 'data').z
        n = z3.Length(d)
        l = clamp(st, lo, n, z3.IntVal(0))
        h = clamp(st, hi, n, n)
        h = z3.If(h < l, l, h)
        if val.t.kind != 'bytes':
            raise Undecided('bytearray slice assignment of %r' % (val.t,))
        nd = z3.Concat(z3.SubString(d, 0, l), val.z, z3.SubString(d, h, n - h))
        E.check_frame(st, obj.z, 'bytearray', 'data')
        st.write_field(obj.z, 'bytearray', 'data', Val(T.BYTES, nd))
        return
    if obj.t.kind != 'list':
        raise Undecided('slice assignment on %r' % (obj.t,))
    et = obj.t.args[0]
    E.check_or_raise(st, is_real_list(obj.z), 'TypeError')
    E.check_frame_contents(st, obj.z)
    s = st.list_seq(obj.z, et)
    l = clamp(st, lo, s.n, z3.IntVal(0))
    h = clamp(st, hi, s.n, s.n)
    h = z3.If(h < l, l, h)
    v, vet = seq_of(st, val)
    if vet != et:
        raise Undecided('slice assignment with different element type')
    es = T.sort_of(et)
    left = seq_slice(st, s, es, z3.IntVal(0), l)
    right = seq_slice(st, s, es, h, s.n)
    st.list_store(obj.z, et, seq_concat(st, seq_concat(st, left, v, es), right, es))


def del_slice(st, obj, lo, hi):
    """del l[lo:hi] on a list: the elements before lo followed by the elements from hi on (Python clamping of the
    bounds; an empty or inverted range removes nothing)"""
    E = _ex()
    et = obj.t.args[0]
    E.check_or_raise(st, is_real_list(obj.z), 'TypeError')
    E.check_frame_contents(st, obj.z)
    s = st.list_seq(obj.z, et)
    l = clamp(st, lo, s.n, z3.IntVal(0))
    h = clamp(st, hi, s.n, s.n)
    h = z3.If(h < l, l, h)
    es = T.sort_of(et)
    head = seq_slice(st, s, es, z3.IntVal(0), l)
    tail = seq_slice(st, s, es, h, s.n)
    st.list_store(obj.z, et, seq_concat(st, head, tail, es))


def del_item(st, obj, idx):
    E = _ex()
    if obj.t.kind == 'list':
        et = obj.t.args[0]
        E.check_or_raise(st, is_real_list(obj.z), 'TypeError')
        E.check_frame_contents(st, obj.z)
        s = st.list_seq(obj.z, et)
        i = norm_index(st, idx, s.n)
        E.check_or_raise(st, z3.And(0 <= i, i < s.n), 'IndexError')
        st.list_store(obj.z, et, seq_remove_at(st, s, T.sort_of(et), i))
        return
    if obj.t.kind == 'dict':
        kt, vt = obj.t.args
        E.check_frame_contents(st, obj.z)
        keys, mp, has = st.dict_parts(obj.z, kt, vt)
        kk = st.coerce(idx, kt)
        E.check_or_raise(st, z3.Select(has, kk.z), 'KeyError')
        ks = T.sort_of(kt)
        p = st.fresh(I, 'dpos')
        st.assume(z3.And(0 <= p, p < keys.n, z3.Select(keys.arr, p) == kk.z))
        nk = seq_remove_at(st, keys, ks, p)
        st.dict_store(obj.z, kt, vt, nk, mp, z3.Store(has, kk.z, False))
        return
    raise Undecided('del item on %r' % (obj.t,))


def unpack_iterable(st, val, n):
    E = _ex()
    if val.t.kind in ('list', 'seq'):
        s, et = seq_of(st, val)
        E.check_or_raise(st, s.n == n, 'ValueError')
        return [Val(et, z3.Select(s.arr, i)) for i in range(n)]
    raise Undecided('unpacking %r' % (val.t,))


# ----------------------------------------------------------------- sets
def set_value(st, v):
    if v.t.kind == 'set':
        return st.set_val(v.z, v.t.args[0]), v.t.args[0]
    if v.t.kind == 'setv':
        return v.z, v.t.args[0]
    raise Undecided('not a set: %r' % (v.t,))


def empty_setv(es):
    return z3.K(es, False)


def new_set(st, items, et=None):
    if et is None:
        if not items:
            raise Undecided('empty set needs element type')
        et = items[0].t
    es = T.sort_of(et)
    sv = empty_setv(es)
    for it in items:
        sv = z3.Store(sv, st.coerce(it, et).z, True)
    if st.spec:
        return Val(T.TSetV(et), sv)
    ref = st.new_ref('set')
    st.set_store(ref, et, sv, z3.IntVal(0) if not items else None)
    return Val(T.TSet(et), ref)


def set_nonempty(st, v):
    sv, et = set_value(st, v)
    return sv != empty_setv(T.sort_of(et))


def set_of_seq(st, s, et, fn=None, ft=None):
    """{fn(e) for e in s}: fresh set with the two definitional axioms."""
    E = _ex()
    k = z3.Int('k!so')
    # the same sequence value and the same projection denote the same set: reuse the defined symbol
    ckey = ('set_of', s.arr.get_id(), s.n.get_id(), id(fn.z.node) if fn is not None else None)
    cache = st.ghost.setdefault('$setof_cache', {})
    if ckey in cache:
        return cache[ckey]
    if fn is None:
        rt = et
        elem = lambda kk: z3.Select(s.arr, kk)
    else:
        st.qdepth += 1
        try:
            probe = E.apply_fn(st, fn, [Val(et, z3.Select(s.arr, k))])
        finally:
            st.qdepth -= 1
        rt = probe.t
        elem = lambda kk: z3.substitute(probe.z, (k, kk))
    rs = T.sort_of(rt)
    S = st.fresh(z3.ArraySort(rs, z3.BoolSort()), 'setof')
    wit = z3.Function('wit!%d' % st.nfresh, rs, I)
    x = z3.Const('x!so', rs)
    st.assume(z3.ForAll([k], z3.Implies(z3.And(0 <= k, k < s.n), z3.Select(S, elem(k))),
                        patterns=[z3.Select(s.arr, k)]))
    st.assume(z3.ForAll([x], z3.Implies(z3.Select(S, x),
                                        z3.And(0 <= wit(x), wit(x) < s.n, elem(wit(x)) == x)),
                        patterns=[z3.Select(S, x)]))
    cache[ckey] = Val(T.TSetV(rt), S)
    return cache[ckey]


# ----------------------------------------------------------------- dicts
def new_dict(st, ty):
    if st.spec:
        raise Undecided('dict literal in spec')
    ref = st.new_ref('dict')
    st.heap['$dlen'] = z3.Store(st.H('$dlen', z3.ArraySort(I, I)), ref, z3.IntVal(0))
    if ty is None:
        return Val(T.Ty('dict', (T.Ty('unknown'), T.Ty('unknown'))), ref)
    kt, vt = ty.args
    keys, mp, has = st.dict_parts(ref, kt, vt)
    st.dict_store(ref, kt, vt, SeqV(keys.arr, z3.IntVal(0)), mp, z3.K(T.sort_of(kt), False))
    return Val(ty, ref)


def dict_set(st, d, key, val):
    E = _ex()
    if d.t.args[0].kind == 'unknown':
        st.init_empty(d, T.TDict(key.t, val.t))
    kt, vt = d.t.args
    E.check_frame_contents(st, d.z)
    keys, mp, has = st.dict_parts(d.z, kt, vt)
    kk = st.coerce(key, kt).z
    vv = st.coerce(val, vt).z
    present = z3.Select(has, kk)
    # fresh names (terms with if-then-else cannot be used inside quantifier patterns)
    na = st.fresh(keys.arr.sort(), 'dk_a')
    nn = st.fresh(I, 'dk_n')
    st.assume(na == z3.If(present, keys.arr, z3.Store(keys.arr, keys.n, kk)))
    st.assume(nn == z3.If(present, keys.n, keys.n + 1))
    nkeys = SeqV(na, nn)
    st.dict_store(d.z, kt, vt, nkeys, z3.Store(mp, kk, vv), z3.Store(has, kk, True))


# ----------------------------------------------------------------- comparison / arithmetic
def numeric_pair(st, a, b):
    if a.t.kind == 'bool':
        a = st.coerce(a, T.INT)
    if b.t.kind == 'bool':
        b = st.coerce(b, T.INT)
    if a.t.kind == 'real' or b.t.kind == 'real':
        return st.coerce(a, T.REAL), st.coerce(b, T.REAL)
    return a, b


def values_equal(st, a, b):
    """z3 Bool for Python's a == b."""
    E = _ex()
    ka, kb = a.t.kind, b.t.kind
    if ka == 'union' or kb == 'union':
        if st.spec or True:
            # structural equality on boxed values is sound for immutable alternatives;
            # object alternatives compare by identity unless the class defines eq fields
            ua = a.t if ka == 'union' else T.TUnion(a.t, T.NONE)
            za = st.coerce(a, T.ANY).z
            zb = st.coerce(b, T.ANY).z
            objs = [t for t in (list(a.t.args) + list(b.t.args)) if t.is_reflike] \
                if (ka == 'union' and kb == 'union') else \
                [t for t in (a.t.args if ka == 'union' else b.t.args) if t.is_reflike]
            for t in objs:
                if t.kind == 'ref' and _class_eq(t.name) is not None:
                    raise Undecided('== between union values holding objects with __eq__')
            return za == zb
    if ka in ('int', 'real', 'bool') and kb in ('int', 'real', 'bool'):
        a, b = numeric_pair(st, a, b)
        return a.z == b.z
    if ka == 'none' or kb == 'none':
        if ka == 'none' and kb == 'none':
            return z3.BoolVal(True)
        o = b if ka == 'none' else a
        if o.t.is_reflike:
            return o.z == 0
        return z3.BoolVal(False)
    if ka == 'setv' and kb == 'setv':
        return a.z == b.z
    if ka != kb:
        if {ka, kb} <= {'list', 'seq'}:
            pass
        elif {ka, kb} <= {'set', 'setv'}:
            pass
        else:
            return z3.BoolVal(False)
    if ka in ('str', 'bytes', 'opaque', 'mapv'):
        return a.z == b.z
    if ka == 'tuple':
        ia, ib = E.tuple_items(st, a), E.tuple_items(st, b)
        if len(ia) != len(ib):
            return z3.BoolVal(False)
        return z3.And([values_equal(st, x, y) for x, y in zip(ia, ib)])
    if ka in ('list', 'seq'):
        sa, ea = seq_of(st, a)
        sb, eb = seq_of(st, b)
        if ea != eb:
            raise Undecided('== on sequences of different element types')
        if ea.kind == 'ref' and _class_eq(ea.name):
            raise Undecided('== on lists of objects with __eq__')
        return seq_eq(sa, sb)
    if ka in ('set', 'setv'):
        sa, ea = set_value(st, a)
        sb, eb = set_value(st, b)
        return sa == sb
    if ka == 'ref':
        eqf = _class_eq(a.t.name) or _class_eq(b.t.name)
        if eqf is None:
            return a.z == b.z
        # both non-null objects of a class with structural __eq__
        conds = []
        for f in eqf:
            fa = st.read_field(a.z, a.t.name, f)
            fb = st.read_field(b.z, b.t.name, f)
            conds.append(values_equal(st, fa, fb))
        return z3.If(z3.Or(a.z == 0, b.z == 0), a.z == b.z, z3.And(conds))
    if ka == 'dict':
        return a.z == b.z if st.spec else _undecided('== on dicts')
    raise Undecided('== on %r' % (a.t,))


def _undecided(msg):
    raise Undecided(msg)


def _class_eq(cls):
    for c in R.mro(cls):
        ci = R.CLASSES.get(c)
        if ci is not None and ci.eq is not None:
            return ci.eq
    return None


def contains(st, x, c):
    E = _ex()
    if c.t.kind == 'union':
        c = E.concretize(st, c)
    k = c.t.kind
    if k in ('set', 'setv'):
        sv, et = set_value(st, c)
        return z3.Select(sv, st.coerce(x, et).z)
    if k == 'dict':
        kt, vt = c.t.args
        keys, mp, has = st.dict_parts(c.z, kt, vt)
        return z3.Select(has, st.coerce(x, kt).z)
    if k in ('list', 'seq'):
        s, et = seq_of(st, c)
        return seq_contains(st, s, st.coerce(x, et).z)
    if k in ('str', 'bytes'):
        if x.t.kind == 'int' and k == 'bytes':
            return z3.Contains(c.z, z3.StrFromCode(x.z))
        return z3.Contains(c.z, x.z)
    if k in ('tuple', 'xtuple'):
        items = E.tuple_items(st, c)
        return z3.Or([values_equal(st, x, it) for it in items]) if items else z3.BoolVal(False)
    if k == 'ref':
        cc = R.find_contract(c.t.name, '__contains__')
        if cc is not None:
            from . import calls
            return E.truthy(st, calls.call_contract(st, cc, [c, x], {}, None))
    raise Undecided('membership in %r' % (c.t,))


def compare(st, op, a, b):
    E = _ex()
    if isinstance(op, ast.Is) or isinstance(op, ast.IsNot):
        r = identical(st, a, b)
        return z3.Not(r) if isinstance(op, ast.IsNot) else r
    if isinstance(op, (ast.In, ast.NotIn)):
        r = contains(st, a, b)
        return z3.Not(r) if isinstance(op, ast.NotIn) else r
    if isinstance(op, (ast.Eq, ast.NotEq)):
        r = values_equal(st, a, b)
        return z3.Not(r) if isinstance(op, ast.NotEq) else r
    # ordering
    if a.t.kind == 'union':
        a = E.concretize(st, a)
    if b.t.kind == 'union':
        b = E.concretize(st, b)
    ka, kb = a.t.kind, b.t.kind
    if ka in ('int', 'real', 'bool') and kb in ('int', 'real', 'bool'):
        a, b = numeric_pair(st, a, b)
        return {ast.Lt: a.z < b.z, ast.LtE: a.z <= b.z, ast.Gt: a.z > b.z, ast.GtE: a.z >= b.z}[type(op)]
    if ka in ('str', 'bytes') and ka == kb:
        lt = a.z < b.z
        le = a.z <= b.z
        return {ast.Lt: lt, ast.LtE: le, ast.Gt: z3.Not(le), ast.GtE: z3.Not(lt)}[type(op)]
    if st.spec:
        raise Undecided('ordering on %r, %r in spec' % (a.t, b.t))
    E.raise_exc(st, 'TypeError')


def identical(st, a, b):
    ka, kb = a.t.kind, b.t.kind
    if ka == 'none' and kb == 'none':
        return z3.BoolVal(True)
    if ka == 'none' or kb == 'none':
        o = b if ka == 'none' else a
        if o.t.kind == 'union':
            return T.PyVal.is_none(o.z)
        if o.t.is_reflike:
            return o.z == 0
        return z3.BoolVal(False)
    if ka == 'union' or kb == 'union':
        return st.coerce(a, T.ANY).z == st.coerce(b, T.ANY).z
    if a.t.is_reflike and b.t.is_reflike:
        return a.z == b.z
    if ka == kb and ka in ('bool',):
        return a.z == b.z
    if ka == 'typeobj' and kb == 'typeobj':
        return z3.BoolVal(a.z.name == b.z.name)
    raise Undecided('`is` on %r, %r' % (a.t, b.t))


def binop(st, op, a, b):
    E = _ex()
    if a.t.kind == 'union':
        a = E.concretize(st, a)
    if b.t.kind == 'union':
        b = E.concretize(st, b)
    ka, kb = a.t.kind, b.t.kind
    num = ('int', 'real', 'bool')
    if ka in num and kb in num:
        a, b = numeric_pair(st, a, b)
        if isinstance(op, ast.Add):
            return Val(a.t, a.z + b.z)
        if isinstance(op, ast.Sub):
            return Val(a.t, a.z - b.z)
        if isinstance(op, ast.Mult):
            return Val(a.t, a.z * b.z)
        if isinstance(op, ast.FloorDiv) and a.t.kind == 'int':
            E.check_or_raise(st, b.z != 0, 'ZeroDivisionError')
            # Python floor division: z3 `/` on ints is Euclidean-style div for positive divisor
            return Val(T.INT, py_floordiv(a.z, b.z))
        if isinstance(op, ast.Mod) and a.t.kind == 'int':
            E.check_or_raise(st, b.z != 0, 'ZeroDivisionError')
            return Val(T.INT, a.z - b.z * py_floordiv(a.z, b.z))
        if isinstance(op, ast.Div):
            E.check_or_raise(st, b.z != 0, 'ZeroDivisionError')
            return Val(T.REAL, z3.ToReal(a.z) / z3.ToReal(b.z) if a.t.kind == 'int' else a.z / b.z)
        if isinstance(op, (ast.BitAnd, ast.BitOr)) and a.t.kind == 'int':
            return Val(T.INT, bit_op(st, op, a.z, b.z))
        raise Undecided('numeric operator %s' % type(op).__name__)
    if ka in ('str', 'bytes') and kb == ka:
        if isinstance(op, ast.Add):
            return Val(a.t, z3.Concat(a.z, b.z))
    if ka in ('str', 'bytes') and kb in ('str', 'bytes') and ka != kb and isinstance(op, ast.Add):
        E.raise_exc(st, 'TypeError')
    if ka in ('set', 'setv') and kb in ('set', 'setv'):
        sa, ea = set_value(st, a)
        sb, eb = set_value(st, b)
        es = T.sort_of(ea)
        if isinstance(op, ast.BitOr):
            sv = z3.Map(_or_decl(), sa, sb)
        elif isinstance(op, ast.BitAnd):
            sv = z3.Map(_and_decl(), sa, sb)
        elif isinstance(op, ast.Sub):
            sv = z3.Map(_and_decl(), sa, z3.Map(_not_decl(), sb))
        else:
            raise Undecided('set operator %s' % type(op).__name__)
        if st.spec:
            return Val(T.TSetV(ea), sv)
        ref = st.new_ref('set')
        st.set_store(ref, ea, sv)
        return Val(T.TSet(ea), ref)
    if ka == 'list' and kb in ('set', 'dict', 'int', 'real', 'str', 'bytes', 'none', 'bool') and isinstance(op, ast.Add) \
            and not st.spec:
        # list.__add__ accepts lists only ("can only concatenate list (not "set") to list")
        E.raise_exc(st, 'TypeError')
    if ka in ('list', 'seq') and kb in ('list', 'seq') and isinstance(op, ast.Add):
        # an empty list literal takes the element type of the other operand
        if ka == 'list' and a.t.args[0].kind == 'unknown' and b.t.args and b.t.args[0].kind != 'unknown':
            st.init_empty(a, T.TList(b.t.args[0]))
        if kb == 'list' and b.t.args[0].kind == 'unknown' and a.t.args and a.t.args[0].kind != 'unknown':
            st.init_empty(b, T.TList(a.t.args[0]))
        sa, ea = seq_of(st, a)
        sb, eb = seq_of(st, b)
        if ea != eb:
            raise Undecided('list + list with different element types')
        r = seq_concat(st, sa, sb, T.sort_of(ea))
        if st.spec or ka == 'seq':
            return Val(T.TSeq(ea), r)
        ref = st.new_ref('list')
        st.list_store(ref, ea, r)
        return Val(T.TList(ea), ref)
    if ka in ('str', 'bytes') and isinstance(op, ast.Mod):
        raise Undecided('%-formatting')
    # everything else is a Python TypeError (e.g. list + set)
    if st.spec:
        raise Undecided('operator %s on %r, %r in spec' % (type(op).__name__, a.t, b.t))
    E.raise_exc(st, 'TypeError')


def _or_decl():
    return z3.Or(z3.Bool('a'), z3.Bool('b')).decl()


def _and_decl():
    return z3.And(z3.Bool('a'), z3.Bool('b')).decl()


def _not_decl():
    return z3.Not(z3.Bool('a')).decl()


def py_floordiv(a, b):
    # SMT-LIB integer div has a non-negative remainder: it floors for b > 0 and
    # ceils for b < 0.  Python floors: a // b == (-a) // (-b) with positive divisor.
    return z3.If(b > 0, a / b, (-a) / (-b))


_BIT = {}


def bit_op(st, op, a, b):
    """x & mask / x | mask for small constant masks on values known to be bytes (0..255)."""
    bz = z3.simplify(b)
    az = z3.simplify(a)
    if z3.is_int_value(az) and not z3.is_int_value(bz):
        a, b, az, bz = b, a, bz, az
    if not z3.is_int_value(bz):
        raise Undecided('bit operation with symbolic mask')
    m = bz.as_long()
    bv = z3.Int2BV(a, 16)
    if isinstance(op, ast.BitAnd):
        r = bv & z3.BitVecVal(m, 16)
    else:
        r = bv | z3.BitVecVal(m, 16)
    # sound only for 0 <= a < 65536: record as obligation-free assumption checked by caller contracts
    st.prove('bitop-range@%d' % st.lineno, z3.And(a >= 0, a < 65536), kind='safety')
    return z3.BV2Int(r, False)


# ----------------------------------------------------------------- globals and module attributes
_GLOBAL_FUNCS = ('len', 'isinstance', 'set', 'list', 'dict', 'tuple', 'sorted', 'zip', 'enumerate',
                 'range', 'min', 'max', 'int', 'str', 'bytes', 'bytearray', 'memoryview', 'repr',
                 'getattr', 'hasattr', 'setattr', 'super', 'map', 'repeat', 'reversed', 'iter',
                 'next', 'any', 'all', 'sum', 'abs', 'bool', 'float', 'callable', 'id', 'type',
                 # spec helpers
                 'old', 'implies', 'forall', 'exists', 'seq', 'set_of', 'fresh', 'typeof_is',
                 'sorted_by', 'distinct_by', 'iff', 'ite', 'count_where', 'no_alias', 'allocated', 'preexisting', 'dict_wf',
                 'unchanged', 'index_of', 'str_index', 'subseq', 'substr', 'str_len', 'setv',
                 'union_of', 'same_elems', 'is_fresh', 'seq_map_eq', 'let', 'emp', 'char_at',
                 'is_digit_str', 'str_to_int', 'concat_seq', 'mkseq', 'is_list', 'store', 'dict_has', 'dict_get',
                 'dict_keys', 'implies_all', 'remove_positions', 'trig', 'same', 'dict_index', 'allocated', 'ncalls', 'call_arg', 'call_result', 'in_timeout_scope', 'nraised', 'str_prefix', 'pure_IO_encrypted_of', 'py_lower', 'substr_after_last', 'py_int_ok', 'py_int_val', 'py_join_seq', 'alloc_ordered', 'str_suffix', 'py_decode', 'subset')


def global_object_val(st, nm):
    """Module-level constant object: a fixed reference that exists before the function starts; its
    declared field values hold in the current heap (nobody may write them: the frame checks reject it)."""
    cls, fields = R.GLOBAL_OBJECTS[nm]
    g = z3.Int('g!' + nm)
    v = Val(T.TRef(cls), g)
    if nm not in st.ghost.setdefault('$globals', set()):
        st.ghost['$globals'].add(nm)
        st.assume(z3.And(g > 0, g < st.fn_alloc0, TYPEOF(g) == R.CLASSES[cls].tag))
        for other in st.ghost['$globals']:
            if other != nm:
                st.assume(g != z3.Int('g!' + other))
    E = _ex()
    for f, pyv in fields.items():
        cur = st.read_field(g, cls, f)
        if pyv is None:
            want = E.NONE_VAL()
        elif isinstance(pyv, bool):
            want = E.mk_bool(z3.BoolVal(pyv))
        elif isinstance(pyv, int):
            want = E.mk_int(pyv)
        else:
            want = E.mk_str(pyv)
        st.assume(values_equal(st, cur, want))
    return v


def lookup_global(st, nm):
    if nm in R.PREDICATES:
        return Val(T.FN, FnV('predicate', nm))
    if nm in _GLOBAL_FUNCS:
        return Val(T.FN, FnV('builtin', nm))
    if nm == '__name__':
        return Val(T.STR, z3.StringVal('module'))
    if nm in R.GLOBAL_OBJECTS:
        return global_object_val(st, nm)
    if nm in R.CLASSES:
        return Val(T.TYPEOBJ, FnV('class', nm))
    from . import calls
    if nm in calls.SPECFUNS:
        return Val(T.FN, FnV('specfun', nm))
    if nm in R.CONTRACTS:
        return Val(T.FN, FnV('func', nm))
    # module-level constant of the module being verified
    if st.fn is not None:
        consts = F.module_constants(st.fn.module)
        if nm in consts:
            node = consts[nm]
            if isinstance(node, (ast.Constant, ast.Tuple)):
                saved = st.locals
                st.locals = {}
                try:
                    return _ex().ev(st, node)
                finally:
                    st.locals = saved
            key = 'modconst:%s' % nm
            if key in R.CONTRACTS:
                return Val(T.FN, FnV('func', key))
    return None


_MODULE_ATTRS = {
    ('socket', 'AF_INET'): ('int', 2), ('socket', 'AF_INET6'): ('int', 10),
    ('socket', 'AF_UNIX'): ('int', 1), ('socket', 'SOCK_STREAM'): ('int', 1),
    ('socket', 'SOCK_DGRAM'): ('int', 2), ('subprocess', 'PIPE'): ('int', -1),
    # Linux open(2) flags
    ('os', 'O_RDONLY'): ('int', 0), ('os', 'O_WRONLY'): ('int', 1), ('os', 'O_RDWR'): ('int', 2),
    ('os', 'O_CREAT'): ('int', 64), ('os', 'O_EXCL'): ('int', 128), ('os', 'O_TRUNC'): ('int', 512),
    ('os', 'O_APPEND'): ('int', 1024),
}


def lookup_module_attr(st, mod, attr):
    if (mod, attr) in _MODULE_ATTRS:
        k, v = _MODULE_ATTRS[(mod, attr)]
        return Val(T.INT, z3.IntVal(v))
    key = '%s.%s' % (mod, attr)
    if mod in R.CLASSES:
        return None           # Class.attr is resolved as an attribute of the class object
    if key in R.CONTRACTS:
        return Val(T.FN, FnV('func', key))
    if attr in R.CLASSES and mod in ('socket', 'struct', 'gevent', 'collections', 'abc', 'ssl',
                                     'binascii', 'errno', 'os', 'logging'):
        return Val(T.TYPEOBJ, FnV('class', attr))
    if mod == 'struct' and attr == 'error':
        return Val(T.TYPEOBJ, FnV('class', 'StructError'))
    if mod == 'socket' and attr == 'error':
        return Val(T.TYPEOBJ, FnV('class', 'OSError'))
    return None


def class_constant(st, cls, attr):
    """Class-level constants found in the source (simple literals only)."""
    for c in R.mro(cls):
        ci = R.CLASSES.get(c)
        if ci is None or ci.module is None:
            continue
        consts = F.class_constants(ci.module, c)
        for cand in (attr, ):
            if cand in consts and isinstance(consts[cand], ast.Constant):
                saved = st.locals
                st.locals = {}
                try:
                    return _ex().ev(st, consts[cand])
                finally:
                    st.locals = saved
    return None


def exc_class_name(st, node):
    if isinstance(node, ast.Name):
        nm = node.id
        if nm in R.CLASSES:
            return nm
        v = st.locals.get(nm)
        if v is not None and v.t.kind == 'typeobj':
            return v.z.name
    if isinstance(node, ast.Attribute):
        base = node.value.id if isinstance(node.value, ast.Name) else None
        if base == 'struct' and node.attr == 'error':
            return 'StructError'
        if base == 'socket' and node.attr in ('error', 'timeout'):
            return 'OSError'
        if base == 'binascii' and node.attr == 'Error':
            return 'BinasciiError'
        if node.attr in R.CLASSES:
            return node.attr
    raise Undecided('unknown exception class %s' % ast.unparse(node))


# ----------------------------------------------------------------- flow-sensitive narrowing
def narrowing(st, test):
    """{True: [(name, Ty)], False: [...]}: type refinements implied by a test on a local name."""
    out = {True: [], False: []}
    if isinstance(test, ast.UnaryOp) and isinstance(test.op, ast.Not):
        inner = narrowing(st, test.operand)
        return {True: inner[False], False: inner[True]}
    if isinstance(test, ast.Call) and isinstance(test.func, ast.Name) and test.func.id == 'isinstance' \
            and len(test.args) == 2 and isinstance(test.args[0], ast.Name):
        nm = test.args[0].id
        try:
            names = isinstance_classes(st, test.args[1])
        except Undecided:
            return out
        if len(names) == 1:
            out[True].append((nm, names[0]))
        out[False].append((nm, ('not', tuple(names))))
        return out
    if isinstance(test, ast.Compare) and len(test.ops) == 1 and isinstance(test.left, ast.Name) \
            and isinstance(test.comparators[0], ast.Constant) and test.comparators[0].value is None:
        nm = test.left.id
        if isinstance(test.ops[0], ast.Is):
            out[True].append((nm, 'none'))
            out[False].append((nm, 'notnone'))
        elif isinstance(test.ops[0], ast.IsNot):
            out[False].append((nm, 'none'))
            out[True].append((nm, 'notnone'))
        return out
    if isinstance(test, ast.BoolOp) and isinstance(test.op, ast.And):
        for v in test.values:
            out[True].extend(narrowing(st, v)[True])
        return out
    if isinstance(test, ast.BoolOp) and isinstance(test.op, ast.Or):
        for v in test.values:
            out[False].extend(narrowing(st, v)[False])
        return out
    return out


def isinstance_classes(st, node):
    if isinstance(node, ast.Tuple):
        out = []
        for e in node.elts:
            out.extend(isinstance_classes(st, e))
        return out
    if isinstance(node, ast.Name) and node.id in ('str', 'bytes', 'int', 'bool', 'float', 'list',
                                                  'dict', 'set', 'tuple'):
        return [node.id]
    if isinstance(node, ast.Attribute):
        if node.attr in ('Mapping', 'Sequence'):
            return [node.attr]
    return [exc_class_name(st, node)]


def E_unboxed(st, v, a):
    return _ex().unboxed(st, v, a)


def apply_narrow(st, nm, what):
    v = st.locals.get(nm)
    if v is None or v.t.kind != 'union' or not v.t.args:
        return
    alts = list(v.t.args)
    if isinstance(what, tuple) and what[0] == 'not':
        def matches(a, nm):
            if nm in ('Mapping', 'dict'):
                return a.kind == 'dict'
            if nm in ('Sequence',):
                return a.kind in ('list', 'str', 'bytes')
            if nm in _PRIM:
                return a == _PRIM[nm]
            if nm in ('list', 'set'):
                return a.kind == nm
            return a.kind == 'ref' and R.is_subclass(a.name, nm)
        rest = [a for a in alts if not any(matches(a, nm) for nm in what[1])]
        # only sound when every removed alternative is fully covered by the test
        if len(rest) == 1:
            a = rest[0]
            st.locals[nm] = E_unboxed(st, v, a)
        elif rest and len(rest) < len(alts):
            st.locals[nm] = Val(T.TUnion(*rest), v.z)
        return
    if what == 'none':
        st.locals[nm] = Val(T.NONE, T.PyVal.none)
        return
    if what == 'notnone':
        rest = [a for a in alts if a.kind != 'none']
        if len(rest) == 1:
            st.locals[nm] = Val(rest[0], T.unbox(rest[0], v.z))
        else:
            st.locals[nm] = Val(T.TUnion(*rest), v.z)
        return
    if what in ('Mapping', 'dict'):
        cands = [a for a in alts if a.kind == 'dict']
        if len(cands) == 1:
            st.locals[nm] = Val(cands[0], T.unbox(cands[0], v.z))
        return
    if what in ('Sequence', 'list'):
        cands = [a for a in alts if a.kind == 'list']
        others = [a for a in alts if a.kind in ('str', 'bytes')]
        if len(cands) == 1 and (what == 'list' or not others):
            st.locals[nm] = Val(cands[0], T.unbox(cands[0], v.z))
        return
    # class name
    if what in R.CLASSES:
        cands = [a for a in alts if a.kind == 'ref' and (R.is_subclass(a.name, what) or R.is_subclass(what, a.name))]
        if len(cands) == 1:
            a = cands[0]
            nmcls = a.name if R.is_subclass(a.name, what) else what
            st.locals[nm] = Val(T.TRef(nmcls), T.unbox(a, v.z))


def isinstance_term(st, v, names):
    """z3 Bool for isinstance(v, names)."""
    conds = []
    for nm in names:
        conds.append(_isinstance_one(st, v, nm))
    return z3.Or(conds) if conds else z3.BoolVal(False)


_PRIM = {'str': T.STR, 'bytes': T.BYTES, 'int': T.INT, 'bool': T.BOOL, 'float': T.REAL}


def _isinstance_one(st, v, nm):
    k = v.t.kind
    if nm in _PRIM:
        want = _PRIM[nm]
        if k == 'union':
            r = T.tester(want, v.z)
            if nm == 'int':
                r = z3.Or(r, T.PyVal.is_b(v.z))
            return r
        if nm == 'int' and k == 'bool':
            return z3.BoolVal(True)
        return z3.BoolVal(v.t == want)
    if nm in ('list', 'dict', 'set'):
        if k == 'union':
            return z3.And(T.PyVal.is_o(v.z), T.PyVal.o_v(v.z) != 0,
                          TYPEOF(T.PyVal.o_v(v.z)) == R.CLASSES[nm].tag)
        return z3.BoolVal(k == nm) if k != 'ref' else z3.BoolVal(False)
    if nm == 'tuple':
        if k == 'union':
            return z3.And(T.PyVal.is_o(v.z), TYPEOF(T.PyVal.o_v(v.z)) == R.CLASSES['tuple'].tag)
        return z3.BoolVal(k in ('tuple', 'xtuple', 'seq'))
    if nm == 'Mapping':
        if k == 'union':
            return z3.And(T.PyVal.is_o(v.z), T.PyVal.o_v(v.z) != 0,
                          TYPEOF(T.PyVal.o_v(v.z)) == R.CLASSES['dict'].tag)
        return z3.BoolVal(k == 'dict')
    if nm == 'Sequence':
        if k == 'union':
            r = T.PyVal.o_v(v.z)
            return z3.Or(T.PyVal.is_s(v.z), T.PyVal.is_y(v.z),
                         z3.And(T.PyVal.is_o(v.z), r != 0,
                                z3.Or(TYPEOF(r) == R.CLASSES['list'].tag,
                                      TYPEOF(r) == R.CLASSES['tuple'].tag)))
        return z3.BoolVal(k in ('list', 'tuple', 'xtuple', 'seq', 'str', 'bytes'))
    # user / exception classes
    if k == 'union':
        return z3.And(T.PyVal.is_o(v.z), st.isinstance_term(T.PyVal.o_v(v.z), nm))
    if k == 'ref':
        if R.is_subclass(v.t.name, nm):
            return v.z != 0
        return st.isinstance_term(v.z, nm)
    if k == 'none':
        return z3.BoolVal(False)
    return z3.BoolVal(False)


# ----------------------------------------------------------------- comprehensions
def list_comprehension(st, n):
    """[elt for target in iterable if cond]: one generator; result defined by axioms.
    Without a filter: result[k] == elt(iter[k]).  With a filter the result is a fresh
    sequence constrained by a monotone index map (subsequence semantics)."""
    E = _ex()
    if len(n.generators) != 1:
        raise Undecided('nested comprehension')
    g = n.generators[0]
    it = E.ev(st, g.iter)
    s, et = seq_of(st, it)
    k = z3.Int('k!lc%d' % st.nfresh)
    saved = dict(st.locals)
    was_spec = st.spec
    st.spec = True
    st.qdepth += 1
    try:
        E.assign_target(st, g.target, Val(et, z3.Select(s.arr, k)))
        probe = E.ev(st, n.elt)
        conds = [E.truthy(st, E.ev(st, c)) for c in g.ifs]
    finally:
        st.locals = saved
        st.spec = was_spec
        st.qdepth -= 1
    rt = probe.t
    rs = T.sort_of(rt)
    r = seq_fresh(st, rs, 'lc')
    elem = lambda kk: z3.substitute(probe.z, (k, kk))
    if not conds:
        st.assume(r.n == s.n)
        st.assume(z3.ForAll([k], z3.Implies(z3.And(0 <= k, k < s.n), z3.Select(r.arr, k) == elem(k)),
                            patterns=[z3.Select(r.arr, k)]))
        st.assume(z3.ForAll([k], z3.Implies(z3.And(0 <= k, k < s.n), z3.Select(r.arr, k) == elem(k)),
                            patterns=[z3.Select(s.arr, k)]))
    else:
        cond = lambda kk: z3.substitute(z3.And(conds), (k, kk))
        src = z3.Function('src!%d' % st.nfresh, I, I)     # result index -> source index
        dst = z3.Function('dst!%d' % st.nfresh, I, I)     # source index -> result index
        j = z3.Int('j!lc')
        st.assume(z3.And(r.n >= 0, r.n <= s.n))
        st.assume(z3.ForAll([j], z3.Implies(z3.And(0 <= j, j < r.n),
                                            z3.And(0 <= src(j), src(j) < s.n, cond(src(j)),
                                                   z3.Select(r.arr, j) == elem(src(j)),
                                                   dst(src(j)) == j)),
                            patterns=[z3.Select(r.arr, j)]))
        st.assume(z3.ForAll([j, k], z3.Implies(z3.And(0 <= j, j < k, k < r.n), src(j) < src(k)),
                            patterns=[z3.MultiPattern(src(j), src(k))]))
        st.assume(z3.ForAll([k], z3.Implies(z3.And(0 <= k, k < s.n, cond(k)),
                                            z3.And(0 <= dst(k), dst(k) < r.n, src(dst(k)) == k)),
                            patterns=[z3.Select(s.arr, k)]))
    if was_spec or isinstance(n, ast.GeneratorExp):
        return Val(T.TSeq(rt), r)
    ref = st.new_ref('list')
    st.list_store(ref, rt, r)
    return Val(T.TList(rt), ref)
