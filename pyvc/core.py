"""State, path exploration and heap model of the pyvc symbolic executor."""
import z3

from . import types as T
from . import registry as R

TYPEOF = z3.Function('typeof', z3.IntSort(), z3.IntSort())


import re as _re_mod
_EPOCH_NAME = _re_mod.compile(r'^H\d+_(.*)$')


class Val(object):
    __slots__ = ('t', 'z')

    def __init__(self, t, z):
        self.t = t
        self.z = z

    def __repr__(self):
        return 'Val(%r, %s)' % (self.t, self.z)


class SeqV(object):
    """Immutable sequence value: SMT array + length."""
    __slots__ = ('arr', 'n')

    def __init__(self, arr, n):
        self.arr = arr
        self.n = n

    def __repr__(self):
        return 'SeqV(%s, %s)' % (self.arr, self.n)


class FnV(object):
    """Function value. kind: 'bound' (recv Val + method name), 'func' (contract key),
    'class' (class name), 'closure' (nested def node + env), 'lambda'."""

    def __init__(self, kind, name, recv=None, node=None, env=None, cls=None):
        self.kind = kind
        self.name = name
        self.recv = recv
        self.node = node
        self.env = env
        self.cls = cls

    def __repr__(self):
        return 'FnV(%s,%s)' % (self.kind, self.name)


class PathEnd(Exception):
    pass


class Undecided(Exception):
    """Unsupported construct / missing contract: the function is UNDECIDED, never a violation."""
    pass


class PyRaise(Exception):
    def __init__(self, cls, ref, lineno=None):
        Exception.__init__(self, cls)
        self.cls = cls
        self.ref = ref
        self.lineno = lineno


class ReturnSig(Exception):
    def __init__(self, val):
        self.val = val


class BreakSig(Exception):
    pass


class ContinueSig(Exception):
    pass


class Obligation(object):
    def __init__(self, func, label, lineno, pc, goal, path, kind='post'):
        self.func = func
        self.label = label
        self.lineno = lineno
        self.pc = pc
        self.goal = goal
        self.path = path
        self.kind = kind
        self.status = None
        self.backend = None
        self.time = 0.0
        self.model = None
        self.detail = ''

    @property
    def name(self):
        return '%s/%s' % (self.func, self.label)


def has_quantifier(e):
    seen = set()
    todo = [e]
    while todo:
        x = todo.pop()
        if z3.is_quantifier(x):
            return True
        i = x.get_id()
        if i in seen:
            continue
        seen.add(i)
        todo.extend(x.children())
    return False


class Explorer(object):
    """Enumerates the paths of one function by re-execution under a decision list."""

    def __init__(self, func_key, max_paths=4000):
        self.func_key = func_key
        self.obligations = []
        self.stack = [[]]
        self.paths = 0
        self.max_paths = max_paths
        self.exits = {'normal': 0, 'raise': 0, 'cut': 0}
        self.feas_cache = {}
        self.notes = []
        self.seen_obl = set()
        self.keepalive = []
        self.used = set()          # contract keys of every callee met during exploration

    def run(self, body):
        while self.stack:
            dec = self.stack.pop()
            self.paths += 1
            if self.paths > self.max_paths:
                raise Undecided('more than %d paths in %s' % (self.max_paths, self.func_key))
            st = State(self, dec)
            try:
                body(st)
            except PathEnd:
                pass


class State(object):
    def __init__(self, ex, decisions):
        self.ex = ex
        self.decisions = list(decisions)
        self.dpos = 0
        self.heap = {}
        self.locals = {}
        self.pc = []
        self.pc_ids = set()
        self.nfresh = 0
        self.alloc = z3.Int('alloc0')
        self.alloc0 = self.alloc
        self.fn_alloc0 = self.alloc
        self.fresh_epoch = 0
        self.qdepth = 0
        self.pc.append(self.alloc > 0)
        self.old_heap = None
        self.old_locals = None
        self.spec = False
        self.lineno = 0
        self.fn = None           # FuncSrc being executed
        self.contract = None
        self.mod_targets = None  # evaluated modifies of the function under verification
        self.frames = None       # [(targets, alloc threshold)]: function frame, then enclosing loops
        self.pending_writes = []
        self.call_log = []
        self.yielded = False     # a yield point has been passed on this path (shared state was havocked)
        self.trace = []
        self.ghost = {}
        self.scope_depth = None
        self.label_stack = []

    # ---- fresh symbols
    def fresh(self, sort, hint='v'):
        self.nfresh += 1
        return z3.Const('%s!%d' % (hint, self.nfresh), sort)

    # ---- path condition
    def assume(self, b):
        if z3.is_true(b):
            return
        i = b.get_id()
        if i in self.pc_ids:
            return              # the same fact (hash-consed term) is already part of the path condition
        self.pc_ids.add(i)
        self.pc.append(b)

    def feasible(self, extra):
        s = z3.Solver()
        s.set('timeout', 1500)
        for p in self.pc:
            if not has_quantifier(p):
                s.add(p)
        s.add(extra)
        r = s.check()
        return r != z3.unsat

    def choose(self, n, what=''):
        if self.dpos < len(self.decisions):
            v = self.decisions[self.dpos]
            self.dpos += 1
            return v
        prefix = list(self.decisions)
        for alt in range(n - 1, 0, -1):
            self.ex.stack.append(prefix + [alt])
        self.decisions.append(0)
        self.dpos += 1
        return 0

    def branch(self, cond):
        """Fork on a z3 Bool; returns the Python bool taken on this path."""
        c = z3.simplify(cond)
        if z3.is_true(c):
            return True
        if z3.is_false(c):
            return False
        if self.dpos < len(self.decisions):
            v = self.decisions[self.dpos]
            self.dpos += 1
            taken = (v == 0)
        else:
            ft = self.feasible(c)
            ff = self.feasible(z3.Not(c))
            prefix = list(self.decisions)
            if ft and ff:
                self.ex.stack.append(prefix + [1])
                self.decisions.append(0)
                taken = True
            elif ft:
                self.decisions.append(0)
                taken = True
            elif ff:
                self.decisions.append(1)
                taken = False
            else:
                raise PathEnd()
            self.dpos += 1
        self.assume(c if taken else z3.Not(c))
        return taken

    # ---- obligations
    def prove(self, label, goal, kind='post', lineno=None):
        if z3.is_and(goal) and goal.num_args() > 1:
            # one SMT query per conjunct: smaller queries, and the failing clause is named
            kids = goal.children()
            for i, ch in enumerate(kids):
                self.prove('%s.%d' % (label, i), ch, kind, lineno)
            return
        g = z3.simplify(goal) if not has_quantifier(goal) else goal
        if z3.is_true(g):
            self.ex.obligations.append(
                Obligation(self.ex.func_key, label, lineno or self.lineno, [], z3.BoolVal(True),
                           tuple(self.decisions[:self.dpos]), kind))
            self.ex.obligations[-1].status = 'trivial'
            return
        sig = (label, goal.get_id(), tuple(p.get_id() for p in self.pc))
        if sig not in self.ex.seen_obl:
            # identical obligation reached along several decision prefixes: one query is enough
            self.ex.seen_obl.add(sig)
            ob = Obligation(self.ex.func_key, label, lineno or self.lineno, list(self.pc), goal,
                            tuple(self.decisions[:self.dpos]), kind)
            # for the native replay of a counter-model: the function's entry state and the outcome of this path
            ob.entry = getattr(self, 'entry_info', None)
            ob.outcome = getattr(self, 'outcome_info', None)
            self.ex.obligations.append(ob)
            self.ex.keepalive.append((goal, list(self.pc)))
        if z3.is_false(g):
            # a goal that is literally false (e.g. a ghost scope check) is reported but not assumed:
            # assuming it would make the rest of the path vacuous and hide later failures
            return
        self.assume(goal)

    # ---- heap
    def _len_nonneg(self, key, h):
        # heap type invariant: every list / dict length is non-negative
        if key.startswith('$llen') or key == '$dlen':
            r = z3.Int('r!nn')
            self.pc.append(z3.ForAll([r], z3.Select(h, r) >= 0, patterns=[z3.Select(h, r)]))

    def H(self, key, sort):
        if key not in self.heap:
            if self.fresh_epoch == 0:
                self.heap[key] = z3.Const('H0_' + key, sort)
                self._len_nonneg(key, self.heap[key])
            else:
                # first touched after a havoc of the fresh region: equal to the initial heap
                # on the objects that existed at function entry, arbitrary on the others
                h0 = z3.Const('H0_' + key, sort)
                h = z3.Const('H%d_%s' % (self.fresh_epoch, key), sort)
                r = z3.Int('r!fr')
                self.pc.append(z3.ForAll([r], z3.Implies(r < self.fn_alloc0, z3.Select(h, r) == z3.Select(h0, r)),
                                         patterns=[z3.Select(h, r), z3.Select(h0, r)]))
                self.heap[key] = h
                self._len_nonneg(key, h)
        return self.heap[key]

    def havoc_fresh_region(self, base=None):
        """Havoc every field and container content of the objects allocated since function entry (or, with `base`,
        of the objects at addresses >= base only)."""
        self.fresh_epoch = self.nfresh + 1
        self.nfresh += 1
        r = z3.Int('r!fr')
        bound = self.fn_alloc0 if base is None else base
        for key in list(self.heap.keys()):
            old = self.heap[key]
            h = z3.Const('H%d_%s' % (self.fresh_epoch, key), old.sort())
            # both directions: a term over the old heap (e.g. from an instantiated precondition) must reach
            # the new one too, else e-matching never connects them
            pats = [z3.Select(h, r)] + ([z3.Select(old, r)] if z3.is_const(old) else [])
            self.pc.append(z3.ForAll([r], z3.Implies(r < bound, z3.Select(h, r) == z3.Select(old, r)),
                                     patterns=pats))
            self.heap[key] = h
            self._len_nonneg(key, h)

    def field_key(self, cls, fname):
        dcls, ty = R.find_field(cls, fname)
        if dcls is None:
            raise Undecided('no declared field %s.%s' % (cls, fname))
        return '%s.%s' % (dcls, fname), ty

    def read_field(self, ref, cls, fname):
        key, ty = self.field_key(cls, fname)
        arr = self.H(key, z3.ArraySort(z3.IntSort(), T.sort_of(ty)))
        v = Val(ty, z3.Select(arr, ref))
        self.assume_type(v)
        return v

    def write_field(self, ref, cls, fname, val):
        key, ty = self.field_key(cls, fname)
        arr = self.H(key, z3.ArraySort(z3.IntSort(), T.sort_of(ty)))
        self.heap[key] = z3.Store(arr, ref, self.coerce(val, ty).z)

    def new_ref(self, cls):
        r = self.fresh(z3.IntSort(), 'new_' + cls)
        self.assume(r == self.alloc)
        self.alloc = r + 1
        ci = R.CLASSES.get(cls)
        if ci is None:
            raise Undecided('unknown class %s' % cls)
        self.assume(TYPEOF(r) == ci.tag)
        return r

    def bump_alloc(self):
        """A callee may have allocated: the allocation counter moves forward arbitrarily."""
        a = self.fresh(z3.IntSort(), 'alloc')
        self.assume(a >= self.alloc)
        self.alloc = a

    def isinstance_term(self, ref, cls):
        subs = R.subclasses_of(cls)
        if not subs:
            return z3.BoolVal(False)
        return z3.And(ref != 0, z3.Or([TYPEOF(ref) == R.CLASSES[s].tag for s in subs]))

    def assume_type(self, v):
        """Typing facts of a value just read from the heap / havocked / received."""
        if self.qdepth > 0:
            return      # under a quantifier binder: the term mentions bound variables
        t = v.t
        if t.kind == 'tuple':
            dt = T.sort_of(t)
            for i, a in enumerate(t.args):
                self.assume_type(Val(a, dt.accessor(0, i)(v.z)))
            return
        if t.kind in ('ref', 'list', 'set', 'dict', 'union'):
            self._entry_wf(v)
        if t.kind == 'ref':
            self.assume(z3.And(v.z >= 0, v.z < self.alloc))
            if t.name in R.CLASSES and t.name != 'object':
                self.assume(z3.Or(v.z == 0, self.isinstance_term(v.z, t.name)))
        elif t.kind in ('list', 'set', 'dict'):
            self.assume(z3.And(v.z >= 0, v.z < self.alloc))
            if t.kind == 'list':
                # a List-typed slot may hold a tuple object (immutable sequence): duck typing
                self.assume(z3.Or(v.z == 0, TYPEOF(v.z) == R.CLASSES['list'].tag,
                                  TYPEOF(v.z) == R.CLASSES['tuple'].tag))
            else:
                self.assume(z3.Or(v.z == 0, TYPEOF(v.z) == R.CLASSES[t.kind].tag))
            if t.kind == 'list':
                if t.args and t.args[0].kind != 'unknown':
                    self.assume(z3.Select(self.llen_arr(T.sort_of(t.args[0])), v.z) >= 0)
            if t.kind == 'dict':
                self.assume(z3.Select(self.H('$dlen', z3.ArraySort(z3.IntSort(), z3.IntSort())), v.z) >= 0)
                if t.args and t.args[0].kind != 'unknown':
                    key = ('dictwf', v.z.get_id(), tuple(sorted((k, a.get_id()) for k, a in self.heap.items() if k.startswith('$d'))))
                    if key not in self.ghost.setdefault('$wf_seen', set()):
                        self.ghost['$wf_seen'].add(key)
                        self.assume(z3.Implies(v.z != 0, self.dict_wf(v.z, t.args[0], t.args[1])))
        elif t.kind == 'union' and t.args:
            alts = []
            for a in t.args:
                cond = T.tester(a, v.z)
                if a.kind == 'ref' and a.name in R.CLASSES and a.name != 'object':
                    r = T.PyVal.o_v(v.z)
                    cond = z3.And(cond, r < self.alloc, self.isinstance_term(r, a.name))
                elif a.is_reflike:
                    r = T.PyVal.o_v(v.z)
                    tg = TYPEOF(r) == R.CLASSES[a.kind].tag
                    if a.kind == 'list':
                        tg = z3.Or(tg, TYPEOF(r) == R.CLASSES['tuple'].tag)
                    cond = z3.And(cond, r < self.alloc, tg)
                alts.append(cond)
            self.assume(z3.Or(alts))
        elif t.kind == 'union':
            self.assume(z3.Implies(T.PyVal.is_o(v.z), z3.And(T.PyVal.o_v(v.z) > 0,
                                                             T.PyVal.o_v(v.z) < self.alloc)))

    def _entry_wf(self, v):
        """Well-formedness of the heap the function was entered with: a reference stored in a field or container
        of an object that existed at entry was itself allocated at entry.  Emitted for the value just read as
        `holder < alloc0 and current slot == slot in the entry heap  ==>  value < alloc0` (the entry heap H0 is
        unconstrained at addresses >= alloc0, so the fact says nothing about objects allocated later)."""
        if self.alloc is self.fn_alloc0 or self.fn_alloc0 is None:
            return
        z = v.z
        chain = []
        while z3.is_app(z) and z.decl().kind() == z3.Z3_OP_DT_ACCESSOR:
            chain.append(z.decl())
            z = z.arg(0)
        if not (z3.is_app(z) and z.decl().kind() == z3.Z3_OP_SELECT):
            return
        cur_ids = {a.get_id(): k for k, a in self.heap.items()}

        def heap_key(a):
            # the current array of a heap key, or the array constant of an earlier havoc epoch (H<e>_<key>)
            if a.get_id() in cur_ids:
                return cur_ids[a.get_id()]
            if z3.is_const(a) and a.decl().kind() == z3.Z3_OP_UNINTERPRETED:
                m = _EPOCH_NAME.match(a.decl().name())
                if m:
                    return m.group(1)
            return None
        x, idx = z.arg(0), z.arg(1)
        twin = holder = None
        if heap_key(x) is not None:                    # field read  H_f[r]
            k = heap_key(x)
            if k.startswith('$'):
                return
            twin, holder = z3.Select(z3.Const('H0_' + k, x.sort()), idx), idx
        elif z3.is_app(x) and x.decl().kind() == z3.Z3_OP_SELECT and heap_key(x.arg(0)) is not None:
            k = heap_key(x.arg(0))                     # container element  H_arr[c][i]
            holder = x.arg(1)
            twin = z3.Select(z3.Select(z3.Const('H0_' + k, x.arg(0).sort()), holder), idx)
        if twin is None:
            return
        cur = z
        for d in reversed(chain):
            twin, cur = d(twin), d(cur)
        if v.t.kind == 'union':
            bound = z3.Implies(T.PyVal.is_o(cur), T.PyVal.o_v(cur) < self.fn_alloc0)
        else:
            bound = cur < self.fn_alloc0
        self.assume(z3.Implies(z3.And(holder >= 0, holder < self.fn_alloc0, cur == twin), bound))

    # ---- containers in the heap
    def llen_key(self, esort):
        # one length map per element sort: lists of different element types never interfere
        return '$llen:' + T.sort_name(esort)

    def llen_arr(self, esort):
        return self.H(self.llen_key(esort), z3.ArraySort(z3.IntSort(), z3.IntSort()))

    def larr_key(self, esort):
        return '$larr:' + T.sort_name(esort)

    def list_seq(self, ref, et):
        es = T.sort_of(et)
        a = self.H(self.larr_key(es), z3.ArraySort(z3.IntSort(), z3.ArraySort(z3.IntSort(), es)))
        return SeqV(z3.Select(a, ref), z3.Select(self.llen_arr(es), ref))

    def list_store(self, ref, et, seq):
        es = T.sort_of(et)
        k = self.larr_key(es)
        a = self.H(k, z3.ArraySort(z3.IntSort(), z3.ArraySort(z3.IntSort(), es)))
        self.heap[k] = z3.Store(a, ref, seq.arr)
        self.heap[self.llen_key(es)] = z3.Store(self.llen_arr(es), ref, seq.n)

    def set_key(self, esort):
        return '$set:' + T.sort_name(esort)

    def set_val(self, ref, et):
        es = T.sort_of(et)
        a = self.H(self.set_key(es), z3.ArraySort(z3.IntSort(), z3.ArraySort(es, z3.BoolSort())))
        return z3.Select(a, ref)

    def set_store(self, ref, et, sv, card=None):
        es = T.sort_of(et)
        k = self.set_key(es)
        a = self.H(k, z3.ArraySort(z3.IntSort(), z3.ArraySort(es, z3.BoolSort())))
        self.heap[k] = z3.Store(a, ref, sv)
        # ghost cardinality map (len(set)); unknown (>= 0) unless the operation determines it
        ck = '$scard:' + T.sort_name(es)
        if ck in self.heap or card is not None:
            ca = self.H(ck, z3.ArraySort(z3.IntSort(), z3.IntSort()))
            if card is None:
                card = self.fresh(z3.IntSort(), 'card')
            self.heap[ck] = z3.Store(ca, ref, card)

    def set_card(self, ref, et):
        es = T.sort_of(et)
        ck = '$scard:' + T.sort_name(es)
        ca = self.H(ck, z3.ArraySort(z3.IntSort(), z3.IntSort()))
        c = z3.Select(ca, ref)
        sv = self.set_val(ref, et)
        # heap type invariant of sets: cardinality >= 0 and zero exactly for the empty set
        self.assume(c >= 0)
        self.assume((c == 0) == (sv == z3.K(es, False)))
        return c

    # dict: ordered keys (seq) + map + membership
    def dict_parts(self, ref, kt, vt):
        ks, vs = T.sort_of(kt), T.sort_of(vt)
        I = z3.IntSort()
        kk = '$dkeys:' + T.sort_name(ks)
        mk = '$dmap:' + T.sort_name(ks) + ':' + T.sort_name(vs)
        hk = '$dhas:' + T.sort_name(ks)
        keys = z3.Select(self.H(kk, z3.ArraySort(I, z3.ArraySort(I, ks))), ref)
        n = z3.Select(self.H('$dlen', z3.ArraySort(I, I)), ref)
        mp = z3.Select(self.H(mk, z3.ArraySort(I, z3.ArraySort(ks, vs))), ref)
        has = z3.Select(self.H(hk, z3.ArraySort(I, z3.ArraySort(ks, z3.BoolSort()))), ref)
        return SeqV(keys, n), mp, has

    def dict_store(self, ref, kt, vt, keys, mp, has):
        ks, vs = T.sort_of(kt), T.sort_of(vt)
        I = z3.IntSort()
        kk = '$dkeys:' + T.sort_name(ks)
        mk = '$dmap:' + T.sort_name(ks) + ':' + T.sort_name(vs)
        hk = '$dhas:' + T.sort_name(ks)
        self.heap[kk] = z3.Store(self.H(kk, z3.ArraySort(I, z3.ArraySort(I, ks))), ref, keys.arr)
        self.heap['$dlen'] = z3.Store(self.H('$dlen', z3.ArraySort(I, I)), ref, keys.n)
        self.heap[mk] = z3.Store(self.H(mk, z3.ArraySort(I, z3.ArraySort(ks, vs))), ref, mp)
        self.heap[hk] = z3.Store(self.H(hk, z3.ArraySort(I, z3.ArraySort(ks, z3.BoolSort()))), ref, has)

    def dict_wf(self, ref, kt, vt):
        """Well-formedness of a dict object: keys distinct, has[k] <=> k in keys."""
        keys, mp, has = self.dict_parts(ref, kt, vt)
        ks = T.sort_of(kt)
        i = z3.Int('wf_i')
        j = z3.Int('wf_j')
        x = z3.Const('wf_x', ks)
        idx = z3.Function('$didx_' + T.sort_name(ks), z3.ArraySort(z3.IntSort(), ks), ks, z3.IntSort())
        return z3.And(
            keys.n >= 0,
            z3.ForAll([i], z3.Implies(z3.And(0 <= i, i < keys.n),
                                      z3.And(z3.Select(has, z3.Select(keys.arr, i)),
                                             idx(keys.arr, z3.Select(keys.arr, i)) == i)),
                      patterns=[z3.Select(keys.arr, i)]),
            z3.ForAll([x], z3.Implies(z3.Select(has, x),
                                      z3.And(0 <= idx(keys.arr, x), idx(keys.arr, x) < keys.n,
                                             z3.Select(keys.arr, idx(keys.arr, x)) == x)),
                      patterns=[z3.Select(has, x)]))

    # ---- value coercion
    def coerce(self, v, ty):
        """Convert a Val to static type ty (boxing / numeric widening)."""
        if v.t == ty:
            return v
        if ty.kind == 'union':
            if v.t.kind == 'union':
                return Val(ty, v.z)
            if v.t.kind in ('seq', 'setv', 'fn', 'typeobj', 'tuple', 'opaque'):
                raise Undecided('cannot box %r into %r' % (v.t, ty))
            if v.t.kind in ('list', 'set', 'dict') and v.t.args and v.t.args[0].kind == 'unknown':
                # an empty container literal boxed into a union: it takes the element type of the union's
                # alternative of the same kind (its contents must be initialised as empty in that heap map)
                alts = [a for a in ty.args if a.kind == v.t.kind]
                if len(alts) != 1:
                    raise Undecided('empty %s literal boxed into %r: element type not determined' % (v.t.kind, ty))
                self.init_empty(v, alts[0])
            return Val(ty, T.box(v.t, v.z))
        if ty.kind == 'real' and v.t.kind == 'int':
            return Val(ty, z3.ToReal(v.z))
        if ty.kind == 'real' and v.t.kind == 'bool':
            return Val(ty, z3.If(v.z, z3.RealVal(1), z3.RealVal(0)))
        if ty.kind == 'int' and v.t.kind == 'bool':
            return Val(ty, z3.If(v.z, z3.IntVal(1), z3.IntVal(0)))
        if v.t.kind == 'union':
            # unbox: the caller is responsible for having established the alternative
            return Val(ty, T.unbox(ty, v.z))
        if ty.is_reflike and v.t.kind == 'none':
            return Val(ty, z3.IntVal(0))
        if ty.is_reflike and v.t.is_reflike:
            if v.t.kind == ty.kind and v.t.kind != 'ref' and v.t.args and v.t.args[0].kind == 'unknown':
                # an empty container literal receives its element type from the typed context
                self.init_empty(v, ty)
                return v
            if v.t.kind == 'list' and ty.kind == 'list' and v.t.args[0] != ty.args[0] \
                    and T.sort_of(v.t.args[0]) != T.sort_of(ty.args[0]):
                # same list object viewed at another element type (e.g. List[Tuple[E, Str]] returned as
                # List[Tuple[E, Union[...]]]): its contents are re-stated in the heap map of the new sort
                src = self.list_seq(v.z, v.t.args[0])
                es = T.sort_of(ty.args[0])
                k = z3.Int('k!cv')
                conv = self.coerce(Val(v.t.args[0], z3.Select(src.arr, k)), ty.args[0]).z
                narr = self.fresh(z3.ArraySort(z3.IntSort(), es), 'conv')
                self.assume(z3.ForAll([k], z3.Implies(z3.And(0 <= k, k < src.n), z3.Select(narr, k) == conv),
                                      patterns=[z3.Select(narr, k)]))
                self.list_store(v.z, ty.args[0], SeqV(narr, src.n))
                return Val(ty, v.z)
            if ty.kind == 'ref' or v.t.kind == ty.kind:
                return Val(ty, v.z)
        if ty.kind == 'ref' and v.t.kind == 'ref':
            return Val(ty, v.z)
        if ty.kind == 'tuple' and v.t.kind == 'tuple' and len(ty.args) == len(v.t.args):
            dt_src = T.sort_of(v.t)
            comps = [self.coerce(Val(a, dt_src.accessor(0, i)(v.z)), b).z
                     for i, (a, b) in enumerate(zip(v.t.args, ty.args))]
            return Val(ty, T.sort_of(ty).constructor(0)(*comps))
        if ty.kind in ('str', 'bytes') and v.t.kind in ('str', 'bytes'):
            return Val(ty, v.z)
        raise Undecided('cannot coerce %r to %r (line %s)' % (v.t, ty, self.lineno))

    def init_empty(self, v, ty):
        """Give an (empty, freshly allocated) container of undeclared element type its type."""
        if ty.kind == 'list':
            es = T.sort_of(ty.args[0])
            self.list_store(v.z, ty.args[0], SeqV(self.fresh(z3.ArraySort(z3.IntSort(), es), 'empty'), z3.IntVal(0)))
        elif ty.kind == 'set':
            self.set_store(v.z, ty.args[0], z3.K(T.sort_of(ty.args[0]), False), z3.IntVal(0))
        elif ty.kind == 'dict':
            kt, vt = ty.args
            keys, mp, has = self.dict_parts(v.z, kt, vt)
            self.dict_store(v.z, kt, vt, SeqV(keys.arr, z3.IntVal(0)), mp, z3.K(T.sort_of(kt), False))
        v.t = ty

    def fresh_val(self, ty, hint='v'):
        if ty.kind == 'none':
            return Val(ty, T.PyVal.none)
        if ty.kind == 'seq':
            es = T.sort_of(ty.args[0])
            v = Val(ty, SeqV(self.fresh(z3.ArraySort(z3.IntSort(), es), hint + '_a'),
                             self.fresh(z3.IntSort(), hint + '_n')))
            self.assume(v.z.n >= 0)
            return v
        v = Val(ty, self.fresh(T.sort_of(ty), hint))
        self.assume_type(v)
        return v


_orig_multipattern = z3.MultiPattern


def _safe_multipattern(*args):
    # z3py's MultiPattern rebinds `args` before calling Z3_mk_pattern, which can free
    # temporaries passed inline (observed: intermittent "invalid argument"); keep them alive.
    keep = tuple(args)
    r = _orig_multipattern(*keep)
    return r


z3.MultiPattern = _safe_multipattern
