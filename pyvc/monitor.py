"""G2 -- monitor invariants at yield points (cooperative gevent scheduling: code between two yield points is
atomic).  At every call of a contract marked `yields=True` made by a method of a monitored class:

  before: every monitor invariant clause is an obligation ("the invariant holds when control can leave");
  after:  the shared state is havocked ("other greenlets did anything they are allowed to"), the invariant
          is assumed again, and the calling function's `rely` clauses (two-state: old() = the state just before
          the yield) are assumed -- they express what the other greenlets guarantee to this one.

Any schedule is a sequence of such atomic blocks, so facts proved this way hold for all interleavings,
unbounded in the number of greenlets.  What is trusted: gevent's cooperative scheduling (no preemption between
yield points) and the set of yield primitives (contracts with yields=True)."""
import z3

from . import registry as R
from . import exec as E
from . import calls


def hook(st, phase, c, line):
    fc = st.contract
    if fc is None or st.spec:
        return
    self_v = (st.old_locals or {}).get('self')
    if self_v is None or self_v.t.kind != 'ref':
        return
    mon = None
    for cn in R.mro(self_v.t.name):
        if cn in R.MONITORS:
            mon = R.MONITORS[cn]
            break
    if mon is None:
        return
    env = dict(st.old_locals or {})
    if phase == 'before':
        if not getattr(fc, 'yields', False):
            # a method whose contract promises atomicity (callers keep their facts across it) must not yield
            st.prove('yield[%s]@%d/caller-declared-atomic' % (c.key, line), z3.BoolVal(False), kind='yield', lineno=line)
        for i, inv in enumerate(mon['inv']):
            st.prove('yield[%s]@%d/inv#%d' % (c.key, line, i), E.spec_bool(st, inv, env), kind='yield', lineno=line)
        st.ghost['$pre_yield_heap'] = dict(st.heap)
        return
    pre = st.ghost.get('$pre_yield_heap') or dict(st.heap)
    st.yielded = True
    targets = []
    for m in mon['shared']:
        targets.extend(calls.eval_mod_entry(st, m, env))
    calls.havoc(st, targets)
    for inv in mon['inv']:
        st.assume(E.spec_bool(st, inv, env))
    for rl in getattr(fc, 'rely', []) or []:
        st.assume(E.spec_bool(st, rl, dict(st.locals), old_heap=pre, old_locals=dict(st.locals)))


calls.YIELD_HOOK[0] = hook
