"""Type language of the sidecar contracts and its mapping to SMT sorts.

Every executor-level value is a ``Val(t, z)``: a static type ``t`` and a z3 term
``z`` of ``sort_of(t)``.  Mutable containers (list/set/dict) and objects are
*references* (z3 Int, 0 == None) into a Boogie-style heap (one SMT array per
field); immutable values (int, bool, float-as-real, str, bytes, fixed tuples)
are SMT values.  ``Seq``/``SetV``/``MapV`` are immutable mathematical values used
by specifications (and by Python tuples of symbolic length).
"""
import ast
import z3


class Ty(object):
    __slots__ = ('kind', 'args', 'name')

    def __init__(self, kind, args=(), name=None):
        self.kind = kind
        self.args = tuple(args)
        self.name = name

    def __eq__(self, o):
        return isinstance(o, Ty) and (self.kind, self.args, self.name) == (o.kind, o.args, o.name)

    def __hash__(self):
        return hash((self.kind, self.args, self.name))

    def __repr__(self):
        if self.kind in ('ref', 'opaque'):
            return '%s[%s]' % (self.kind.capitalize(), self.name)
        if self.args:
            return '%s[%s]' % (self.kind.capitalize(), ','.join(map(repr, self.args)))
        return self.kind.capitalize()

    @property
    def is_reflike(self):
        return self.kind in ('ref', 'list', 'set', 'dict')


INT = Ty('int')
BOOL = Ty('bool')
REAL = Ty('real')
STR = Ty('str')
BYTES = Ty('bytes')
NONE = Ty('none')
ANY = Ty('union')          # union with no refinement
FN = Ty('fn')              # function value (executor-level payload)
TYPEOBJ = Ty('typeobj')    # class object (executor-level payload)


def TRef(name):
    return Ty('ref', (), name)


def TList(e):
    return Ty('list', (e,))


def TSet(e):
    return Ty('set', (e,))


def TDict(k, v):
    return Ty('dict', (k, v))


def TTuple(*ts):
    return Ty('tuple', ts)


def TSeq(e):
    return Ty('seq', (e,))


def TSetV(e):
    return Ty('setv', (e,))


def TUnion(*alts):
    flat = []
    for a in alts:
        if a.kind == 'union':
            if not a.args:
                return ANY
            flat.extend(a.args)
        else:
            flat.append(a)
    out = []
    for a in flat:
        if a not in out:
            out.append(a)
    if len(out) == 1:
        return out[0]
    return Ty('union', out)


def TOpaque(name):
    return Ty('opaque', (), name)


_ALIASES = {}


def alias(name, ty):
    _ALIASES[name] = parse_type(ty) if isinstance(ty, str) else ty


def parse_type(src):
    if isinstance(src, Ty):
        return src
    node = ast.parse(src.strip(), mode='eval').body
    return _pt(node)


def _pt(n):
    if isinstance(n, ast.Constant) and n.value is None:
        return NONE
    if isinstance(n, ast.Constant) and isinstance(n.value, str):
        return parse_type(n.value)
    if isinstance(n, ast.Name):
        nm = n.id
        if nm in _ALIASES:
            return _ALIASES[nm]
        simple = {'Int': INT, 'int': INT, 'Bool': BOOL, 'bool': BOOL, 'Real': REAL,
                  'float': REAL, 'Str': STR, 'str': STR, 'Bytes': BYTES, 'bytes': BYTES,
                  'None': NONE, 'Any': ANY, 'Fn': FN, 'Kwargs': Ty('kwargs'), 'Cls': TYPEOBJ, 'Args0': Ty('xtuple', (), '0'), 'Args1': Ty('xtuple', (), '1')}
        if nm in simple:
            return simple[nm]
        return TRef(nm)
    if isinstance(n, ast.Attribute):
        return TRef(n.attr)
    if isinstance(n, ast.Subscript):
        head = n.value.id
        sl = n.slice
        items = list(sl.elts) if isinstance(sl, ast.Tuple) else [sl]
        args = [_pt(i) for i in items]
        if head == 'List':
            return TList(args[0])
        if head == 'Set':
            return TSet(args[0])
        if head == 'Dict':
            return TDict(args[0], args[1])
        if head == 'Tuple':
            return TTuple(*args)
        if head == 'Seq':
            return TSeq(args[0])
        if head == 'SetV':
            return TSetV(args[0])
        if head == 'MapV':
            return Ty('mapv', (args[0], args[1]))
        if head == 'ArrV':
            return Ty('mapv', (INT, args[0]))
        if head in ('Opt', 'Optional'):
            a = args[0]
            if a.is_reflike:
                return a           # references are nullable (0 == None)
            return TUnion(NONE, a)
        if head == 'Union':
            return TUnion(*args)
        if head == 'Ref':
            return args[0]
        if head == 'Opaque':
            return TOpaque(items[0].id)
    if isinstance(n, ast.BinOp) and isinstance(n.op, ast.BitOr):
        return TUnion(_pt(n.left), _pt(n.right))
    raise ValueError('cannot parse type %r' % ast.dump(n))


# ---------------------------------------------------------------- sorts

_OPAQUE_SORTS = {}
_TUPLE_SORTS = {}

PyVal = z3.Datatype('PyVal')
PyVal.declare('none')
PyVal.declare('b', ('b_v', z3.BoolSort()))
PyVal.declare('i', ('i_v', z3.IntSort()))
PyVal.declare('r', ('r_v', z3.RealSort()))
PyVal.declare('s', ('s_v', z3.StringSort()))
PyVal.declare('y', ('y_v', z3.StringSort()))
PyVal.declare('o', ('o_v', z3.IntSort()))
PyVal = PyVal.create()


def opaque_sort(name):
    if name not in _OPAQUE_SORTS:
        _OPAQUE_SORTS[name] = z3.DeclareSort(name)
    return _OPAQUE_SORTS[name]


def sort_name(s):
    return str(s).replace(' ', '').replace('(', '_').replace(')', '_').replace(',', '_')


def tuple_sort(sorts):
    key = tuple(sort_name(s) for s in sorts)
    if key not in _TUPLE_SORTS:
        dt = z3.Datatype('Tup_' + '_'.join(key))
        dt.declare('mk', *[('f%d' % i, s) for i, s in enumerate(sorts)])
        _TUPLE_SORTS[key] = dt.create()
    return _TUPLE_SORTS[key]


def sort_of(t):
    k = t.kind
    if k == 'int':
        return z3.IntSort()
    if k == 'bool':
        return z3.BoolSort()
    if k == 'real':
        return z3.RealSort()
    if k in ('str', 'bytes'):
        return z3.StringSort()
    if k in ('ref', 'list', 'set', 'dict'):
        return z3.IntSort()
    if k in ('union', 'none'):
        return PyVal
    if k == 'tuple':
        return tuple_sort([sort_of(a) for a in t.args])
    if k == 'opaque':
        return opaque_sort(t.name)
    if k == 'setv':
        return z3.ArraySort(sort_of(t.args[0]), z3.BoolSort())
    if k == 'mapv':
        return z3.ArraySort(sort_of(t.args[0]), sort_of(t.args[1]))
    raise TypeError('type %r has no single SMT sort' % (t,))


def box(t, z):
    """Box a value of (non-union) type t into PyVal."""
    k = t.kind
    if k == 'none':
        return PyVal.none
    if k == 'bool':
        return PyVal.b(z)
    if k == 'int':
        return PyVal.i(z)
    if k == 'real':
        return PyVal.r(z)
    if k == 'str':
        return PyVal.s(z)
    if k == 'bytes':
        return PyVal.y(z)
    if k in ('ref', 'list', 'set', 'dict'):
        # a null reference is Python's None
        return z3.If(z == 0, PyVal.none, PyVal.o(z))
    if k == 'union':
        return z
    raise TypeError('cannot box %r' % (t,))


def tester(t, z):
    """z3 Bool: the PyVal z holds an alternative of type t (for refs: some object)."""
    k = t.kind
    if k == 'none':
        return PyVal.is_none(z)
    if k == 'bool':
        return PyVal.is_b(z)
    if k == 'int':
        return PyVal.is_i(z)
    if k == 'real':
        return PyVal.is_r(z)
    if k == 'str':
        return PyVal.is_s(z)
    if k == 'bytes':
        return PyVal.is_y(z)
    if k in ('ref', 'list', 'set', 'dict'):
        return z3.And(PyVal.is_o(z), PyVal.o_v(z) != 0)
    raise TypeError('no tester for %r' % (t,))


def unbox(t, z):
    k = t.kind
    if k == 'none':
        return PyVal.none
    if k == 'bool':
        return PyVal.b_v(z)
    if k == 'int':
        return PyVal.i_v(z)
    if k == 'real':
        return PyVal.r_v(z)
    if k == 'str':
        return PyVal.s_v(z)
    if k == 'bytes':
        return PyVal.y_v(z)
    if k in ('ref', 'list', 'set', 'dict'):
        return PyVal.o_v(z)
    raise TypeError('cannot unbox %r' % (t,))
